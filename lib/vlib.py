"""Shared machinery of /verif/bin/check: work dirs, harness build, TLC runs, trace validation,
evidence, known findings, verdicts.  python3 stdlib only."""
import json
import os
import re
import shutil
import subprocess
import sys
import time

import tlaval

VERIF = os.path.dirname(os.path.dirname(os.path.abspath(__file__)))
REPO = os.environ.get("VERIF_REPO", "/repo")
TLA_JARS = "/opt/veriftools/tla/tla2tools.jar:/opt/veriftools/tla/CommunityModules-deps.jar"
GOENV = {"GOFLAGS": "-mod=mod", "GOPROXY": "off", "GOSUMDB": "off", "GOTOOLCHAIN": "local"}


class Machinery(Exception):
    """The machinery itself failed (exit 2) - never a verdict about the code."""


def log(*a):
    print(*a, flush=True)


class Ctx:
    def __init__(self, prop, tier, seed):
        self.prop = prop
        self.tier = tier
        self.seed = seed
        self.t0 = time.time()
        self.work = os.path.join(VERIF, ".work", "%s-%s-%d" % (prop, tier, os.getpid()))
        shutil.rmtree(self.work, ignore_errors=True)
        os.makedirs(self.work)
        self.states = 0
        self.transitions = 0
        self.traces = 0
        self.samples = []
        self.legs = []
        self.tlc_cmds = []
        self.assumptions = []
        self.violations = []     # (text, replay path)
        self.known_hits = {}     # id -> (what, count)
        self.notes = []
        self.extra = {}
        self.exhaustive = False
        self.rule = ""
        self._vh = None
        self._vh_race = None
        self._n = 0
        self.known = load_known(prop)

    # ---------------------------------------------------------------- harness
    def harness(self, race=False):
        attr = "_vh_race" if race else "_vh"
        if getattr(self, attr):
            return getattr(self, attr)
        t = time.time()
        hdir = os.path.join(VERIF, "harness")
        moddir = os.path.join(self.work, "gomod")
        os.makedirs(moddir, exist_ok=True)
        with open(os.path.join(hdir, "go.mod.tmpl")) as f:
            tmpl = f.read()
        with open(os.path.join(moddir, "go.mod"), "w") as f:
            f.write(tmpl.replace("@REPO@", REPO))
        shutil.copy(os.path.join(REPO, "go.sum"), os.path.join(moddir, "go.sum"))
        out = os.path.join(self.work, "vh-race" if race else "vh")
        cmd = ["go", "build", "-modfile=" + os.path.join(moddir, "go.mod"), "-tags", "verif"]
        if race:
            cmd.append("-race")
        cmd += ["-o", out, "."]
        env = dict(os.environ)
        env.update(GOENV)
        p = subprocess.run(cmd, cwd=hdir, env=env, stdout=subprocess.PIPE, stderr=subprocess.STDOUT, text=True)
        if p.returncode != 0:
            raise Machinery("harness build failed against %s:\n%s" % (REPO, p.stdout[-4000:]))
        self.legs.append({"leg": "build" + ("-race" if race else ""), "wall_s": round(time.time() - t, 2)})
        setattr(self, attr, out)
        return out

    def vh(self, args, timeout=1800, race=False, stdin=None, check=True):
        """Run the Go harness; returns stdout text."""
        exe = self.harness(race)
        env = dict(os.environ)
        env["VERIF_SEED"] = str(self.seed)
        env["VERIF_TIER"] = self.tier
        t = time.time()
        try:
            p = subprocess.run([exe] + [str(a) for a in args], cwd=self.work, env=env, input=stdin,
                               stdout=subprocess.PIPE, stderr=subprocess.PIPE, text=True, timeout=timeout)
        except subprocess.TimeoutExpired:
            raise Machinery("harness timed out: %s" % (args,))
        if check and p.returncode != 0:
            raise Machinery("harness %s exited %d:\n%s\n%s" % (args, p.returncode, p.stdout[-2000:], p.stderr[-4000:]))
        self.legs.append({"leg": "go " + " ".join(str(a) for a in args[:3]), "wall_s": round(time.time() - t, 2)})
        p.stderr_text = p.stderr
        return p

    # ---------------------------------------------------------------- TLC
    def _specdir(self, extra_files=()):
        self._n += 1
        d = os.path.join(self.work, "tlc%d" % self._n)
        os.makedirs(d)
        sdir = os.path.join(VERIF, "spec")
        for fn in os.listdir(sdir):
            if fn.endswith(".tla") or fn.endswith(".cfg"):
                shutil.copy(os.path.join(sdir, fn), d)
        for src, name in extra_files:
            dst = os.path.join(d, name)
            if os.path.abspath(src) != os.path.abspath(dst):
                try:
                    os.link(src, dst)
                except OSError:
                    shutil.copy(src, dst)
        return d

    def tlc(self, module, cfg=None, workers=1, heap="4g", timeout=1800, extra=(), files=(),
            dump=None, defines=None, allow_violation=False, simulate=None, maxset=None, coverage=False):
        """Run TLC on spec/<module>.tla with spec/<cfg>.cfg. Returns dict(out, generated, distinct, dir, dump, rc)."""
        d = self._specdir(files)
        cfg = cfg or module
        if defines:
            # constant overrides: written as an extra module MCgen_<n> extending <module>
            raise Machinery("defines unsupported")
        cmd = ["java", "-XX:+UseParallelGC", "-Xmx" + heap, "-Xss512m", "-cp", TLA_JARS, "tlc2.TLC",
               "-metadir", os.path.join(d, "meta"), "-workers", str(workers), "-config", cfg + ".cfg"]
        if maxset:
            cmd += ["-maxSetSize", str(maxset)]
        dump_path = None
        if dump == "dot":
            dump_path = os.path.join(d, "graph.dot")
            cmd += ["-dump", "dot,actionlabels", dump_path]
        elif dump == "states":
            dump_path = os.path.join(d, "states.dump")
            cmd += ["-dump", dump_path]
        if simulate:
            cmd += ["-simulate", simulate]
        if coverage:
            cmd += ["-coverage", "1"]
        cmd += list(extra) + [module + ".tla"]
        self.tlc_cmds.append(" ".join(cmd[cmd.index("tlc2.TLC"):]).replace(d + "/", ""))
        t = time.time()
        try:
            p = subprocess.run(cmd, cwd=d, stdout=subprocess.PIPE, stderr=subprocess.STDOUT, text=True, timeout=timeout)
        except subprocess.TimeoutExpired:
            raise Machinery("TLC timed out after %ss: %s %s" % (timeout, module, cfg))
        out = p.stdout
        wall = round(time.time() - t, 2)
        gen = dist = 0
        m = None
        for m in re.finditer(r"(\d+) states generated, (\d+) distinct states found", out):
            pass
        if m:
            gen, dist = int(m.group(1)), int(m.group(2))
        self.legs.append({"leg": "tlc %s/%s" % (module, cfg), "wall_s": wall, "generated": gen, "distinct": dist})
        ok = p.returncode == 0 and "Error:" not in out
        if not ok and not allow_violation:
            with open(os.path.join(VERIF, ".work", "last_tlc_failure.log"), "w") as f:
                f.write(out)
            raise Machinery("TLC failed on %s/%s (rc=%d):\n%s" % (module, cfg, p.returncode, _tail_errors(out)))
        if dump == "dot" and dump_path and not os.path.exists(dump_path) and os.path.exists(dump_path + ".dot"):
            dump_path = dump_path + ".dot"
        if dump == "states" and dump_path and not os.path.exists(dump_path) and os.path.exists(dump_path + ".dump"):
            dump_path = dump_path + ".dump"
        return {"out": out, "generated": gen, "distinct": dist, "dir": d, "dump": dump_path, "rc": p.returncode, "ok": ok}

    def model_check(self, module, cfg=None, count=True, **kw):
        """Leg M: exhaustive TLC run; a property failure of the *model* is a machinery failure.
        Thorough tier: run with -coverage 1; an action of the next-state relation that was never taken is vacuity (exit 2);
        the number of never-evaluated sub-expressions is recorded."""
        if self.tier == "thorough" and "coverage" not in kw and not os.environ.get("VERIF_NOCOVERAGE"):
            kw["coverage"] = True
        r = self.tlc(module, cfg, **kw)
        if kw.get("coverage"):
            acts = re.findall(r"^<(\w+) line \d+, col \d+ to line \d+, col \d+ of module (\w+)>: (\d+):(\d+)\s*$", r["out"], re.M)
            last = {}
            for name, mod, d, t in acts:          # the last report wins (TLC prints interim statistics too)
                last[(name, mod)] = (int(d), int(t))
            dead = sorted("%s!%s" % (m, n) for (n, m), (d, t) in last.items() if t == 0)
            zero_expr = len(re.findall(r"^\s+\|*line \d+, col \d+ to line \d+, col \d+ of module \w+: 0\s*$", r["out"], re.M))
            self.extra.setdefault("coverage", []).append({"model": "%s/%s" % (module, cfg or module), "actions": len(last),
                                                          "actions_never_taken": dead, "subexpressions_never_evaluated": zero_expr})
            if dead:
                raise Machinery("vacuity: action(s) never taken in %s/%s: %s" % (module, cfg or module, dead))
        if count:
            self.states += r["distinct"]
            self.transitions += r["generated"]
        log("  [M] %s/%s: %d states generated, %d distinct, ok" % (module, cfg or module, r["generated"], r["distinct"]))
        return r

    def validate_trace(self, module, trace_path, cfg=None, timeout=1800, heap="6g", maxset=None):
        """Leg T: TLC consumes trace.ndjson line by line. Returns (n_events, bad) with bad = [(line, reason)].
        The trace spec prints <<"VERDICT", consumed, bad>> once, when all lines were consumed."""
        n = 0
        with open(trace_path) as f:
            for _ in f:
                n += 1
        if n == 0:
            raise Machinery("empty trace %s" % trace_path)
        extra = []
        r = self.tlc(module, cfg, workers=1, heap=heap, timeout=timeout, files=[(trace_path, "trace.ndjson")],
                     extra=extra, maxset=maxset)
        ks = [x.start() for x in re.finditer(r'<<\s*"VERDICT"', r["out"])]
        k = ks[-1] if ks else -1
        if k < 0:
            raise Machinery("no VERDICT from %s:\n%s" % (module, r["out"][-3000:]))
        verdict = tlaval.parse_prefix(r["out"], k)
        consumed, bad = int(verdict[1]), verdict[2]
        if consumed != n:
            raise Machinery("trace spec %s consumed %d of %d events" % (module, consumed, n))
        if r["distinct"] != n + 1:
            raise Machinery("trace spec %s: %d distinct states for %d events (expected a linear chain)" % (module, r["distinct"], n))
        bad = [(int(b[0]), str(b[1])) for b in bad]
        log("  [T] %s: %d events consumed, %d rejected" % (module, n, len(bad)))
        return n, bad

    # ---------------------------------------------------------------- verdicts
    def write_replay(self, name, obj):
        d = os.path.join(VERIF, "replays", self.prop)
        os.makedirs(d, exist_ok=True)
        path = os.path.join(d, name + ".json")
        obj = dict(obj)
        obj.setdefault("property", self.prop)
        obj.setdefault("seed", self.seed)
        obj.setdefault("tier", self.tier)
        obj.setdefault("rerun", "cd /verif && bin/check %s --replay %s" % (self.prop, path))
        with open(path, "w") as f:
            json.dump(obj, f, indent=1, default=str)
        return path

    def violation(self, text, replay_obj, name=None):
        name = name or ("replayed%03d" if getattr(self, "replaying", None) else "v%03d") % (len(self.violations) + 1)
        if len(self.violations) >= 12:          # enough to look at; keep counting
            self.violations.append((text, self.violations[-1][1]))
            return self.violations[-1][1]
        path = self.write_replay(name, dict(replay_obj, what=text))
        self.violations.append((text, path))
        log("  !! %s" % text)
        return path

    def known_finding(self, kid, what):
        w, c = self.known_hits.get(kid, (what, 0))
        self.known_hits[kid] = (w, c + 1)

    def classify(self, klass, text, replay_obj):
        """A rejected event/transition: downgrade to KNOWN-FINDING only if KNOWN_FINDINGS.txt lists class `klass`
        for this property; otherwise a violation."""
        for k in self.known:
            if k["class"] == klass:
                self.known_finding(k["id"], k["what"])
                return None
        return self.violation(text, replay_obj)

    def sample(self, s):
        if len(self.samples) < 8:
            self.samples.append(s)

    def note(self, s):
        self.notes.append(s)
        log("  NOTE: " + s)

    def finish(self):
        ev = {
            "property_id": self.prop,
            "tier": self.tier,
            "seed": self.seed,
            "level": "model_checking",
            "coverage": dict({
                "states": self.states,
                "transitions": self.transitions,
                "traces_validated_against_impl": self.traces,
                "samples": self.samples,
                "exhaustive": self.exhaustive,
                "rule": self.rule,
                "legs": self.legs,
                "tlc_cmds": self.tlc_cmds,
                "known_findings_hit": {k: v[1] for k, v in self.known_hits.items()},
                "notes": self.notes[:50],
                "repo": REPO,
            }, **self.extra),
            "assumptions": self.assumptions,
            "wall_s": round(time.time() - self.t0, 2),
            "violations": len(self.violations),
        }
        # evidence describes quick / thorough runs against /repo itself; a run against another tree (VERIF_REPO: seeded changes,
        # mutants) and a --replay run leave their record in their work directory only
        evdir = os.path.join(VERIF, "evidence") if REPO == "/repo" and not getattr(self, "replaying", False) else self.work
        os.makedirs(evdir, exist_ok=True)
        with open(os.path.join(evdir, self.prop + ".json"), "w") as f:
            json.dump(ev, f, indent=1, default=str)
        for kid, (what, c) in sorted(self.known_hits.items()):
            log("KNOWN-FINDING: property=%s %s [%s, %d occurrence(s)]" % (self.prop, what, kid, c))
        for text, path in self.violations[:20]:
            log("VIOLATION property=%s replay=%s" % (self.prop, path))
        log("%s %s seed=%d: states=%d transitions=%d traces=%d violations=%d wall=%.1fs" % (
            self.prop, self.tier, self.seed, self.states, self.transitions, self.traces, len(self.violations),
            time.time() - self.t0))
        self.cleanup()
        return 1 if self.violations else 0

    def cleanup(self):
        if not os.environ.get("VERIF_KEEP"):
            shutil.rmtree(self.work, ignore_errors=True)


def _tail_errors(out):
    lines = out.splitlines()
    idx = [i for i, l in enumerate(lines) if l.startswith("Error:")]
    if idx:
        return "\n".join(lines[idx[0]:idx[0] + 60])
    return "\n".join(lines[-40:])


def load_known(prop):
    """KNOWN_FINDINGS.txt: 'known: property=C10 id=... class=... site=... what=...'; 'fixed:' lines suppress nothing."""
    out = []
    path = os.path.join(VERIF, "KNOWN_FINDINGS.txt")
    if not os.path.exists(path):
        return out
    with open(path) as f:
        for line in f:
            line = line.strip()
            if not line.startswith("known:"):
                continue
            m = re.match(r"known:\s+property=(\S+)\s+id=(\S+)\s+class=(\S+)\s+site=(\S+)\s+what=(.*)$", line)
            if not m:
                raise Machinery("malformed KNOWN_FINDINGS line: " + line)
            if m.group(1) == prop:
                out.append({"id": m.group(2), "class": m.group(3), "site": m.group(4), "what": m.group(5)})
    return out


def read_ndjson(path):
    out = []
    with open(path) as f:
        for line in f:
            if line.strip():
                out.append(json.loads(line))
    return out


def write_ndjson(path, events):
    with open(path, "w") as f:
        for e in events:
            f.write(json.dumps(e, separators=(",", ":")))
            f.write("\n")
