"""Parser for TLA+ values as printed by TLC (state dumps, dot labels, PrintT output).

tuple/sequence <<..>> -> list          set {..} -> TSet (a list subclass)
record [a |-> v]      -> dict          function (a :> b @@ c :> d) -> TFun (list of [k, v])
string                -> str           int -> int      TRUE/FALSE -> bool
model value / ident   -> Ident(str)    a..b -> TSet of ints
"""


class TSet(list):
    pass


class TFun(list):
    pass


class Ident(str):
    pass


class ParseError(Exception):
    pass


class _P:
    def __init__(self, s):
        self.s = s
        self.i = 0
        self.n = len(s)

    def ws(self):
        s, n = self.s, self.n
        while self.i < n and s[self.i] in " \t\r\n":
            self.i += 1

    def peek(self, k=1):
        return self.s[self.i:self.i + k]

    def expect(self, t):
        self.ws()
        if self.s.startswith(t, self.i):
            self.i += len(t)
        else:
            raise ParseError("expected %r at %d: %r" % (t, self.i, self.s[self.i:self.i + 40]))

    def value(self):
        self.ws()
        v = self.atom()
        # interval a..b
        self.ws()
        if self.peek(2) == ".." and isinstance(v, int):
            self.i += 2
            hi = self.value()
            return TSet(range(v, hi + 1))
        return v

    def atom(self):
        self.ws()
        s = self.s
        c = self.peek()
        if c == "":
            raise ParseError("unexpected end")
        if s.startswith("<<", self.i):
            self.i += 2
            out = []
            self.ws()
            if s.startswith(">>", self.i):
                self.i += 2
                return out
            while True:
                out.append(self.value())
                self.ws()
                if s.startswith(">>", self.i):
                    self.i += 2
                    return out
                self.expect(",")
        if c == "{":
            self.i += 1
            out = TSet()
            self.ws()
            if self.peek() == "}":
                self.i += 1
                return out
            while True:
                out.append(self.value())
                self.ws()
                if self.peek() == "}":
                    self.i += 1
                    return out
                self.expect(",")
        if c == "[":
            self.i += 1
            out = {}
            self.ws()
            if self.peek() == "]":
                self.i += 1
                return out
            while True:
                self.ws()
                j = self.i
                while self.i < self.n and (s[self.i].isalnum() or s[self.i] == "_"):
                    self.i += 1
                k = s[j:self.i]
                self.expect("|->")
                out[k] = self.value()
                self.ws()
                if self.peek() == "]":
                    self.i += 1
                    return out
                self.expect(",")
        if c == "(":
            self.i += 1
            out = TFun()
            while True:
                k = self.value()
                self.expect(":>")
                v = self.value()
                out.append([k, v])
                self.ws()
                if self.peek() == ")":
                    self.i += 1
                    return out
                self.expect("@@")
        if c == '"':
            self.i += 1
            buf = []
            while True:
                ch = s[self.i]
                if ch == "\\":
                    nx = s[self.i + 1]
                    buf.append({"n": "\n", "t": "\t", "r": "\r", "f": "\f"}.get(nx, nx))
                    self.i += 2
                elif ch == '"':
                    self.i += 1
                    return "".join(buf)
                else:
                    buf.append(ch)
                    self.i += 1
        if c == "-" or c.isdigit():
            j = self.i
            self.i += 1
            while self.i < self.n and s[self.i].isdigit():
                self.i += 1
            return int(s[j:self.i])
        if c.isalpha() or c == "_":
            j = self.i
            while self.i < self.n and (s[self.i].isalnum() or s[self.i] == "_"):
                self.i += 1
            w = s[j:self.i]
            if w == "TRUE":
                return True
            if w == "FALSE":
                return False
            return Ident(w)
        raise ParseError("unexpected %r at %d" % (c, self.i))


def parse(s):
    p = _P(s)
    v = p.value()
    p.ws()
    if p.i != p.n:
        raise ParseError("trailing input at %d: %r" % (p.i, s[p.i:p.i + 40]))
    return v


def parse_prefix(s, start=0):
    """Parse one value starting at s[start:], ignoring what follows."""
    p = _P(s)
    p.i = start
    return p.value()


def parse_state(text):
    """'/\\ a = v\n/\\ b = w' -> {a: v, b: w}. Also accepts a single 'a = v'."""
    p = _P(text)
    out = {}
    while True:
        p.ws()
        if p.i >= p.n:
            return out
        if p.s.startswith("/\\", p.i):
            p.i += 2
        p.ws()
        j = p.i
        while p.i < p.n and (p.s[p.i].isalnum() or p.s[p.i] == "_"):
            p.i += 1
        name = p.s[j:p.i]
        p.expect("=")
        out[name] = p.value()


def parse_dump(path):
    """TLC '-dump file' output -> list of state dicts."""
    states = []
    cur = []
    with open(path) as f:
        for line in f:
            if line.startswith("State "):
                if cur:
                    states.append(parse_state("".join(cur)))
                cur = []
            elif line.strip():
                cur.append(line)
    if cur:
        states.append(parse_state("".join(cur)))
    return states


def _unescape_dot(s):
    out = []
    i = 0
    while i < len(s):
        c = s[i]
        if c == "\\" and i + 1 < len(s):
            n = s[i + 1]
            if n == "n":
                out.append("\n")
            elif n == "\\":
                out.append("\\")
            elif n == '"':
                out.append('"')
            else:
                out.append("\\" + n)
            i += 2
        else:
            out.append(c)
            i += 1
    return "".join(out)


def parse_dot(path):
    """TLC '-dump dot,actionlabels' -> (nodes: id -> state dict, edges: [(src, dst, label)], init ids)."""
    import re
    nodes, edges, inits = {}, [], []
    node_re = re.compile(r'^(-?\d+) \[label="((?:[^"\\]|\\.)*)"(.*)\]\s*;?\s*$')
    edge_re = re.compile(r'^(-?\d+) -> (-?\d+) \[label="((?:[^"\\]|\\.)*)"')
    with open(path) as f:
        for line in f:
            m = edge_re.match(line)
            if m:
                edges.append((m.group(1), m.group(2), _unescape_dot(m.group(3))))
                continue
            m = node_re.match(line)
            if m:
                nid = m.group(1)
                if nid not in nodes:
                    nodes[nid] = parse_state(_unescape_dot(m.group(2)))
                if "style = filled" in m.group(3):
                    inits.append(nid)
    return nodes, edges, inits


def parse_action(label):
    """'Add(<<1, 2>>)' -> ('Add', [[1, 2]]);  'Step' -> ('Step', [])."""
    label = label.strip()
    k = label.find("(")
    if k < 0:
        return label, []
    name = label[:k]
    inner = label[k + 1:label.rindex(")")]
    p = _P(inner)
    args = []
    p.ws()
    if p.i >= p.n:
        return name, args
    while True:
        args.append(p.value())
        p.ws()
        if p.i >= p.n:
            return name, args
        p.expect(",")


def to_json(v):
    """Plain JSON-able form (sets -> sorted lists where sortable, functions -> list of pairs)."""
    if isinstance(v, TSet):
        xs = [to_json(x) for x in v]
        try:
            xs.sort()
        except TypeError:
            xs.sort(key=repr)
        return xs
    if isinstance(v, TFun):
        return [[to_json(k), to_json(x)] for k, x in v]
    if isinstance(v, list):
        return [to_json(x) for x in v]
    if isinstance(v, dict):
        return {k: to_json(x) for k, x in v.items()}
    if isinstance(v, Ident):
        return str(v)
    return v
