"""C01 - FASTA records survive write -> read unchanged, however lines are wrapped.
M: MC_Fasta machine (Machine = Denote on every input over 5 byte classes) and layout (every layout of every
   record list of the pool decodes to the list; writer model satisfies the contract)
R: the model's finished layouts (recs, text), concretised, are read by the real Reader
T: real Write/MarshalText/Reader events judged by Trace_Fasta with MaxLine = 80 (lengths to 70 001 / 4 MiB)."""
import json
import os
import random

import vlib
import codec


def run(ctx):
    rnd = random.Random(ctx.seed)
    ctx.rule = ("M: all inputs <= 6/8 bytes over {>,LF,CR,A,B}; all layouts (cut sets x terminators x final newline) of a pool of "
                "record lists; R: every finished layout of the emit model read by the real Reader; "
                "T: one session = one record list: write events + reads of own output, spec text, seeded layouts")
    ctx.assumptions += ["fmt/bytes/bufio are exercised, not modelled", "layout family per property text: LF/CRLF terminators, "
                        "blank lines after lines, final newline kept/dropped, any re-wrapping"]
    thorough = ctx.tier == "thorough"
    ctx.model_check("MC_Fasta", "MC_Fasta_machine9" if thorough else "MC_Fasta_machine6", workers=8)
    ctx.model_check("MC_Fasta", "MC_Fasta_layout_t" if thorough else "MC_Fasta_layout_q", workers=16 if thorough else 8,
                    heap="8g", timeout=3000)
    # leg R
    r = ctx.model_check("MC_Fasta", "MC_Fasta_layout_emit", workers=4, count=False)
    cases = codec.emitted_cases(r["out"])
    others = [b for b in range(256) if b not in (10, 13, 62)]
    amap = {65: rnd.choice(others), 66: rnd.choice(others)}
    if amap[65] == amap[66]:
        amap[66] = 66 if amap[65] != 66 else 67
    conc = lambda s: [amap.get(b, b) for b in s]
    cc = [{"recs": [{"name": conc(x["name"]), "seq": conc(x["seq"])} for x in c["recs"]], "text": conc(c["text"])} for c in cases]
    codec.replay_cases(ctx, "fasta-replay", cc, "fasta layout", lambda c: "recs=%s text=%s" % (c["recs"], bytes(c["text"])))
    vlib.log("  [R] %d finished layouts of the model read by the real Reader (A,B -> %s)" % (len(cc), [amap[65], amap[66]]))
    # leg T
    leg_T(ctx, 1500 if thorough else 60)
    ctx.exhaustive = True


def leg_T(ctx, sessions, only=None):
    tpath = os.path.join(ctx.work, "fasta_trace.ndjson")
    args = ["fasta-drive", tpath, sessions] + ([only] if only is not None else [])
    ctx.vh(args)
    codec.judge_trace(ctx, "Trace_Fasta", tpath, {"driver": "fasta-drive", "sessions": sessions}, maxset=100000000, heap="12g",
                      describe=lambda e: "%s/%s name=%s len(seq)=%d" % (e["op"], e["kind"], bytes(e["name"]), len(e["seq"])) if e["op"] == "write"
                      else "read/%s of %d bytes, want %d records, got %d items err=%s" % (e["kind"], len(e["bytes"]), len(e["want"]), len(e["items"]), e["err"]))


def replay(ctx, rp):
    if rp["leg"] == "R":
        codec.replay_cases(ctx, "fasta-replay", [rp["case"]], "fasta layout", lambda c: "replayed")
    else:
        leg_T(ctx, rp["sessions"], only=rp["sid"])
