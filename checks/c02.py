"""C02 - FASTQ records survive write -> read; malformed records are rejected.
M: MC_Fastq machine (line machine = denotation on every input over 5 byte classes) and corrupt (every record list of the
   pool round-trips; every single structural corruption is rejected at its record)
R: every valid and corrupted text of the emit model, with the model's item list, read by the real Reader
T: real Write/MarshalText/Reader events (reads to 70 001 bytes; thorough 1 MiB, 8 MiB; every (record, corruption kind))."""
import os
import random

import vlib
import codec


def run(ctx):
    rnd = random.Random(ctx.seed)
    thorough = ctx.tier == "thorough"
    ctx.rule = ("M: all inputs <= 6/8 bytes over {@,+,LF,CR,A}; record lists <= 2/3 from a pool x 8 corruption kinds x every record; "
                "R: every emitted (text, items) pair; T: one session = one record list, its writes, reads and corruptions")
    ctx.assumptions += ["bufio.Scanner is exercised, not modelled beyond ScanLines"]
    ctx.model_check("MC_Fastq", "MC_Fastq_machine9" if thorough else "MC_Fastq_machine6", workers=8)
    ctx.model_check("MC_Fastq", "MC_Fastq_corrupt_t" if thorough else "MC_Fastq_corrupt_q", workers=8)
    r = ctx.model_check("MC_Fastq", "MC_Fastq_corrupt_emit", workers=4, count=False)
    cases = codec.emitted_cases(r["out"])
    others = [b for b in range(256) if b not in (10, 13, 64, 43)]
    a = rnd.choice(others)
    conc = lambda s: [a if b == 65 else b for b in s]
    cc = []
    for c in cases:
        items = [{"k": it["k"], "name": conc(it.get("name", [])), "seq": conc(it.get("seq", [])), "quals": conc(it.get("quals", []))}
                 for it in c["items"]]
        cc.append({"text": conc(c["text"]), "items": items, "j": c["j"], "kind": c["kind"]})
    codec.replay_cases(ctx, "fastq-replay", cc, "fastq text", lambda c: "text=%s (corruption %s of record %d)" % (bytes(c["text"]), c["kind"], c["j"]))
    vlib.log("  [R] %d model texts (valid and corrupted) read by the real Reader (A -> %d)" % (len(cc), a))
    leg_T(ctx, 1000 if thorough else 40)
    ctx.exhaustive = True


def leg_T(ctx, sessions, only=None):
    tpath = os.path.join(ctx.work, "fastq_trace.ndjson")
    ctx.vh(["fastq-drive", tpath, sessions] + ([only] if only is not None else []))
    codec.judge_trace(ctx, "Trace_Fastq", tpath, {"driver": "fastq-drive", "sessions": sessions}, maxset=100000000, heap="10g",
                      describe=lambda e: ("write name=%s len=%d" % (bytes(e["name"]), len(e["seq"])) if e["op"] == "write" else
                                          "read/%s of %d bytes (%d records, corrupt record j=%d): %d items, kinds %s" % (
                                              e["kind"], len(e["bytes"]), len(e["recs"]), e["j"], len(e["items"]),
                                              "".join(i["k"][0] for i in e["items"][:40]))))


def replay(ctx, rp):
    if rp["leg"] == "R":
        codec.replay_cases(ctx, "fastq-replay", [rp["case"]], "fastq text", lambda c: "replayed")
    else:
        leg_T(ctx, rp["sessions"], only=rp["sid"])
