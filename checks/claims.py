"""What MANIFEST.json claims, per property (bin/mkmanifest turns this into MANIFEST.json)."""
T = "explicit TLA+ spec: exhaustive TLC model + replay of model behaviours into the Go code + TLC validation of traces recorded from the Go code"
CLAIMS = {
    "C15": {
        "text": "TLC explores the complete Add/Delete state graph of Trie.tla (implementation-shaped node set refines the property-level member set; Has/ForEach/Delete-return/JSON image agree) for alphabet 2 x length 3 (thorough: 2x4, 3x2); every transition of the dumped graph is executed on a real trie (also through a JSON clone) and compared with the model's successor state; seeded random long histories over 2-8 byte alphabets are recorded and validated event by event by Trace_Trie.",
        "ref": "DESIGN.md section 6 C15",
        "note": "Trusted: TLC, the harness projection (ForEach list, Has probes), encoding/json. Bounded: exhaustive only over the model's alphabet/length; beyond it random histories.",
        "technique": T,
    },
}
PENDING = {}
