"""What MANIFEST.json claims, per property (bin/mkmanifest turns this into MANIFEST.json)."""
T = "explicit TLA+ spec: exhaustive TLC model + replay of model behaviours into the Go code + TLC validation of traces recorded from the Go code"
CLAIMS = {
    "C15": {
        "text": "TLC explores the complete Add/Delete state graph of Trie.tla (implementation-shaped node set refines the property-level member set; Has/ForEach/Delete-return/JSON image agree) for alphabet 2 x length 3 (thorough: 2x4, 3x2); every transition of the dumped graph is executed on a real trie (also through a JSON clone) and compared with the model's successor state; seeded random long histories over 2-8 byte alphabets are recorded and validated event by event by Trace_Trie.",
        "ref": "DESIGN.md section 6 C15",
        "note": "Trusted: TLC, the harness projection (ForEach list, Has probes), encoding/json. Bounded: exhaustive only over the model's alphabet/length; beyond it random histories.",
        "technique": T,
    },
}
CLAIMS["C01"] = {
    "text": "TLC checks on Fasta.tla that the byte state machine of read() equals the line-based denotation on every input <= 6 (thorough 8) bytes over {>,LF,CR,A,B}, and that every layout (all cut sets x 1-2 LF/CRLF terminators per line x final newline kept/dropped) of every record list of a pool decodes to the list; the writer model satisfies the property-level contract. Every finished layout of the model is read by the real Reader (leg R). Real Write/MarshalText/Reader events with the real width 80, all byte contents and lengths 0..70 001 (thorough 4 MiB) are judged by Trace_Fasta (writer contract, Write = MarshalText, spec reader decodes the real writer's text, real reader decodes own output, spec text and seeded layouts).",
    "ref": "DESIGN.md section 6 C01",
    "note": "Trusted: TLC, fmt/bufio/bytes (exercised, not modelled), the projection of records to byte arrays. Exhaustive only within the model's byte classes and lengths; seeded beyond.",
    "technique": T,
}
CLAIMS["C02"] = {
    "text": "TLC checks on Fastq.tla that the four-Scan line machine equals the group-of-four denotation on every input <= 6 (8) bytes over {@,+,LF,CR,A}, that every record list of a pool round-trips through the exact four-line writer, and that each of 8 kinds of single structural corruption of each record yields the preceding records, then an error, and no fabricated record. Every model text (valid and corrupted) with the model's item list is read by the real Reader. Real Write/MarshalText/Reader events (reads to 70 001 bytes, thorough 1 MiB and 8 MiB; every record x corruption kind incl. cuts inside a line) are judged by Trace_Fastq; the driver's corruptions are certified by the specification before the code is judged.",
    "ref": "DESIGN.md section 6 C02",
    "note": "Trusted: TLC, bufio.Scanner (exercised), projection. Exhaustive within the model's classes/lengths; seeded beyond.",
    "technique": T,
}
CLAIMS["C03"] = {
    "text": "SamFlag.tla: 4096 states x 24 setter actions, action property SetterExact; every one of the 98 304 transitions is executed on the real sam.Flag (setter result and all 12 accessors against the SAM specification's bit table written in the module). Sam.tla: write -> split on TAB -> ParseLine round trip for the baseline record with <= 2 fields replaced from pools (quote-leading, '@', ':', empty, negative ints) and <= 2 (3) typed tags; files of headers, records and 8 kinds of malformed lines with LF/CRLF/blank lines (headers verbatim, per-line errors, Reader = ReaderHeader minus headers); byte-level line loop = line denotation. The model's lines and files are read by the real readers. Seeded real records (all field bytes but TAB/CR/LF, extreme ints, 0-8 tags of all five types incl. NaN/Inf/-0/subnormal) and files are judged by Trace_Sam (one line, field count, tags sorted, spec reader decodes the real writer's line, real readers agree with the spec's denotation, round trip by float atoms).",
    "ref": "DESIGN.md section 6 C03",
    "note": "Trusted: TLC, strconv (ints as canonical text, floats as atoms plus a table of tokens ParseFloat accepts), projection. All tag keys of a record have one length (two in the SAM specification; 1, 3, 4 are exercised too), so that 'sorted' is unambiguous.",
    "technique": T,
}
CLAIMS["C04"] = {
    "text": "Bed.tla: for n in 0..14 and the baseline record with <= 2 fields replaced from pools (quotes, '#', commas, empty, negative ints, RGB, consistent and inconsistent block lists) TLC checks Refuse (n outside 3..12), LineContract (one line, exactly n TAB-separated fields) and RoundTrip (the line parses back to the record truncated to n fields); files of records with 3 and 4 fields, comments and malformed lines obey the same-count / first-error rule. The model's lines and files are read by the real Reader. Seeded real records for every n (quote families, extreme ints, all RGB bytes, block lists), files of 1-20 records sharing n with comments/blank lines/CRLF, and writes with n outside 3..12 are judged by Trace_Bed.",
    "ref": "DESIGN.md section 6 C04",
    "note": "Trusted: TLC, strconv (ints as canonical text; table of tokens ParseUint(tok,0,8) accepts), projection. Domain read conservatively: a block count written without both lists is 0.",
    "technique": T,
}
CLAIMS["C05"] = {
    "text": "Newick.tla (writer, byte-level tokenizer, five-state parser over a node stack): TLC checks the round trip for every ordered tree with <= 3 (thorough 4) nodes over 8-9 names (empty, plain, space, '_', quotes, '(,', ':;', LF, digit) x {no distance, distance}, alone or followed by a second tree, with 5 separators; every name <= 3 (4) bytes over 13 structural classes is inverted by unquoting and round-trips in a tree; each written tree is condensed; the machine is total on all inputs <= 5 (7) bytes over 9 classes. Every emitted (trees, text) pair is read by the real Reader and re-written/re-read by the real code. Seeded trees to 10^4 nodes and chains, names over all bytes, distances incl. NaN/Inf/subnormal/-0, streams of 1-10 trees with random separators are judged by Trace_Newick (Write = MarshalText, condensed, real round trip by atoms, spec reader on the real writer's text).",
    "ref": "DESIGN.md section 6 C05",
    "note": "Trusted: TLC, strconv/fmt float text (distances are atoms), projection (own pre-order walk).",
    "technique": T,
}
CLAIMS["C06"] = {
    "text": "Stream.tla composes an io.Reader that cuts the input into arbitrary Read results (incl. data together with EOF), bufio.Reader's fill/ReadByte with its pending error, the byte machine of fasta.read() and the iterator layers; TLC explores every schedule of every input <= 5 (thorough 7) bytes and checks SchedFree (items = denotation, whatever the schedule). StreamLines.tla does the same for the buffer-level models of bufio.Scanner (composed with the FASTQ four-line machine) and bufio.ReadString (SAM, BED), inputs <= 5 (thorough 8 / 7) bytes. Sessions recorded from all six readers (FASTA, FASTQ, SAM Reader and ReaderHeader, BED, Newick) on well-formed inputs (incl. two larger than bufio's buffer), mutated and random inputs under 13 read schedules, CRLF conversion, File on a plain, a gzip and a zstd file and on an unopenable path are judged by Trace_Cross against the in-memory reference run; so is every text the exhaustive codec models emit (17 000 valid and corrupted FASTQ / SAM / BED texts in the quick tier, FASTA and Newick too in the thorough tier), decoded whole, byte by byte and in chunks of 2, 3 and 7. LineLoop.tla composes the same environment with bufio's ReadString at buffer level, the loops of sam.ReaderHeader / sam.Reader / bed's reader and the real line grammars (Sam!LineItem, Bed!ParseLine) over pools of real files (headers, comments, blank lines, CRLF, a malformed line, an unterminated last line): for every schedule, fault placement and stop position the delivered items are exactly Take(Full(data, fault), stop) (invariant Exact), Full obeys the fault law, TLC's deadlock check shows that an unfinished run can always step; every (input, fault, stop) -> items of the model is executed on the real readers under 4 read schedules (lineloop-replay).",
    "ref": "DESIGN.md section 6 C06",
    "note": "Trusted: TLC, gzip/aio (exercised), interning of items (injective projection). The clause 'well-formed input decodes to its denotation' is discharged per format in C01-C05.",
    "technique": T,
}
CLAIMS["C07"] = {
    "text": "Stream.tla: TLC explores the byte-level FASTA reader over every read schedule x every fault offset x {once, forever} for all inputs <= 5 (7) bytes and checks FaultOK (only leading records of the fault-free decode, then exactly one error, last); a variant that hands out the partial record is refuted. StreamLines.tla: buffer-level models of bufio.Scanner and ReadString under every schedule and fault deliver exactly what MC_Fault assumes (LemmaScanner, LemmaReadString), and the FASTQ reader on top satisfies FaultOK (a reader without the length check is refuted: the partial last token becomes a record). MC_Fault: the error paths of the FASTQ (Scanner), SAM and BED (ReadString) and Newick (ReadByte) readers, as functions of the delivered prefix, satisfy FaultOK for every offset of every input of small well-formed corpora; the unrepaired SAM behaviour is refuted. Real runs: every reader x well-formed inputs (<= 400 bytes, thorough 5000) x every byte offset x {once, forever} x {1-byte, 4096-byte reads} with a consumer that never stops (unbounded iteration detected by a cap), and every format's Write x every offset at which the destination starts failing, judged by Trace_Cross. LineLoop.tla composes the same environment with bufio's ReadString at buffer level, the loops of sam.ReaderHeader / sam.Reader / bed's reader and the real line grammars (Sam!LineItem, Bed!ParseLine) over pools of real files (headers, comments, blank lines, CRLF, a malformed line, an unterminated last line): for every schedule, fault placement and stop position the delivered items are exactly Take(Full(data, fault), stop) (invariant Exact), Full obeys the fault law, TLC's deadlock check shows that an unfinished run can always step; every (input, fault, stop) -> items of the model is executed on the real readers under 4 read schedules (lineloop-replay).",
    "ref": "DESIGN.md section 6 C07",
    "note": "Trusted: TLC; the stdlib semantics written down in MC_Fault are assumptions exercised by every real run.",
    "technique": T,
}
CLAIMS["C11"] = {
    "text": "The reader machines of Fasta/Fastq/Newick/Sam/Bed.tla are total and equal their denotations on every input of the bounded domains (TLC would raise an evaluation error on an unhandled case); MC_Sam file checks per-line error isolation. Real decoders (all six readers and the NCBI matrix reader) are run on every string <= 3 bytes over each format's class alphabet, seeded noise and grammar-aware mutations of valid files: Trace_Total rejects a panic, non-termination (watchdog / item cap), an item that is neither record nor error, and - for every accepted record whose text fields are free of the format's delimiters - a write -> read that does not reproduce the record. Every record line of seeded valid SAM files x 15 kinds of single-line corruption x both reader modes is judged by Trace_Sam (the specification certifies the corruption, then requires one error at that position and all other items unchanged).",
    "ref": "DESIGN.md section 6 C11",
    "note": "Trusted: TLC, strconv token tables, projection. Go's native fuzzing engine is not used as a generator (seeded generators only).",
    "technique": T,
}
CLAIMS["C16"] = {
    "text": "TLC explores the sweep of NewIndex event by event for every pair of start/end lists of <= 3 (thorough <= 4, and <= 3 over 0..5) coordinates over 0..3, including empty, inverted, duplicate and nested intervals and different lengths, and checks that the implementation-shaped At equals the property-level Covering for every query -1..4 (SweepInv, AtIsCovering, Ascending, MismatchPanics; the unrepaired sweep is refuted). Every terminal model state is executed on the real index under 5 strictly monotone coordinate maps incl. MinInt/MaxInt neighbourhoods, with overwrite-and-requery. Seeded sets of <= 200 intervals with queries at every endpoint +-1 and slice mutations, and 8 concurrent readers under the race detector, are validated event by event by Trace_Regions.",
    "ref": "DESIGN.md section 6 C16",
    "note": "Trusted: TLC, rank projection of coordinates, the Go race detector as observer of writes by At. Exhaustive only in the model's scope; random beyond.",
    "technique": T,
}
CLAIMS["C18"] = {
    "text": "MC_Iter: the push-iterator protocol (producer, three forwarding layers, consumer stopping anywhere) for all item sequences <= 4: NoCallbackAfterStop, PrefixOfFullRun; a layer that drops the consumer's false is refuted. Stream.tla StopOK: the FASTA reader stopped at every item under every schedule. Real runs: all six Readers and Files (plain, gzip, missing path) on valid and invalid inputs, PreOrder, PostOrder, trie.ForEach, CanonicalSubsequences, each stopped at every position 1..N+1 by calling the iterator function directly (callbacks after false are counted) and, for traversals and k-mers, through range+break; Trace_Cross checks prefix-of-full-run (distinct members for ForEach), no callback after stop, no panic, and error-item-last for FASTA/FASTQ/BED/Newick. LineLoop.tla composes the same environment with bufio's ReadString at buffer level, the loops of sam.ReaderHeader / sam.Reader / bed's reader and the real line grammars (Sam!LineItem, Bed!ParseLine) over pools of real files (headers, comments, blank lines, CRLF, a malformed line, an unterminated last line): for every schedule, fault placement and stop position the delivered items are exactly Take(Full(data, fault), stop) (invariant Exact), Full obeys the fault law, TLC's deadlock check shows that an unfinished run can always step; every (input, fault, stop) -> items of the model is executed on the real readers under 4 read schedules (lineloop-replay).",
    "ref": "DESIGN.md section 6 C18",
    "note": "Trusted: TLC, interning of items. Iterations of more than 60 items are stopped at a sparse set of positions (first / last / around powers of two and multiples of 10000 / random) and observed through their length, their last 8 items and a harness-side comparison of the items before those.",
    "technique": T,
}
CLAIMS["C19"] = {
    "text": "TLC explores the (node, child-index) stack machine of traverse for every ordered tree with <= 7 (thorough <= 9) nodes in both modes (StackIsPath, visited prefix/equals recursive Pre/Post, tree unchanged; the statement's descendant/sibling clauses agree with Pre/Post; the witness equations accept exactly Pre/Post among all permutations for trees <= 6/7 nodes). Every shape is built from real newick.Node values and both iterators are compared with the model's sequences. Seeded random trees up to 10^4 nodes and chains/caterpillars/brooms of 10^5 (thorough 10^6) nodes are validated by Trace_Traverse (witness form; recursive definitions too where n*depth <= 10^7), incl. tree encoding before = after.",
    "ref": "DESIGN.md section 6 C19",
    "note": "Trusted: TLC, pointer->id projection. Witness form = recursive order is model-checked for small trees and holds by induction beyond. Early stop is C18.",
    "technique": T,
}
CLAIMS["C12"] = {
    "text": "TLC checks on every string <= 4 (thorough <= 6) over aAcCgGtTnN + a foreign byte that the transcribed loops of ReverseComplement and CanonicalSubsequences equal the property-level definitions, and Involution, AppendOnly, CasePreserving, Count, StrandSymmetry; every recorded real call (all strings <= 5/6, every k, dst prefixes with/without spare capacity, all 256 bytes alone and embedded, seeded long inputs incl. ties) is judged by Trace_Seq, incl. src/dst unchanged, the function applied twice, the pair form.",
    "ref": "DESIGN.md section 6 C12",
    "note": "Bounded: exhaustive to the stated lengths, random beyond; 'untouched' = before/after equality; aliased dst/src not exercised; out-of-domain inputs to CanonicalSubsequences not judged.",
    "technique": T,
}
CLAIMS["C13"] = {
    "text": "TLC checks DNATo2Bit's transcription (di, shift, |=) and the dnaFrom2bit table against arithmetic Pack/Unpack for all DNA strings <= 5 (thorough <= 7) and all packed strings <= 2 (thorough <= 3) bytes, plus PackUnpack, UnpackPack, MsbFirst, NtoiIton; recorded real calls (all strings <= 5/7, 256 bytes at every position mod 4, all 256 + 65 536 packed strings with repack, all 256 Ntoi, dst prefixes, long inputs) are judged by Trace_Seq.",
    "ref": "DESIGN.md section 6 C13",
    "note": "Iton outside 0..3 not judged; exhaustive only to the stated lengths.",
    "technique": T,
}
CLAIMS["C14"] = {
    "text": "TLC checks the transcribed codonToAmino literal, case folding, map-miss panic, repaired frame slicing and aminoToName keys against the NCBI table-1 string in TCAG order (all 64 codons x 8 case patterns, strings <= 4/6 over 10 bytes, <= 7/9 over 4), ConcatLaw, FrameLaw, NameDomain; recorded real calls (512 spellings, all strings <= 4/6, 256 bytes per codon position, concatenation triples, frames for every length 0..40/300 and long, all 256 AminoName bytes) are judged by Trace_Amino.",
    "ref": "DESIGN.md section 6 C14",
    "note": "The NCBI string in Amino.tla is trusted (degeneracy counts and stops asserted); AminoName texts only checked non-empty; frames with non-ACGT bases not judged.",
    "technique": T,
}
CLAIMS["C08"] = {
    "text": "TLC checks on every pair <= 3 (thorough <= 4) over 2 letters x a parametric integer matrix family (match, mismatch incl. asymmetric, gap, gap-open, Levenshtein) that the transcription of global.go/local.go (fill, decideOnStep, traceback, offset conversion) returns valid steps whose documented score equals the returned score, and that NoPositive implies no steps and score 0. About 19 000 (thorough ~113 000) recorded calls of the real Global/Local are validated event by event by Trace_Align: exhaustive small pairs x seeded symmetric/asymmetric matrices with open 0 and != 0, random pairs <= 60/200 over 4 and 23 letters, all shipped matrices, Levenshtein and empty inputs. Judged: validity, re-computed score, inputs unchanged, no panic.",
    "ref": "DESIGN.md section 6 C08",
    "note": "Trusted: TLC, the projection of float64 scores to ints (integer matrices). Local only inside its domain (no positive gap scores or gap-open). Steps themselves are never compared.",
    "technique": T,
}
CLAIMS["C09"] = {
    "text": "Gotoh's three-state optimum in Align.tla is model-checked against brute-force enumeration of all alignments, global and over all substring pairs, up to length 3/4. With open = 0 the code's transcription equals it, and Levenshtein gives minus the edit distance. Recorded real calls with zero gap-open (seeded, all six shipped matrices, Levenshtein) must score exactly Opt/LocalOpt computed by the spec; swapped arguments on symmetric matrices give equal scores; all 6x576 shipped entries and all 65 536 Levenshtein entries are read from the package variables and checked by CompleteOver/Symmetric/ZeroOpen/IsLevenshtein; protein pairs never panic. The statement puts no sign condition on gap scores: MC_Align_C09_pos checks the same for per-character gap scores in {-1, 0, 1, 2} (Gotoh = brute force, the code's recurrence optimal for Global and Local), and the driver records Local on its any-gap tables, complete 256 x 256 matrices other than Levenshtein, matrices in other units (x 1000003, x 2^-40, x 2^20), sequences holding every byte value 0..254, and flank pairs up to 2 100 + core judged by a written-down witness alignment.",
    "ref": "DESIGN.md section 6 C09",
    "note": "The alphabet of the shipped matrices is taken as the 23 letters ARNDCQEGHILKMFPSTWYVBZX plus Gap. Optimality beyond the model's scope rests on the spec's Gotoh. Byte 255 inside a sequence is outside the domain (it is the gap symbol; Levenshtein itself conflates the two).",
    "technique": T,
}
CLAIMS["C10"] = {
    "text": "AffineOptimal is refuted by TLC on the model: the set Bad of (a, b, matrix) on which the single-table recurrence is below the optimum (332 quick / 8 496 thorough cases) is enumerated from the state dump and every element, plus a complement sample, is executed on the real aligners. Recorded real calls with open != 0 are judged against the spec's optimum. The genuine defect D7 is a known finding: a sub-optimal result is reported as KNOWN-FINDING only when the trace specification's predicate KF_SingleStateAffine holds (score = the spec's transcription of the current single-table algorithm, below the optimum, all C08 predicates hold); any other sub-optimal or super-optimal score is a VIOLATION.",
    "ref": "DESIGN.md section 6 C10, section 7 D7",
    "note": "Known finding D7 (KNOWN_FINDINGS.txt); tie-breaking changes of decideOnStep move the failing inputs and are therefore reported under C10.",
    "technique": T,
}
CLAIMS["C17"] = {
    "text": "TLC explores every push order of every multiset (<= 5 of 6 values, n <= 3; thorough <= 7 of 7, n <= 4) of the bounded min-hash (OrderFree, Incremental, TailLaw), every pair of value sets for the transcribed merge walk of minhash.intersect against |Bottom_n(A u B) n A n B| / n on full sketches plus the fixed-point distance laws, and every short sequence pair for the CanonicalSubsequences index arithmetic; seeded sessions on the real mash.Sequences/Add/Distance/FromJaccard (strand, case, order, regrouping, Add-vs-batch, smaller-n variants; distances; Jaccard grids) are validated event by event by Trace_Mash, with murmur3 applied by the harness to both strands and rank-projected.",
    "ref": "DESIGN.md section 6 C17",
    "note": "Trusted: murmur3 (uninterpreted, injective), the rank projection and round(x*10^8). ln is checked against generated tables (fractions with denominator <= 32 and 2^-p, p <= 14; tolerance 1e-8); elsewhere range, symmetry, identity, monotonicity and table brackets. Distance is judged only for two full sketches of equal size; sequences over ACGT/acgt.",
    "technique": T,
}
CLAIMS["C20"] = {
    "text": "TLC checks the transcription of ReadNCBI against the property-level reading on every text <= 6 (thorough 8) bytes over 7 byte classes and on all tables <= 2x2 (thorough 3x3) over {A, C, *} x layouts x single-token corruptions (LayoutFree, StarIsGap, CorruptRejected), and Symmetrical's loop in every map iteration order plus the GoString order on all partial matrices over 2 (thorough 3) letters; seeded tables, layouts and corruptions, Symmetrical on partial matrices with and without conflicts (receiver observed before and after), and GoString re-evaluated with go/parser and go/constant (including the genncbi flow and shipped matrices) are validated by Trace_Smtext and Trace_Matrix.",
    "ref": "DESIGN.md section 6 C20",
    "note": "Trusted: strconv.ParseFloat per written token, go/parser and go/constant as the compiler's constant evaluation. Domain: '#' only in column 0 of comment lines, no blanks-only lines, printable ASCII labels distinct per side, finite scores, lines under 64 KiB.",
    "technique": T,
}
PENDING = {}
