"""What MANIFEST.json claims, per property (bin/mkmanifest turns this into MANIFEST.json)."""
T = "explicit TLA+ spec: exhaustive TLC model + replay of model behaviours into the Go code + TLC validation of traces recorded from the Go code"
CLAIMS = {
    "C15": {
        "text": "TLC explores the complete Add/Delete state graph of Trie.tla (implementation-shaped node set refines the property-level member set; Has/ForEach/Delete-return/JSON image agree) for alphabet 2 x length 3 (thorough: 2x4, 3x2); every transition of the dumped graph is executed on a real trie (also through a JSON clone) and compared with the model's successor state; seeded random long histories over 2-8 byte alphabets are recorded and validated event by event by Trace_Trie.",
        "ref": "DESIGN.md section 6 C15",
        "note": "Trusted: TLC, the harness projection (ForEach list, Has probes), encoding/json. Bounded: exhaustive only over the model's alphabet/length; beyond it random histories.",
        "technique": T,
    },
}
CLAIMS["C01"] = {
    "text": "TLC checks on Fasta.tla that the byte state machine of read() equals the line-based denotation on every input <= 6 (thorough 8) bytes over {>,LF,CR,A,B}, and that every layout (all cut sets x 1-2 LF/CRLF terminators per line x final newline kept/dropped) of every record list of a pool decodes to the list; the writer model satisfies the property-level contract. Every finished layout of the model is read by the real Reader (leg R). Real Write/MarshalText/Reader events with the real width 80, all byte contents and lengths 0..70 001 (thorough 4 MiB) are judged by Trace_Fasta (writer contract, Write = MarshalText, spec reader decodes the real writer's text, real reader decodes own output, spec text and seeded layouts).",
    "ref": "DESIGN.md section 6 C01",
    "note": "Trusted: TLC, fmt/bufio/bytes (exercised, not modelled), the projection of records to byte arrays. Exhaustive only within the model's byte classes and lengths; seeded beyond.",
    "technique": T,
}
CLAIMS["C02"] = {
    "text": "TLC checks on Fastq.tla that the four-Scan line machine equals the group-of-four denotation on every input <= 6 (8) bytes over {@,+,LF,CR,A}, that every record list of a pool round-trips through the exact four-line writer, and that each of 8 kinds of single structural corruption of each record yields the preceding records, then an error, and no fabricated record. Every model text (valid and corrupted) with the model's item list is read by the real Reader. Real Write/MarshalText/Reader events (reads to 70 001 bytes, thorough 1 MiB and 8 MiB; every record x corruption kind incl. cuts inside a line) are judged by Trace_Fastq; the driver's corruptions are certified by the specification before the code is judged.",
    "ref": "DESIGN.md section 6 C02",
    "note": "Trusted: TLC, bufio.Scanner (exercised), projection. Exhaustive within the model's classes/lengths; seeded beyond.",
    "technique": T,
}
PENDING = {}
