"""What MANIFEST.json claims, per property (bin/mkmanifest turns this into MANIFEST.json)."""
T = "explicit TLA+ spec: exhaustive TLC model + replay of model behaviours into the Go code + TLC validation of traces recorded from the Go code"
CLAIMS = {
    "C15": {
        "text": "TLC explores the complete Add/Delete state graph of Trie.tla (implementation-shaped node set refines the property-level member set; Has/ForEach/Delete-return/JSON image agree) for alphabet 2 x length 3 (thorough: 2x4, 3x2); every transition of the dumped graph is executed on a real trie (also through a JSON clone) and compared with the model's successor state; seeded random long histories over 2-8 byte alphabets are recorded and validated event by event by Trace_Trie.",
        "ref": "DESIGN.md section 6 C15",
        "note": "Trusted: TLC, the harness projection (ForEach list, Has probes), encoding/json. Bounded: exhaustive only over the model's alphabet/length; beyond it random histories.",
        "technique": T,
    },
}
CLAIMS["C01"] = {
    "text": "TLC checks on Fasta.tla that the byte state machine of read() equals the line-based denotation on every input <= 6 (thorough 8) bytes over {>,LF,CR,A,B}, and that every layout (all cut sets x 1-2 LF/CRLF terminators per line x final newline kept/dropped) of every record list of a pool decodes to the list; the writer model satisfies the property-level contract. Every finished layout of the model is read by the real Reader (leg R). Real Write/MarshalText/Reader events with the real width 80, all byte contents and lengths 0..70 001 (thorough 4 MiB) are judged by Trace_Fasta (writer contract, Write = MarshalText, spec reader decodes the real writer's text, real reader decodes own output, spec text and seeded layouts).",
    "ref": "DESIGN.md section 6 C01",
    "note": "Trusted: TLC, fmt/bufio/bytes (exercised, not modelled), the projection of records to byte arrays. Exhaustive only within the model's byte classes and lengths; seeded beyond.",
    "technique": T,
}
CLAIMS["C02"] = {
    "text": "TLC checks on Fastq.tla that the four-Scan line machine equals the group-of-four denotation on every input <= 6 (8) bytes over {@,+,LF,CR,A}, that every record list of a pool round-trips through the exact four-line writer, and that each of 8 kinds of single structural corruption of each record yields the preceding records, then an error, and no fabricated record. Every model text (valid and corrupted) with the model's item list is read by the real Reader. Real Write/MarshalText/Reader events (reads to 70 001 bytes, thorough 1 MiB and 8 MiB; every record x corruption kind incl. cuts inside a line) are judged by Trace_Fastq; the driver's corruptions are certified by the specification before the code is judged.",
    "ref": "DESIGN.md section 6 C02",
    "note": "Trusted: TLC, bufio.Scanner (exercised), projection. Exhaustive within the model's classes/lengths; seeded beyond.",
    "technique": T,
}
CLAIMS["C03"] = {
    "text": "SamFlag.tla: 4096 states x 24 setter actions, action property SetterExact; every one of the 98 304 transitions is executed on the real sam.Flag (setter result and all 12 accessors against the SAM specification's bit table written in the module). Sam.tla: write -> split on TAB -> ParseLine round trip for the baseline record with <= 2 fields replaced from pools (quote-leading, '@', ':', empty, negative ints) and <= 2 (3) typed tags; files of headers, records and 8 kinds of malformed lines with LF/CRLF/blank lines (headers verbatim, per-line errors, Reader = ReaderHeader minus headers); byte-level line loop = line denotation. The model's lines and files are read by the real readers. Seeded real records (all field bytes but TAB/CR/LF, extreme ints, 0-8 tags of all five types incl. NaN/Inf/-0/subnormal) and files are judged by Trace_Sam (one line, field count, tags sorted, spec reader decodes the real writer's line, real readers agree with the spec's denotation, round trip by float atoms).",
    "ref": "DESIGN.md section 6 C03",
    "note": "Trusted: TLC, strconv (ints as canonical text, floats as atoms plus a table of tokens ParseFloat accepts), projection. Tag keys are two characters.",
    "technique": T,
}
CLAIMS["C04"] = {
    "text": "Bed.tla: for n in 0..14 and the baseline record with <= 2 fields replaced from pools (quotes, '#', commas, empty, negative ints, RGB, consistent and inconsistent block lists) TLC checks Refuse (n outside 3..12), LineContract (one line, exactly n TAB-separated fields) and RoundTrip (the line parses back to the record truncated to n fields); files of records with 3 and 4 fields, comments and malformed lines obey the same-count / first-error rule. The model's lines and files are read by the real Reader. Seeded real records for every n (quote families, extreme ints, all RGB bytes, block lists), files of 1-20 records sharing n with comments/blank lines/CRLF, and writes with n outside 3..12 are judged by Trace_Bed.",
    "ref": "DESIGN.md section 6 C04",
    "note": "Trusted: TLC, strconv (ints as canonical text; table of tokens ParseUint(tok,0,8) accepts), projection. Domain read conservatively: a block count written without both lists is 0.",
    "technique": T,
}
CLAIMS["C05"] = {
    "text": "Newick.tla (writer, byte-level tokenizer, five-state parser over a node stack): TLC checks the round trip for every ordered tree with <= 3 (thorough 4) nodes over 8-9 names (empty, plain, space, '_', quotes, '(,', ':;', LF, digit) x {no distance, distance}, alone or followed by a second tree, with 5 separators; every name <= 3 (4) bytes over 13 structural classes is inverted by unquoting and round-trips in a tree; each written tree is condensed; the machine is total on all inputs <= 5 (7) bytes over 9 classes. Every emitted (trees, text) pair is read by the real Reader and re-written/re-read by the real code. Seeded trees to 10^4 nodes and chains, names over all bytes, distances incl. NaN/Inf/subnormal/-0, streams of 1-10 trees with random separators are judged by Trace_Newick (Write = MarshalText, condensed, real round trip by atoms, spec reader on the real writer's text).",
    "ref": "DESIGN.md section 6 C05",
    "note": "Trusted: TLC, strconv/fmt float text (distances are atoms), projection (own pre-order walk).",
    "technique": T,
}
PENDING = {}
