"""C03 - SAM alignments, typed tags, headers and flag bits survive write -> read.
M: MC_Sam record / file / lines; MC_SamFlag (4096 states x 24 setter actions, SetterExact)
R: all 98 304 flag transitions on the real sam.Flag (setter result + all 12 accessors); the model's record lines and
   files read by the real ReaderHeader and Reader
T: seeded records (all field bytes but TAB/CR/LF incl. quote-leading, extreme ints, 0-8 typed tags incl. NaN/Inf/-0), files of
   0-5 headers + 0-20 records, LF and CRLF; Trace_Sam."""
import json
import os
import random

import tlaval
import vlib
import codec


def flag_leg(ctx):
    r = ctx.model_check("SamFlag", "MC_SamFlag", workers=4, dump="dot")
    nodes, edges, inits = tlaval.parse_dot(r["dump"])
    E = []
    for s, d, label in edges:
        name, args = tlaval.parse_action(label)
        if name != "Set":
            raise vlib.Machinery("unexpected flag action " + label)
        E.append({"f": nodes[s]["f"], "name": args[0], "v": bool(args[1]), "f2": nodes[d]["f"], "on2": sorted(nodes[d]["on"])})
    if len(E) != 4096 * 24:
        raise vlib.Machinery("expected 98304 flag transitions, got %d" % len(E))
    codec.replay_cases(ctx, "samflag-replay", E, "sam.Flag", lambda c: "flag %d Set%s(%s)" % (c["f"], c["name"], c["v"]))
    vlib.log("  [R] %d flag transitions (4096 values x 12 setters x {true,false}, 12 accessors each) on the real sam.Flag" % len(E))


def run(ctx):
    thorough = ctx.tier == "thorough"
    ctx.rule = ("M: baseline record with <= 2 fields replaced from the pools and <= 2/3 tags; files <= 2/3 lines from 12 line kinds x 4 terminators; "
                "flag graph complete; R: every flag transition, every emitted record line and file; T: one session = one file")
    ctx.assumptions += ["strconv int/float text trusted (ints travel as decimal text, floats as atoms + a table of tokens ParseFloat accepts)",
                        "tag keys: two characters (with equal-length keys 'sorted' is unambiguous)"]
    flag_leg(ctx)
    ctx.model_check("MC_Sam", "MC_Sam_record_t" if thorough else "MC_Sam_record_q", workers=16, heap="8g", timeout=3400)
    ctx.model_check("MC_Sam", "MC_Sam_file_t" if thorough else "MC_Sam_file_q", workers=8)
    ctx.model_check("MC_Sam", "MC_Sam_lines_t" if thorough else "MC_Sam_lines_q", workers=8)
    cases = []
    for cfg in ("MC_Sam_record_emit", "MC_Sam_file_emit"):
        r = ctx.model_check("MC_Sam", cfg, workers=4, count=False)
        cases += codec.emitted_cases(r["out"])
    codec.replay_cases(ctx, "sam-replay", cases, "sam text", lambda c: "text=%s" % bytes(c["text"]))
    vlib.log("  [R] %d model texts (record lines and files) read by the real ReaderHeader and Reader" % len(cases))
    leg_T(ctx, 2500 if thorough else 80)
    ctx.exhaustive = True


def leg_T(ctx, sessions, only=None):
    tpath = os.path.join(ctx.work, "sam_trace.ndjson")
    ctx.vh(["sam-drive", tpath, sessions] + ([only] if only is not None else []))

    codec.judge_trace(ctx, "Trace_Sam", tpath, {"driver": "sam-drive", "sessions": sessions}, heap="12g", maxset=100000000,
                      describe=lambda e: ("write %s -> %s" % (json.dumps(e["rec"])[:300], bytes(e["bw"])[:200]) if e["op"] == "write" else
                                          "read/%s of %s: %d items (%s), wanted %d" % (e["mode"], bytes(e["bytes"])[:300], len(e["items"]),
                                                                                     "".join(i["k"][0] for i in e["items"][:40]), len(e["want"]))))


def replay(ctx, rp):
    if rp["leg"] == "R":
        codec.replay_cases(ctx, rp["cmd"], [rp["case"]], "replayed", lambda c: "replayed")
    else:
        leg_T(ctx, rp["sessions"], only=rp["sid"])
