"""C12 - reverse complement is an involution; canonical k-mers are strand-independent.
M: MC_Seq (rc configurations): every string up to a bound over aAcCgGtTnN + one foreign byte; the transcription of
   the Go loops (IRevComp, ICanon) equals the property-level definitions; Involution, StrandSymmetry, Count, AppendOnly,
   CasePreserving, CanonIsMin.  A broken complement table ('g' -> 'C') must be refuted (non-vacuity).
T: every call recorded from the real ReverseComplement / ReverseComplementString / CanonicalSubsequences (all strings
   up to 5 (quick) / 6 (thorough), every k, dst prefixes with and without spare capacity, all 256 bytes for the
   accept/panic boundary, seeded random long inputs) is judged by Trace_Seq.

This module also holds the helpers shared by c13.py and c14.py (same package, same trace pattern)."""
import json
import os

import vlib


# ------------------------------------------------------------------ shared helpers (C12, C13, C14)

def show(a, limit=48):
    """bytes (list of ints) -> readable text"""
    if not isinstance(a, list):
        return str(a)
    if a and isinstance(a[0], list):
        return "[" + ", ".join(show(x, 16) for x in a[:6]) + (", ...(%d)" % len(a) if len(a) > 6 else "") + "]"
    s = repr(bytes(x & 255 for x in a[:limit]))[1:]
    return s + ("...(%d bytes)" % len(a) if len(a) > limit else "")


def describe(e):
    op = e["op"]
    p = " PANICKED" if e.get("panic") else ""
    if op == "revcomp":
        return "ReverseComplement(dst=%s cap+%d, src=%s)%s -> %s" % (show(e["dst"]), e["cap"], show(e["src"]), p, show(e["out"]))
    if op == "revcompstr":
        return "ReverseComplementString(%s)%s -> %s" % (show(e["src"]), p, show(e["out"]))
    if op in ("canon", "canonpair"):
        return "CanonicalSubsequences(%s, k=%d)%s -> %s" % (show(e["seq"]), e["k"], p, show(e["items"]))
    if op == "to2bit":
        return "DNATo2Bit(dst=%s cap+%d, src=%s)%s -> %s" % (show(e["dst"]), e["cap"], show(e["src"]), p, e["out"][:24])
    if op == "from2bit":
        return "DNAFrom2Bit(dst=%s cap+%d, src=%s)%s -> %s" % (show(e["dst"]), e["cap"], e["src"][:24], p, show(e["out"]))
    if op == "ntoi":
        return "Ntoi(%d) -> %d" % (e["b"], e["r"])
    if op == "iton":
        return "Iton(%d) -> %d" % (e["i"], e["r"])
    if op == "translate":
        return "Translate(dst=%s cap+%d, src=%s)%s -> %s" % (show(e["dst"]), e["cap"], show(e["src"]), p, show(e["out"]))
    if op == "concat":
        return "Translate(a=%s), Translate(b=%s), Translate(a+b)%s -> %s | %s | %s" % (
            show(e["a"], 24), show(e["bs"], 24), p, show(e["ta"], 16), show(e["tb"], 16), show(e["tab"], 24))
    if op == "frames":
        return "TranslateReadingFrames(%s)%s -> %s" % (show(e["seq"]), p, show(e["out"]))
    if op == "aminoname":
        return "AminoName(%d %s)%s -> %s, %s" % (e["b"], show([e["b"]]), p, show(e["code"]), show(e["name"]))
    return json.dumps(e)[:200]


def pick_lines(path, wanted):
    """events at the given 1-based line numbers (without loading the whole trace)"""
    out = {}
    if not wanted:
        return out
    last = max(wanted)
    with open(path) as f:
        for i, line in enumerate(f, 1):
            if i in wanted:
                out[i] = json.loads(line)
            if i >= last:
                break
    return out


def judge(ctx, module, tpath, kind, what, samples=(), heap="6g", timeout=1800, maxset=None):
    """Validate one recorded trace with TLC; one violation per rejected clause (first = earliest event).
    kind: 'seq' or 'amino' (which exec command re-runs an event)."""
    n, bad = ctx.validate_trace(module, tpath, heap=heap, timeout=timeout, maxset=maxset)
    by_reason = {}
    for line, why in bad:
        by_reason.setdefault(why, []).append(line)
    first = {lines[0] for lines in by_reason.values()}
    more = {ln for lines in by_reason.values() for ln in lines[1:40]}
    evs = pick_lines(tpath, first | more | set(samples))
    for why, lines in sorted(by_reason.items(), key=lambda kv: kv[1][0]):
        e = evs[lines[0]]
        # further examples of the same clause: prefer inputs of other lengths
        others, seen = [], {arg_len(e)}
        for ln in lines[1:40]:
            if arg_len(evs[ln]) not in seen and len(others) < 3:
                seen.add(arg_len(evs[ln]))
                others.append(evs[ln])
        ctx.violation("%s: %s: rejected by %s: %s (%d%s event(s) of this run break this clause%s)" % (
            what, describe(e), module, why, len(lines), "+" if len(bad) >= 40 else "",
            "".join("; also " + describe(o) for o in others)),
            {"leg": "T", "kind": kind, "module": module, "reason": why, "event": e, "more_examples": [compact(o) for o in others]})
    for ln in samples:
        if ln in evs and ln not in first:
            ctx.sample({"leg": "T", "event": compact(evs[ln])})
    ctx.traces += n - len(bad)
    ctx.extra["trace_events"] = ctx.extra.get("trace_events", 0) + n
    return n, bad


def arg_len(e):
    for k in ("src", "seq", "a"):
        if k in e:
            return len(e[k])
    return e.get("b", e.get("i", 0))


def compact(e):
    return {k: (v if not isinstance(v, list) or len(json.dumps(v)) < 300 else "<%d elements>" % len(v)) for k, v in e.items()}


def drive(ctx, args, out):
    tpath = os.path.join(ctx.work, out)
    ctx.vh([args[0]] + [a if a != "@OUT@" else tpath for a in args[1:]])
    return tpath


def refuted(ctx, module, cfg, invariant):
    """Non-vacuity: the deliberately broken model variant must violate the named invariant."""
    r = ctx.tlc(module, cfg, workers=1, allow_violation=True, timeout=600)
    if ("Invariant %s is violated" % invariant) not in r["out"]:
        raise vlib.Machinery("broken model variant %s/%s was NOT refuted (expected %s to fail):\n%s" % (
            module, cfg, invariant, r["out"][-1500:]))
    vlib.log("  [M] %s/%s: broken variant refuted as expected (%s)" % (module, cfg, invariant))
    ctx.extra.setdefault("refuted_variants", []).append("%s:%s" % (cfg, invariant))


def replay_event(ctx, rp):
    """bin/check <ID> --replay <file>: re-execute the one recorded call against the real code, re-judge with TLC."""
    kind = rp["kind"]
    req = os.path.join(ctx.work, "req.json")
    with open(req, "w") as f:
        json.dump([rp["event"]], f)
    tpath = os.path.join(ctx.work, "replayed.ndjson")
    ctx.vh([kind + "-exec", req, tpath])
    n, bad = ctx.validate_trace(rp["module"], tpath)
    e = vlib.read_ndjson(tpath)[0]
    vlib.log("  replayed: %s" % describe(e))
    for line, why in bad:
        ctx.violation("replayed: %s: rejected by %s: %s" % (describe(e), rp["module"], why),
                      dict(rp, event=e, reason=why), name="replayed")
    ctx.traces += n - len(bad)


ASSUME_COMMON = [
    "TLC evaluates the laws on every string of the stated bound; beyond it only the recorded calls are judged",
    "the harness observes 'not modified' as equality of the before/after values of src and of the original dst slice",
    "aliasing dst and src is outside the statement and not exercised",
]

# ------------------------------------------------------------------ C12


def run(ctx):
    ctx.rule = ("M: one state per byte string up to the bound; T: one event per real call, judged independently "
                "against Seq.tla's property-level operators (PRevComp, Canon)")
    ctx.assumptions += ASSUME_COMMON + [
        "CanonicalSubsequences is judged only for sequences over aAcCgGtTnN and k >= 1 (the statement's domain)"]
    thorough = ctx.tier == "thorough"
    # M
    ctx.model_check("MC_Seq", "MC_Seq_rc4", workers=4)
    refuted(ctx, "MC_Seq", "MC_Seq_rc_casefold", "Involution")
    if thorough:
        ctx.model_check("MC_Seq", "MC_Seq_rc5", workers=16, heap="8g", timeout=3000)
        ctx.model_check("MC_Seq", "MC_Seq_rc6", workers=16, heap="8g", timeout=3000)
    # T
    if thorough:
        # inputs beyond 2^20 elements: 5 events, judged one by one (each is several MB of JSON)
        for part in range(2):
            t = drive(ctx, ["seq-drive", "huge", "@OUT@", 0, part, 5], "huge_%d.ndjson" % part)
            judge(ctx, "Trace_Seq", t, "seq", "sequtil", heap="14g", timeout=3000, maxset=100000000)
            os.remove(t)
        for fam, maxlen, parts in (("rc", 6, 6), ("canon", 5, 8)):
            for part in range(parts):
                t = drive(ctx, ["seq-drive", fam, "@OUT@", maxlen, part, parts], "%s_%d.ndjson" % (fam, part))
                judge(ctx, "Trace_Seq", t, "seq", "sequtil", samples=(5, 40007) if part == 0 else (), heap="10g", timeout=3000)
                os.remove(t)
    else:
        t = drive(ctx, ["seq-drive", "rc", "@OUT@", 5], "rc.ndjson")
        judge(ctx, "Trace_Seq", t, "seq", "sequtil", samples=(5, 40007, 149000))
        t = drive(ctx, ["seq-drive", "canon", "@OUT@", 4], "canon.ndjson")
        judge(ctx, "Trace_Seq", t, "seq", "sequtil", samples=(1500, 100001))
    ctx.exhaustive = True


def replay(ctx, rp):
    replay_event(ctx, rp)
