"""C16 - the interval index reports exactly the covering intervals, ascending; read-only; mismatch panics.
M: MC_Regions (every pair of lists of <= MaxN coordinates over 0..3; the sweep one event per action; the
   implementation-shaped At equals the property-level Covering for every query -1..4; broken variant refuted)
R: every terminal state of the model (list, queries, Covering answers / panic) executed on the real index,
   under strictly monotone coordinate maps chosen per seed (identity, negative, near MaxInt/MinInt)
T: seeded sets of up to 200 intervals (extreme coordinates, duplicates, nesting, touching, empty, inverted),
   queries at every endpoint +-1, mutation of returned slices; 8 concurrent readers under -race;
   validated event by event by Trace_Regions against Covering."""
import json
import os
import random
import re

import vlib

MAXINT = (1 << 63) - 1
MININT = -(1 << 63)


def _tla_to_py(text):
    """a TLA+ value made of tuples and ints only -> python lists"""
    return json.loads(text.replace("<<", "[").replace(">>", "]"))


def cases_from_dump(path, queries):
    """terminal states of MC_Regions -> replay cases. Only `phase`, `starts`, `ends`, `answers` are read
    (the implementation-shaped `st` is deliberately ignored: conformance is judged on the property level)."""
    cases = []
    block = []

    def flush():
        if not block:
            return
        text = " ".join(block)
        m = re.search(r'phase = "(\w+)"', text)
        if not m or m.group(1) not in ("done", "panic"):
            return
        fields = {}
        for part in text.split("/\\"):
            part = part.strip()
            mm = re.match(r"(\w+) = (.*)$", part, re.S)
            if mm and mm.group(1) in ("starts", "ends", "answers"):
                fields[mm.group(1)] = _tla_to_py(mm.group(2))
        if m.group(1) == "panic":
            cases.append({"starts": fields["starts"], "ends": fields["ends"], "queries": [], "answers": [], "panic": True})
        else:
            if len(fields["answers"]) != len(queries):
                raise vlib.Machinery("dump: %d answers for %d queries" % (len(fields["answers"]), len(queries)))
            cases.append({"starts": fields["starts"], "ends": fields["ends"], "queries": queries,
                          "answers": fields["answers"], "panic": False})

    with open(path) as f:
        for line in f:
            if line.startswith("State "):
                flush()
                block = []
            elif line.strip():
                block.append(line.strip())
    flush()
    return cases


def coordinate_maps(rnd, maxc):
    """strictly monotone maps c -> base + stride*c of the model's coordinates -1..maxc+1 (no overflow)"""
    maps = [{"base": 0, "stride": 1}]
    s1 = rnd.choice([1, 2, 3, 7, 1000])
    maps.append({"base": -rnd.randrange(1, 10 ** 6) - s1 * (maxc + 1), "stride": s1})          # negative
    s2 = rnd.choice([1, 2, 5, 1 << 20])
    maps.append({"base": MAXINT - s2 * (maxc + 1) - (s2 - 1), "stride": s2})                      # top of the int range
    s3 = rnd.choice([1, 3, 1 << 30])
    maps.append({"base": MININT + s3, "stride": s3})                                               # bottom of it
    s4 = (MAXINT // (maxc + 3)) - rnd.randrange(0, 1000)                                           # spans the whole range
    maps.append({"base": -s4 * ((maxc + 2) // 2), "stride": s4})
    return maps


def short(l, k=16):
    l = list(l)
    return str(l) if len(l) <= k else "%s... (%d elements)" % (str(l[:k])[:-1], len(l))


def describe(c, m, mm):
    f = lambda x: m["base"] + m["stride"] * x
    starts, ends = [f(x) for x in c["starts"]], [f(x) for x in c["ends"]]
    if mm["what"] == "newindex-panic":
        return "regions: NewIndex(%s, %s): %s, specification says panic=%s" % (starts, ends, mm["got"], mm["want"])
    return "regions: NewIndex(%s, %s).At(%d) [%s] = %s, specification (Covering) says %s" % (
        starts, ends, mm["real_q"], mm["what"], mm["got"], mm["want"])


def leg_R(ctx, cfg, maxn, maxc, rnd, workers=4, heap="4g"):
    r = ctx.model_check("MC_Regions", cfg, workers=workers, heap=heap, dump="states", timeout=3000)
    queries = list(range(-1, maxc + 2))
    cases = cases_from_dump(r["dump"], queries)
    lists = sum((maxc + 1) ** k for k in range(maxn + 1))
    want_done = sum((maxc + 1) ** (2 * k) for k in range(maxn + 1))
    done = sum(1 for c in cases if not c["panic"])
    if done != want_done or len(cases) != lists * lists:
        raise vlib.Machinery("MC_Regions/%s: %d terminal states (%d done), expected %d (%d done)" % (
            cfg, len(cases), done, lists * lists, want_done))
    maps = coordinate_maps(rnd, maxc)
    ipath = os.path.join(ctx.work, "regions_cases_%s.json" % cfg)
    with open(ipath, "w") as f:
        json.dump({"cases": cases, "maps": maps}, f)
    opath = os.path.join(ctx.work, "regions_replay_%s.json" % cfg)
    ctx.vh(["regions-replay", ipath, opath])
    res = json.load(open(opath))
    mms = res["mismatches"] or []
    vlib.log("  [R] %s: %d model cases (%d lists x %d queries, %d mismatched-length pairs) x %d coordinate maps: "
             "%d real calls, %d cases differ" % (cfg, len(cases), done, len(queries), len(cases) - done, len(maps),
                                                 res["executed"], res["nbad"]))
    ctx.traces += len(cases) * len(maps) - res["nbad"]
    ctx.extra["replayed_calls"] = ctx.extra.get("replayed_calls", 0) + res["executed"]
    rich = [c for c in cases if not c["panic"] and any(len(a) >= 2 for a in c["answers"])
            and any(s >= e for s, e in zip(c["starts"], c["ends"]))]
    for c in (rich[len(rich) // 2:][:1] + [c for c in cases if c["panic"]][:1]):
        ctx.sample({"leg": "R", "starts": c["starts"], "ends": c["ends"], "queries": c["queries"],
                    "covering": c["answers"], "panic": c["panic"]})
    # report the smallest failing cases first, a few of them
    mms.sort(key=lambda m: (len(cases[m["case"]]["starts"]), m["map"], m["case"]))
    seen = set()
    for mm in mms:
        if mm["case"] in seen or len(seen) >= 3:
            continue
        seen.add(mm["case"])
        c, m = cases[mm["case"]], maps[mm["map"]]
        ctx.violation(describe(c, m, mm), {"leg": "R", "cases": [c], "maps": [m], "mismatch": mm,
                                           "cases_differing_in_this_run": res["nbad"]})


def leg_T(ctx, sessions, only=None):
    tpath = os.path.join(ctx.work, "regions_trace.ndjson")
    args = ["regions-drive", tpath, sessions]
    if only is not None:
        args.append(only)
    ctx.vh(args)
    judge(ctx, tpath, {"leg": "T", "sessions": sessions}, sample=only is None)


def leg_C(ctx, sessions, only=None):
    """concurrent readers; the race detector's report is the observation, the verdict is the specification's"""
    tpath = os.path.join(ctx.work, "regions_conc.ndjson")
    args = ["regions-conc", tpath, sessions]
    if only is not None:
        args.append(only)
    p = ctx.vh(args, race=True, check=False)
    err = p.stderr_text or ""
    if p.returncode not in (0, 66) or (p.returncode == 66 and "DATA RACE" not in err):
        raise vlib.Machinery("regions-conc exited %d:\n%s" % (p.returncode, err[-3000:]))
    raced = set()
    cur = None
    unattributed = False
    for line in err.splitlines():
        m = re.match(r"VH-CONC-SESSION (\d+) (BEGIN|END)", line)
        if m:
            cur = int(m.group(1)) if m.group(2) == "BEGIN" else None
        elif "DATA RACE" in line:
            if cur is None:
                unattributed = True
            else:
                raced.add(cur)
    events = vlib.read_ndjson(tpath)
    if unattributed or (p.returncode == 66 and not raced):
        raced = {e["sid"] for e in events}
    for e in events:
        if e["op"] == "conc":
            e["race"] = e["sid"] in raced
    vlib.write_ndjson(tpath, events)
    vlib.log("  [T] regions-conc (-race): %d sessions x 8 goroutines, exit %d, sessions with a race report: %d" % (
        len({e["sid"] for e in events}), p.returncode, len(raced)))
    report = ""
    if raced:
        k = err.find("WARNING: DATA RACE")
        report = err[k:k + 2500]
    judge(ctx, tpath, {"leg": "C", "sessions": sessions, "race_report": report}, sample=False)


def judge(ctx, tpath, base, sample):
    n, bad = ctx.validate_trace("Trace_Regions", tpath)
    events = vlib.read_ndjson(tpath)
    sids = {e["sid"] for e in events}
    badsids = set()
    for line, why in bad:
        e = events[line - 1]
        if e["sid"] in badsids:
            continue
        badsids.add(e["sid"])
        if len(badsids) > 3:
            continue
        new = [x for x in events if x["sid"] == e["sid"] and x["op"] == "new"][0]
        if e["op"] == "at":
            text = "regions session %d (%s, %d intervals): At(%s) [%s] = %s rejected by Trace_Regions: %s" % (
                e["sid"], new["tag"], len(new["starts"]), e["rawq"], e["tag"], short(e["ret"]), why)
        elif e["op"] == "new":
            text = "regions session %d: NewIndex with %d starts and %d ends, panic=%s rejected by Trace_Regions: %s" % (
                e["sid"], len(e["starts"]), len(e["ends"]), e["panic"], why)
        else:
            text = "regions session %d: 8 goroutines calling At concurrently: %s (race detector report)" % (e["sid"], why)
        ctx.violation(text, dict(base, sid=e["sid"], reason=why, event=e, rank_starts=new["starts"], rank_ends=new["ends"]),
                      name="replayed" if ctx.replaying else None)
    ctx.traces += len(sids) - len(badsids)
    ctx.extra["trace_events"] = ctx.extra.get("trace_events", 0) + n
    if sample and events:
        ats = [e for e in events if e["op"] == "at" and e["ret"]]
        if ats:
            e = ats[len(ats) // 2]
            ctx.sample({"leg": "T", "event": {k: e[k] for k in ("sid", "op", "q", "rawq", "ret", "tag")}})


def run(ctx):
    rnd = random.Random(ctx.seed * 7919 + 16)
    ctx.rule = ("M: every pair of lists of <=3 (thorough 4) coordinates over 0..3 incl. empty/inverted intervals and "
                "different lengths, every query -1..4, sweep explored event by event; R: every terminal model state "
                "executed on the real index under 5 monotone coordinate maps; T: one session = one interval set "
                "(<=200 intervals) with all its queries, or one set queried by 8 goroutines under -race")
    ctx.assumptions += [
        "coordinates of recorded sessions are projected to their ranks (strictly monotone, preserves every <=, < of the property)",
        "the Go race detector's report is taken as the observation that At wrote shared state",
        "model coordinates are mapped to real ints by c -> base + stride*c (strictly monotone)",
    ]
    r = ctx.tlc("MC_Regions", "MC_Regions_noskip", workers=2, allow_violation=True)
    if "Invariant AtIsCovering is violated" not in r["out"]:
        raise vlib.Machinery("the broken model variant (no skip of start >= end) was not refuted by TLC")
    vlib.log("  [M] MC_Regions_noskip: broken variant refuted (AtIsCovering), as required")
    if ctx.tier == "thorough":
        leg_R(ctx, "MC_Regions_n4", 4, 3, rnd, workers=16, heap="8g")
        leg_R(ctx, "MC_Regions_n3c5", 3, 5, rnd, workers=16, heap="8g")
        leg_T(ctx, 600)
        leg_C(ctx, 80)
    else:
        leg_R(ctx, "MC_Regions_n3", 3, 3, rnd)
        leg_T(ctx, 60)
        leg_C(ctx, 10)
    ctx.exhaustive = True


def replay(ctx, rp):
    if rp["leg"] == "R":
        ipath = os.path.join(ctx.work, "cases.json")
        json.dump({"cases": rp["cases"], "maps": rp["maps"]}, open(ipath, "w"))
        opath = os.path.join(ctx.work, "out.json")
        ctx.vh(["regions-replay", ipath, opath])
        res = json.load(open(opath))
        ctx.traces += res["executed"]
        for mm in (res["mismatches"] or []):
            ctx.violation("replayed: " + describe(rp["cases"][mm["case"]], rp["maps"][mm["map"]], mm), rp, name="replayed")
    elif rp["leg"] == "T":
        leg_T(ctx, rp["sessions"], only=rp["sid"])
    else:
        leg_C(ctx, rp["sessions"], only=rp["sid"] - 1000)
