"""C11 - parsers are total: arbitrary bytes never panic, accepted records are stable; SAM lines fail in isolation.
M: the reader machines are total and agree with their denotations on every input of the bounded domains (MC_Fasta machine,
   MC_Fastq machine, MC_Newick total, MC_Sam lines + file (per-line error isolation), MC_Bed file)
T: total-drive: every string <= 3 over each format's class alphabet, seeded noise, grammar-aware mutations of valid files, for
   all readers and the NCBI matrix reader (no panic, terminates, only records/errors), and for every accepted record the
   write -> read fixed point (real code on both sides, judged by Trace_Total);
   sam-drive isolation family: every record line x 15 kinds of single-line corruption, both reader modes (Trace_Sam)."""
import os

import codec
import c03


def run(ctx):
    thorough = ctx.tier == "thorough"
    ctx.rule = ("T: one session = one input: decode event + one fixed-point event per accepted record (up to 4); "
                "SAM: one session = one valid file with all its single-line corruptions")
    ctx.assumptions += ["a decoder that has not returned after 20 s on an input of < 2 KB is reported as non-terminating",
                        "float / uint8 token syntax is strconv's (tables travel with the events)"]
    ctx.model_check("MC_Fasta", "MC_Fasta_machine9" if thorough else "MC_Fasta_machine6", workers=8)
    ctx.model_check("MC_Fastq", "MC_Fastq_machine9" if thorough else "MC_Fastq_machine6", workers=8)
    ctx.model_check("MC_Newick", "MC_Newick_total_t" if thorough else "MC_Newick_total_q", workers=8)
    ctx.model_check("MC_Sam", "MC_Sam_lines_t" if thorough else "MC_Sam_lines_q", workers=8)
    ctx.model_check("MC_Sam", "MC_Sam_file_t" if thorough else "MC_Sam_file_q", workers=8)
    ctx.model_check("MC_Bed", "MC_Bed_file_t" if thorough else "MC_Bed_file_q", workers=8)
    leg_total(ctx, 12000 if thorough else 250)
    c03.leg_T(ctx, 400 if thorough else 60)
    ctx.exhaustive = True


def leg_total(ctx, n, only=None):
    tpath = os.path.join(ctx.work, "total.ndjson")
    ctx.vh(["total-drive", tpath, n] + ([only] if only is not None else []), timeout=3000)
    codec.judge_trace(ctx, "Trace_Total", tpath, {"driver": "total-drive", "n": n}, heap="8g",
                      describe=lambda e: "%s %s input=%s rec=%s back=%s items=%d panic=%s" % (
                          e["fmt"], e["op"], bytes(e["bytes"])[:200], [bytes(x) for x in e["rec"]["f"]][:16],
                          [[bytes(x) for x in b["f"]][:16] for b in e["back"]][:2], len(e["items"]), e["panic"]))


def replay(ctx, rp):
    if rp.get("driver") == "total-drive":
        leg_total(ctx, rp["n"], only=rp["sid"])
    else:
        c03.leg_T(ctx, rp["sessions"], only=rp["sid"])
