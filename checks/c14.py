"""C14 - translation implements the standard genetic code in all reading frames.
M: MC_Amino: every string up to a bound over aAcCgGtT + 'N' + 0x81 (all 64 codons x 8 case patterns, the panic
   boundary) and longer strings over 4 letters; the transcription of amino.go (the codonToAmino literal in its ACGT
   order, `>= 'a'` folding, map miss = panic, frame slicing, aminoToName keys) equals the property-level definitions
   built from the NCBI table-1 string in TCAG order; CodeTable, ConcatLaw, FrameLaw, NameDomain.  The reading-frame
   code as it was before the fix of D9 (seq[i:] without clamping) must be refuted (TLC exhibits the empty sequence).
T: every call recorded from the real Translate / TranslateReadingFrames / AminoName (512 codon spellings, all strings
   up to 4 (quick) / 6 (thorough) over 10 bytes, all 256 bytes at every codon position, seeded concatenations, frames
   for every length 0..40 (thorough 0..300), all 256 bytes for AminoName, dst prefixes) is judged by Trace_Amino."""
import os

import c12


def run(ctx):
    ctx.rule = ("M: one state per byte string up to the bound; T: one event per real call, judged independently "
                "against Amino.tla's property-level operators (PTranslate, Frames, AminoNameBytes)")
    ctx.assumptions += c12.ASSUME_COMMON + [
        "the genetic code is the 64-letter NCBI table-1 string written in Amino.tla (TLC also checks its degeneracy counts)",
        "TranslateReadingFrames is judged only for sequences over aAcCgGtT (the statement's domain)",
        "AminoName: only 'non-empty code and name' is judged, not the texts"]
    thorough = ctx.tier == "thorough"
    # M
    ctx.model_check("MC_Amino", "MC_Amino_codons4", workers=4)
    ctx.model_check("MC_Amino", "MC_Amino_long7", workers=4)
    c12.refuted(ctx, "MC_Amino", "MC_Amino_unrepaired", "FrameLaw")
    if thorough:
        ctx.model_check("MC_Amino", "MC_Amino_codons6", workers=16, heap="8g", timeout=3000)
        ctx.model_check("MC_Amino", "MC_Amino_long9", workers=16, heap="8g", timeout=3000)
    # T
    if thorough:
        parts = 6
        for part in range(parts):
            t = c12.drive(ctx, ["amino-drive", "@OUT@", 6, 300, part, parts], "amino_%d.ndjson" % part)
            c12.judge(ctx, "Trace_Amino", t, "amino", "sequtil", samples=(100, 600, 190000) if part == 0 else (), heap="14g", timeout=3000, maxset=100000000)
            os.remove(t)
    else:
        t = c12.drive(ctx, ["amino-drive", "@OUT@", 4, 40], "amino.ndjson")
        c12.judge(ctx, "Trace_Amino", t, "amino", "sequtil", samples=(100, 600, 12700, 13000, 13400))
    ctx.exhaustive = True


def replay(ctx, rp):
    c12.replay_event(ctx, rp)
