"""C05 - Newick trees survive write -> read, including names that need quoting.
M: MC_Newick trees (every ordered tree <= 3/4 nodes x name pool x distances x second tree x separators round-trips
   through writer model -> tokenizer -> parser), names (every name <= 3/4 bytes over 13 structural classes), total
R: every (trees, text) of the emit model: real Reader on the spec's text; real writer -> real reader on the same trees
T: seeded trees to 10^4 nodes / chains, all name bytes, float atoms, streams of 1-10 trees; Trace_Newick."""
import os
import random

import vlib
import codec


def run(ctx):
    rnd = random.Random(ctx.seed)
    thorough = ctx.tier == "thorough"
    ctx.rule = ("M: all ordered trees <= 3 (thorough 4) nodes over 8-9 names x {no distance, one distance}, alone or followed by a "
                "second tree, 5 separators; all names <= 3 (4) bytes over 13 classes; R: every emitted case; T: one session = one stream of trees")
    ctx.assumptions += ["strconv float formatting/parsing trusted: distances are atoms (float64 bits; NaN one atom; -0 = 0)"]
    ctx.model_check("MC_Newick", "MC_Newick_trees_t" if thorough else "MC_Newick_trees_q", workers=16, heap="12g", timeout=3400)
    ctx.model_check("MC_Newick", "MC_Newick_names_t" if thorough else "MC_Newick_names_q", workers=8)
    ctx.model_check("MC_Newick", "MC_Newick_total_t" if thorough else "MC_Newick_total_q", workers=8)
    r = ctx.model_check("MC_Newick", "MC_Newick_trees_emit", workers=4, count=False)
    cases = codec.emitted_cases(r["out"])
    plain = [b for b in range(33, 256) if chr(b) not in "(),:;'_ \t\n\r0123456789" and b != 0x7f]
    a = rnd.choice(plain)
    conc = lambda s: [a if b == 65 else b for b in s]
    cc = [{"trees": [[{"d": n["d"], "name": conc(n["name"]), "dist": n["dist"]} for n in t] for t in c["trees"]],
           "text": conc(c["text"])} for c in cases]
    codec.replay_cases(ctx, "newick-replay", cc, "newick text", lambda c: "text=%s" % bytes(c["text"]))
    vlib.log("  [R] %d model (trees, text) pairs through the real Reader and the real writer+reader (A -> %d)" % (len(cc), a))
    leg_T(ctx, 4000 if thorough else 250)
    ctx.exhaustive = True


def leg_T(ctx, sessions, only=None):
    tpath = os.path.join(ctx.work, "newick_trace.ndjson")
    ctx.vh(["newick-drive", tpath, sessions] + ([only] if only is not None else []))

    codec.judge_trace(ctx, "Trace_Newick", tpath, {"driver": "newick-drive", "sessions": sessions}, maxset=100000000, heap="8g",
                     
                      describe=lambda e: "%d tree(s) of %s nodes, texts %s -> %d trees back, err=%s" % (
                          len(e["trees"]), [len(t) for t in e["trees"]], [bytes(t[:80]) for t in e["texts"][:3]], len(e["back"]), e["err"]))


def replay(ctx, rp):
    if rp["leg"] == "R":
        codec.replay_cases(ctx, "newick-replay", [rp["case"]], "newick text", lambda c: "replayed")
    else:
        leg_T(ctx, rp["sessions"], only=rp["sid"])
