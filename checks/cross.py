"""Shared by C06, C07, C18: run a cross driver and judge its trace with Trace_Cross."""
import os

import codec


def leg(ctx, driver, dargs, only=None):
    tpath = os.path.join(ctx.work, driver + ".ndjson")
    ctx.vh([driver, tpath] + list(dargs) + ([only] if only is not None else []), timeout=3000)
    return codec.judge_trace(ctx, "Trace_Cross", tpath, {"driver": driver, "dargs": list(dargs)}, heap="8g",
                             describe=lambda e: "%s %s/%s k=%s mode=%s rs=%s ids=%s after=%s capped=%s err=%s outlen=%s input=%s" % (
                                 e["fmt"], e["op"], e["cfg"], e["k"], e["mode"], e["rs"], e["ids"][:30], e["after"], e["capped"], e["err"],
                                 e["outlen"], bytes(e["input"])[:120]))


def replay(ctx, rp):
    leg(ctx, rp["driver"], rp["dargs"], only=rp["sid"])
