"""Shared by C06, C07, C18: run a cross driver and judge its trace with Trace_Cross."""
import os

import codec


def leg(ctx, driver, dargs, only=None):
    tpath = os.path.join(ctx.work, driver + ".ndjson")
    ctx.vh([driver, tpath] + list(dargs) + ([only] if only is not None else []), timeout=3000)
    return codec.judge_trace(ctx, "Trace_Cross", tpath, {"driver": driver, "dargs": list(dargs)}, heap="8g",
                             describe=lambda e: "%s %s/%s k=%s mode=%s rs=%s ids=%s after=%s capped=%s err=%s outlen=%s input=%s" % (
                                 e["fmt"], e["op"], e["cfg"], e["k"], e["mode"], e["rs"], e["ids"][:30], e["after"], e["capped"], e["err"],
                                 e["outlen"], bytes(e["input"])[:120]))


def lineloop(ctx, keep, what):
    """LineLoop.tla: the sam / bed ReadString loops at buffer level under every schedule, fault and stop (M), and the model's
    (input, fault, stop) -> items on the real readers (R). keep selects the cases that belong to the calling property."""
    n = 0
    for fmt in ("samh", "sam", "bed"):
        # (no -coverage for this model: with the recursive line grammars inside every step TLC's coverage counters slow it down by more
        # than two orders of magnitude; its non-vacuity is shown by the refuted variant MC_LineLoop_broken and by leg R)
        ctx.model_check("MC_LineLoop", "MC_LineLoop_" + fmt, workers=16, heap="8g", timeout=3000, coverage=False)
        r = ctx.model_check("MC_LineLoop", "MC_LineLoop_%s_emit" % fmt, workers=1, count=False, coverage=False)
        cases = [c for c in codec.emitted_cases(r["out"]) if keep(c)]
        n += len(cases)
        codec.replay_cases(ctx, "lineloop-replay", cases, "line loop (%s)" % what,
                           lambda c: "%s %r fault at %s (%s) stop %s" % (c["fmt"], bytes(c["text"]), c["at"], c["mode"], c["stop"]))
    return n


def replay(ctx, rp):
    if rp.get("leg") == "R":
        codec.replay_cases(ctx, rp["cmd"], [rp["case"]], "line loop", lambda c: "replayed")
        return
    leg(ctx, rp["driver"], rp["dargs"], only=rp["sid"])
