"""Helpers shared by the codec checks (C01-C07, C11, C18)."""
import json
import os
import re

import vlib


def emitted_cases(tlc_out):
    """Lines printed by `PrintT(<<"CASE", ToJson(x)>>)` -> list of x."""
    out = []
    for m in re.finditer(r'^<<"CASE", (".*")>>$', tlc_out, re.M):
        out.append(json.loads(json.loads(m.group(1))))
    if not out:
        raise vlib.Machinery("the emit model printed no CASE lines")
    return out


def replay_cases(ctx, cmd, cases, what, describe, extra_args=()):
    """Leg R: cases (with the model's expectation inside) executed by `vh <cmd> cases.json out.json`."""
    ctx._rn = getattr(ctx, "_rn", 0) + 1
    cpath = os.path.join(ctx.work, "cases%d.json" % ctx._rn)
    opath = os.path.join(ctx.work, "cases%d.out.json" % ctx._rn)
    with open(cpath, "w") as f:
        json.dump(cases, f)
    ctx.vh([cmd, cpath, opath] + list(extra_args))
    res = json.load(open(opath))
    mm = res.get("mismatches") or []
    ctx.traces += res["executed"] - len({m["case"] for m in mm})
    ctx.extra["replayed_cases"] = ctx.extra.get("replayed_cases", 0) + res["executed"]
    if cases:
        ctx.sample({"leg": "R", "case": cases[len(cases) // 3]})
    seen = set()
    for m in mm:
        if m["case"] in seen:
            continue
        seen.add(m["case"])
        c = cases[m["case"]]
        ctx.violation("%s: real code disagrees with the model on %s: %s: got %s, model says %s" % (
            what, describe(c), m["what"], json.dumps(m["got"])[:300], json.dumps(m["want"])[:300]),
            {"leg": "R", "cmd": cmd, "case": c, "mismatch": m})
    return res


def judge_trace(ctx, module, tpath, rp_base, describe, maxset=None, classify=None, heap="6g", timeout=1800):
    """Leg T: validate tpath with trace spec `module`; one violation per rejected session (sid)."""
    n, bad = ctx.validate_trace(module, tpath, maxset=maxset, heap=heap, timeout=timeout)
    sids, badsids = set(), set()
    events = []
    need = {line for line, _ in bad}
    with open(tpath) as f:
        for i, line in enumerate(f, 1):
            # only decode what is needed (traces can be large)
            if i in need:
                events.append((i, json.loads(line)))
            m = re.match(r'\{"sid":(\d+)', line)
            if m:
                sids.add(int(m.group(1)))
            if i == 3 and not ctx.replaying:
                e = json.loads(line)
                ctx.sample({"leg": "T", "event": shorten(e)})
    ev = dict(events)
    for line, why in bad:
        e = ev[line]
        if why.startswith("CERT"):
            raise vlib.Machinery("driver produced an uncertified input (%s) at trace line %d: %s" % (why, line, describe(e)))
        sid = e.get("sid", line)
        if why.startswith("NOTE"):          # drift: valid but not canonical; never a verdict
            ctx._notes = getattr(ctx, "_notes", 0) + 1
            if ctx._notes <= 3:
                ctx.note("drift (not a violation): %s: %s" % (why, describe(e)[:300]))
            continue
        if sid in badsids:
            continue
        badsids.add(sid)
        text = "%s rejected event (sid %s): %s: %s" % (module, sid, why, describe(e))
        rp = dict(rp_base, leg="T", sid=sid, reason=why, event=shorten(e, 4000))
        if classify:
            classify(why, e, text, rp)
        else:
            ctx.violation(text, rp)
    ctx.traces += len(sids) - len(badsids) if sids else n - len(bad)
    ctx.extra["trace_events"] = ctx.extra.get("trace_events", 0) + n
    return n, bad


def shorten(e, lim=200):
    def sh(v):
        if isinstance(v, list):
            if len(v) > lim:
                return [sh(x) for x in v[:lim]] + ["... %d more" % (len(v) - lim)]
            return [sh(x) for x in v]
        if isinstance(v, dict):
            return {k: sh(x) for k, x in v.items()}
        return v
    return sh(e)
