"""C19 - PreOrder / PostOrder visit every node exactly once in the classic recursive order, without
modifying the tree, for trees of any depth.
M: MC_Traverse (every ordered tree with <= 7 (thorough 9) nodes, both modes, the (node, child index) stack
   machine one loop iteration per action: StackIsPath, visited is a prefix of / finally equals Pre / Post,
   the statement's clauses agree with Pre / Post, the witness form accepts exactly Pre / Post; broken variant refuted)
R: every shape of the model built from real newick.Node values, both real iterators compared with the
   model's terminal `visited`
T: seeded random trees up to 10^4 nodes and chains / caterpillars / brooms of 10^5 (thorough 10^6) nodes,
   validated by Trace_Traverse (witness form for all, recursive Pre / Post for trees <= 10^4)."""
import json
import os

import vlib

CATALAN = [1, 1, 2, 5, 14, 42, 132, 429, 1430, 4862]


def _tla_to_py(text):
    return json.loads(text.replace("<<", "[").replace(">>", "]"))


def cases_from_dump(path):
    """terminal states (stack empty) of MC_Traverse -> {tree: {pre, post}}; only tree, mode, visited are read"""
    import re
    out = {}
    block = []

    def flush():
        if not block:
            return
        text = " ".join(block)
        if not re.search(r"stack = <<\s*>>", text):
            return
        f = {}
        for part in text.split("/\\"):
            mm = re.match(r"\s*(\w+) = (.*)$", part.strip(), re.S)
            if mm:
                f[mm.group(1)] = mm.group(2).strip()
        tree = _tla_to_py(f["tree"])
        key = json.dumps(tree)
        c = out.setdefault(key, {"kids": tree})
        c["pre" if f["mode"] == "TRUE" else "post"] = _tla_to_py(f["visited"])

    with open(path) as fh:
        for line in fh:
            if line.startswith("State "):
                flush()
                block = []
            elif line.strip():
                block.append(line.strip())
    flush()
    return list(out.values())


def leg_R(ctx, cfg, maxnodes, workers=4):
    r = ctx.model_check("MC_Traverse", cfg, workers=workers, dump="states", timeout=3000)
    cases = cases_from_dump(r["dump"])
    want = sum(CATALAN[n - 1] for n in range(1, maxnodes + 1))
    if len(cases) != want or any("pre" not in c or "post" not in c for c in cases):
        raise vlib.Machinery("MC_Traverse/%s: %d shapes with terminal states, expected %d with both modes" % (
            cfg, len(cases), want))
    cases.sort(key=lambda c: (len(c["kids"]), c["kids"]))
    ipath = os.path.join(ctx.work, "traverse_cases_%s.json" % cfg)
    json.dump(cases, open(ipath, "w"))
    opath = os.path.join(ctx.work, "traverse_replay_%s.json" % cfg)
    ctx.vh(["traverse-replay", ipath, opath])
    res = json.load(open(opath))
    mms = res["mismatches"] or []
    vlib.log("  [R] %s: %d tree shapes (all ordered trees with <= %d nodes) built from real nodes, %d real traversals, "
             "%d mismatches" % (cfg, len(cases), maxnodes, res["executed"], len(mms)))
    ctx.traces += len(cases) - len({m["case"] for m in mms})
    ctx.extra["replayed_traversals"] = ctx.extra.get("replayed_traversals", 0) + res["executed"]
    c = cases[min(len(cases) - 1, 150)]
    ctx.sample({"leg": "R", "kids": c["kids"], "model_pre": c["pre"], "model_post": c["post"]})
    seen = set()
    for mm in mms:          # cases are sorted by size: the smallest failing shapes first
        if mm["case"] in seen or len(seen) >= 3:
            continue
        seen.add(mm["case"])
        c = cases[mm["case"]]
        ctx.violation("traverse: tree %s (children per node, root 1): %s = %s, specification says %s" % (
            c["kids"], mm["what"], mm["got"], mm["want"]), {"leg": "R", "cases": [c], "mismatch": mm})


def short(l, k=12):
    return str(l) if len(l) <= k else "%s... (%d elements)" % (str(l[:k])[:-1], len(l))


def leg_T(ctx, sessions, deep, only=None):
    tpath = os.path.join(ctx.work, "traverse_trace.ndjson")
    args = ["traverse-drive", tpath, sessions, deep]
    if only is not None:
        args.append(only)
    ctx.vh(args)
    n, bad = ctx.validate_trace("Trace_Traverse", tpath, maxset=100000000, heap="12g" if deep > 200000 else "6g",
                                timeout=3000)
    heads = []
    with open(tpath) as f:
        for line in f:      # events can be tens of MB: keep only what the report needs
            e = json.loads(line)
            heads.append({"sid": e["sid"], "kind": e["kind"], "n": e["n"], "pre": e["pre"][:12], "post": e["post"][:12],
                          "npre": len(e["pre"]), "npost": len(e["post"]),
                          "kids": e["kids"] if e["n"] <= 12 else None})
    nbad = 0
    for line, why in bad:
        e = heads[line - 1]
        if why.startswith("harness"):
            raise vlib.Machinery("traverse session %d (%s): the harness's own witnesses are inconsistent: %s" % (
                e["sid"], e["kind"], why))
        nbad += 1
        if nbad > 4:
            continue
        ctx.violation("traverse session %d (%s tree, %d nodes): rejected by Trace_Traverse: %s "
                      "(PreOrder yielded %d nodes: %s; PostOrder yielded %d nodes: %s)" % (
                          e["sid"], e["kind"], e["n"], why, e["npre"], short(e["pre"]), e["npost"], short(e["post"])),
                      {"leg": "T", "sid": e["sid"], "sessions": sessions, "deep": deep, "reason": why, "event_head": e},
                      name="replayed" if ctx.replaying else None)
    ctx.traces += n - nbad
    ctx.extra["trace_events"] = ctx.extra.get("trace_events", 0) + n
    ctx.extra["largest_tree_nodes"] = max(ctx.extra.get("largest_tree_nodes", 0), max(h["n"] for h in heads))
    if only is None:
        small = [h for h in heads if h["kids"] is not None and h["n"] > 3]
        if small:
            ctx.sample({"leg": "T", "event": small[0]})
        ctx.sample({"leg": "T", "event": {k: v for k, v in heads[-3].items() if k != "kids"}})


def run(ctx):
    ctx.rule = ("M: every ordered tree with <=7 (thorough 9) nodes x {pre, post}, one state per loop iteration of traverse; "
                "R: one real tree per model shape, both iterators, twice; T: one event per seeded tree "
                "(random <=10^4 nodes; chain, caterpillar and broom of 10^5 / 10^6 nodes)")
    ctx.assumptions += [
        "node identity is projected to ids through a pointer map kept by the harness",
        "subtree sizes in events come from the harness's parent table; the specification re-verifies them locally",
        "witness form = recursive order: proved by TLC for all trees <= 6 (thorough 7) nodes against all permutations, by induction beyond",
    ]
    r = ctx.tlc("MC_Traverse", "MC_Traverse_reversed", workers=2, allow_violation=True)
    if "Invariant PreIsRecursive is violated" not in r["out"] and "Invariant PostIsRecursive is violated" not in r["out"]:
        raise vlib.Machinery("the broken model variant (children taken from the end) was not refuted by TLC")
    vlib.log("  [M] MC_Traverse_reversed: broken variant refuted, as required")
    if ctx.tier == "thorough":
        leg_R(ctx, "MC_Traverse_n9", 9, workers=16)
        leg_T(ctx, 300, 1000000)
    else:
        leg_R(ctx, "MC_Traverse_n7", 7)
        leg_T(ctx, 80, 100000)
    ctx.exhaustive = True


def replay(ctx, rp):
    if rp["leg"] == "R":
        ipath = os.path.join(ctx.work, "cases.json")
        json.dump(rp["cases"], open(ipath, "w"))
        opath = os.path.join(ctx.work, "out.json")
        ctx.vh(["traverse-replay", ipath, opath])
        res = json.load(open(opath))
        ctx.traces += res["executed"]
        for mm in (res["mismatches"] or []):
            ctx.violation("replayed: traverse: tree %s: %s = %s, specification says %s" % (
                rp["cases"][0]["kids"], mm["what"], mm["got"], mm["want"]), rp, name="replayed")
    else:
        leg_T(ctx, rp["sessions"], rp["deep"], only=rp["sid"])
