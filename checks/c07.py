"""C07 - a failing stream is reported, never mistaken for a clean end of data.
M: Stream.tla FaultOK (byte-level FASTA reader x every schedule x every fault offset x once/forever); MC_Fault (FASTQ, SAM, BED,
   Newick error paths as functions of the delivered prefix, every offset of every input of small well-formed corpora)
T: every format x well-formed inputs x every byte offset x {once, forever} x {1-byte, 4096-byte reads}; every Write x every offset."""
import cross


def run(ctx):
    thorough = ctx.tier == "thorough"
    ctx.rule = ("M: see MC_Stream / MC_Fault; T: one session = one input with all its fault placements (or one record with all "
                "writer-failure offsets); the consumer never stops, an iterator that does not end within len(clean)+64 items is unbounded")
    ctx.assumptions += ["stdlib semantics written down in MC_Fault (Scanner hands out the partial last line, ReadString returns it with the error)"]
    ctx.model_check("MC_Stream", "MC_Stream_t7" if thorough else "MC_Stream_t", workers=16, heap="12g", timeout=3400)
    ctx.model_check("MC_Fault", "MC_Fault_ok", workers=8)
    for cfg in (("MC_StreamLines_fq_t", "MC_StreamLines_rs_t") if thorough else ("MC_StreamLines_fq_q", "MC_StreamLines_rs_q")) + ("MC_StreamLines_fixed",):
        ctx.model_check("MC_StreamLines", cfg, workers=16, heap="12g", timeout=3400)
    cross.lineloop(ctx, lambda c: c["mode"] != "set" and c["stop"] == 0, "faults")
    if thorough:
        cross.leg(ctx, "fault-drive", [14, 6000])
    else:
        cross.leg(ctx, "fault-drive", [2, 400])
    ctx.exhaustive = True


replay = cross.replay
