"""C17 - MinHash sketches depend only on the k-mer content; Mash distance obeys its laws.
M: MC_Mash (all push orders of every multiset: OrderFree, Incremental, TailLaw), MC_MashJaccard (merge walk of
   minhash.intersect = |Bottom_n(A u B) n A n B| / n on full sketches; distance laws; FromJaccard monotone on the
   whole table grid), MC_MashKmers (index arithmetic of CanonicalSubsequences = canonical k-mers; strand / case
   freedom; pushes in code order = SketchView of the content).  Three broken variants must be refuted.
T: seeded sessions on the real code (Sequences / Add / Distance / FromJaccard), hash values rank-projected, murmur3
   applied by the harness directly; Trace_Mash decides canonical strand, de-duplication, selection, the Jaccard
   estimate and the fixed-point distance against MashLnTable."""
import json
import os
import subprocess
import sys

import vlib

BROKEN = [("MC_Mash", "MC_Mash_push_popmin", "OrderFree"),
          ("MC_MashJaccard", "MC_MashJaccard_anysize", "JaccardAnySize"),
          ("MC_MashKmers", "MC_MashKmers_noupper", "CaseFreeNoUpper")]


def check_table(ctx):
    """MashLnTable.tla must be what its generator prints (the table is part of the specification)."""
    sdir = os.path.join(vlib.VERIF, "spec")
    p = subprocess.run([sys.executable, os.path.join(sdir, "gen_mash_ln_table.py")], stdout=subprocess.PIPE, text=True)
    if p.returncode != 0 or p.stdout != open(os.path.join(sdir, "MashLnTable.tla")).read():
        raise vlib.Machinery("spec/MashLnTable.tla differs from the output of gen_mash_ln_table.py")


def refuted(ctx, module, cfg, inv):
    r = ctx.tlc(module, cfg, workers=1, allow_violation=True, timeout=300)
    if ("Invariant %s is violated" % inv) not in r["out"]:
        raise vlib.Machinery("non-vacuity: TLC did not refute %s in the broken variant %s" % (inv, cfg))
    vlib.log("  [M] %s: broken variant refuted (%s violated, as required)" % (cfg, inv))


def leg_M(ctx):
    t = ctx.tier == "thorough"
    w = 16 if t else 8
    ctx.model_check("MC_Mash", "MC_Mash_push_t" if t else "MC_Mash_push", workers=w, timeout=3000)
    ctx.model_check("MC_MashJaccard", "MC_MashJaccard_t" if t else "MC_MashJaccard", workers=w, timeout=3000)
    ctx.model_check("MC_MashKmers", "MC_MashKmers_t" if t else "MC_MashKmers", workers=w, heap="8g", timeout=3000)
    for module, cfg, inv in BROKEN:
        refuted(ctx, module, cfg, inv)


def describe(e):
    seqs = lambda recs: ["".join(chr(c) for c in r["s"]) for r in recs]
    if e["op"] in ("sketch", "add"):
        return "%s(n=%d, k=%d, %s)%s -> view ranks %s [%s]" % (
            "Sequences" if e["op"] == "sketch" else "Add", e["n"], e["k"], seqs(e["seqs"]),
            "" if e["fresh"] else " on the session's MinHash", e["view"], e["note"].strip())
    if e["op"] == "distance":
        return "Distance(Sequences(%d,%d,%s), Sequences(%d,%d,%s), %d) = %.8f, swapped %.8f [%s]" % (
            e["n"], e["k"], seqs(e["seqs"]), e["n"], e["k"], seqs(e["seqs2"]), e["k"], e["d"] / 1e8, e["dr"] / 1e8, e["note"])
    return "FromJaccard(%d/%d, %d) = %.8f" % (e["jn"], e["jd"], e["k"], e["d"] / 1e8)


def leg_T(ctx, sessions, only=None):
    tpath = os.path.join(ctx.work, "mash_trace.ndjson")
    args = ["mash-drive", tpath, sessions]
    if only is not None:
        args.append(only)
    ctx.vh(args)
    n, bad = ctx.validate_trace("Trace_Mash", tpath, timeout=6000, maxset=100000000 if ctx.tier == "thorough" else None,
                                heap="12g" if ctx.tier == "thorough" else "6g")
    events = vlib.read_ndjson(tpath)
    sids = {e["sid"] for e in events}
    badsids = set()
    for line, why in bad:
        e = events[line - 1]
        if why.startswith("driver-"):
            raise vlib.Machinery("mash driver inconsistency (%s) at trace line %d" % (why, line))
        if e["sid"] in badsids:
            continue
        badsids.add(e["sid"])
        ctx.violation("mash session %d step %d (mash.Seed=%s): %s rejected by Trace_Mash: %s" % (
            e["sid"], e["step"], e["hseed"], describe(e), why),
            {"leg": "T", "sid": e["sid"], "sessions": sessions, "reason": why, "event": e})
    ctx.traces += len(sids) - len(badsids)
    ctx.extra["trace_events"] = ctx.extra.get("trace_events", 0) + n
    if only is None:
        ops = {}
        for e in events:
            key = e["op"] + ("" if e["op"] != "distance" else ("(full)" if e["full"] else "(not full, not judged)"))
            ops[key] = ops.get(key, 0) + 1
        ctx.extra["trace_ops"] = ops
        vlib.log("  [T] %d sessions: %s" % (len(sids), ", ".join("%s %d" % kv for kv in sorted(ops.items()))))
        picked = set()
        for e in events:
            key = (e["op"], e["note"].split(" ")[-1] if e["op"] != "fromjaccard" else "")
            if e["op"] == "distance" and not (e["full"] and 0 < e["d"] < 10 ** 8):
                continue
            if e["op"] in ("sketch", "add") and (sum(len(r["s"]) for r in e["seqs"]) > 60 or not e["view"]):
                continue
            if key[0] in picked:
                continue
            picked.add(key[0])
            ctx.sample({"leg": "T", "accepted": describe(e)})


def run(ctx):
    ctx.rule = ("M: every push order of every multiset (<=5 of 6 values, n<=3; thorough <=7 of 7, n<=4), every pair of value "
                "sets for the merge walk, every sequence pair for the k-mer layer; T: one session = one k-mer content in many "
                "presentations (strand, case, order, regrouping, Add vs batch, smaller n), or one sketch pair with distances, "
                "or one FromJaccard grid")
    ctx.assumptions += [
        "murmur3 is an uninterpreted injective function: the harness applies github.com/spaolacci/murmur3 (New64WithSeed(mash.Seed)) "
        "to every k-substring of both strands; 64-bit values are projected to their rank within the session",
        "ln: the closed form is checked in 10^-8 fixed point against MashLnTable (sketch sizes / denominators <= 32 and j = 2^-p, p <= 14; tolerance 1 unit); "
        "outside that grid Distance / FromJaccard are checked for range, symmetry, zero on identical content, monotonicity and for lying "
        "between the table values at the two neighbouring table points (fractions with denominator 32, powers of two below 1/32; the closed form is decreasing in j)",
        "sequences over ACGT/acgt; Distance is judged only for two full sketches of equal size (the property's domain)",
    ]
    check_table(ctx)
    leg_M(ctx)
    leg_T(ctx, 400 if ctx.tier == "thorough" else 80)
    ctx.exhaustive = True


def replay(ctx, rp):
    leg_T(ctx, rp["sessions"], only=rp["sid"])
