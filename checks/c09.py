"""C09 - with zero gap-open Global and Local return the optimal score; Levenshtein; shipped matrices.
M: MC_Align_C09 - Gotoh's three-state optimum equals the brute-force maximum over all alignments (global, and over all
   substring pairs for local) on every case in scope (spec self-validation); open = 0 => the transcription of the code
   returns that optimum; Levenshtein => minus the edit distance; symmetric matrix => swapping leaves the optimum.
   MC_Align_dropins (decideOnStep without its insertion candidate) must be refuted.
T: recorded calls with gap-open 0 (seeded matrices, every shipped matrix, Levenshtein): score = Opt / LocalOpt computed
   by the specification's Gotoh fold; swapped arguments on symmetric matrices; -score = EditDistance; the table dumps
   (all 65 536 Levenshtein entries, all 576 entries of each shipped matrix read from the package variables) checked by
   IsLevenshtein / CompleteOver / Symmetric / ZeroOpen; protein pairs never panic."""
import c08
import vlib


def run(ctx):
    ctx.rule = ("M: all pairs up to the length bound over 2 letters x the parametric matrix family (gap-open 0 for "
                "ZeroOpenOptimal, the whole family for GotohIsBrute); T: one accepted event = one recorded call of the "
                "real Global/Local with a zero gap-open matrix (or one table dump), judged by Opt/LocalOpt/EditDistance/"
                "Symmetric/CompleteOver/IsLevenshtein of Align.tla")
    ctx.assumptions += c08.ASSUMPTIONS + [
        "the optimum is computed by the specification's Gotoh recurrence, itself model-checked against brute force "
        "enumeration of all alignments for all cases up to length 3 (thorough: 4)",
        "the alphabet of a shipped matrix is the 23 letters ARNDCQEGHILKMFPSTWYVBZX plus Gap",
    ]
    if ctx.tier == "thorough":
        c08.leg_M(ctx, ["MC_Align_C09_t", "MC_Align_C09_t2", "MC_Align_C09_pos"])
    else:
        c08.leg_M(ctx, ["MC_Align_C09", "MC_Align_C09_pos"])
    c08.must_refute(ctx, "MC_Align_dropins", "ZeroOpenOptimal")
    events, bad = c08.leg_T(ctx, "C09")
    tabs = [e for e in events if e["op"] == "table" and e["kind"] == "shipped"]
    lev = [e for e in events if e["op"] == "levtable"]
    ctx.extra["table_entries_checked"] = sum(len(e["es"]) for e in tabs) + sum(len(e["es"]) for e in lev)
    ctx.extra["shipped_tables"] = {e["name"]: len(e["es"]) for e in tabs}
    if len(tabs) != 6 or len(lev) != 1:
        raise vlib.Machinery("expected 6 shipped table dumps and the Levenshtein dump, got %d and %d" % (len(tabs), len(lev)))
    ctx.exhaustive = True


def replay(ctx, rp):
    c08.replay_plan(ctx, "C09", rp)
