"""C06 - decoding is independent of how bytes are delivered; File equals Reader.
M: Stream.tla (fasta.read over bufio over every chunking of every input, data+EOF): SchedFree
T: every format x (well-formed + mutated/noise inputs) x 16 delivery configurations incl. File plain/.gz, CRLF, missing path."""
import cross


def run(ctx):
    thorough = ctx.tier == "thorough"
    ctx.rule = ("M: all inputs <= 4/5 bytes over 3/4 classes x all partitions into Read results; T: one session = one (format, input): "
                "reference run on memory, then 13 schedules, CRLF, File plain/gz; missing path")
    ctx.assumptions += ["gzip is exercised, not modelled (File is the identity on content in the specification)",
                        "zero-progress reads (n = 0, nil) are outside the io.Reader contract and not generated",
                        "the clause 'well-formed input decodes to Denote(input)' is discharged per format by the read events of C01-C05"]
    ctx.model_check("MC_Stream", "MC_Stream_t7" if thorough else "MC_Stream_t", workers=16, heap="12g", timeout=3400)
    for cfg in (("MC_StreamLines_fq_t", "MC_StreamLines_rs_t") if thorough else ("MC_StreamLines_fq_q", "MC_StreamLines_rs_q")):
        ctx.model_check("MC_StreamLines", cfg, workers=16, heap="12g", timeout=3400)
    if thorough:
        cross.leg(ctx, "delivery-drive", [250, 500])
    else:
        cross.leg(ctx, "delivery-drive", [8, 12])
    ctx.exhaustive = True


replay = cross.replay
