"""C06 - decoding is independent of how bytes are delivered; File equals Reader.
M: Stream.tla (fasta.read over bufio over every chunking of every input, data+EOF): SchedFree
T: every format x (well-formed + mutated/noise inputs) x 16 delivery configurations incl. File plain/.gz, CRLF, missing path."""
import json
import os

import codec
import cross


def model_texts(ctx, thorough):
    """Every text the exhaustive codec models emit (valid and corrupted), to be decoded under several chunkings."""
    sets = [("fastq", "MC_Fastq", "MC_Fastq_corrupt_emit"), ("samh", "MC_Sam", "MC_Sam_file_emit"), ("bed", "MC_Bed", "MC_Bed_file_emit")]
    if thorough:
        sets += [("fasta", "MC_Fasta", "MC_Fasta_layout_emit"), ("newick", "MC_Newick", "MC_Newick_trees_emit"), ("sam", "MC_Sam", "MC_Sam_record_emit")]
    out = {}
    for fmt, module, cfg in sets:
        r = ctx.model_check(module, cfg, workers=4, count=False)
        out.setdefault(fmt, []).extend(c["text"] for c in codec.emitted_cases(r["out"]))
    path = os.path.join(ctx.work, "model_texts.json")
    with open(path, "w") as f:
        json.dump(out, f)
    return path


def run(ctx):
    thorough = ctx.tier == "thorough"
    ctx.rule = ("M: all inputs <= 4/5 bytes over 3/4 classes x all partitions into Read results; T: one session = one (format, input): "
                "reference run on memory, then 13 schedules, CRLF, File plain/gz; missing path")
    ctx.assumptions += ["gzip is exercised, not modelled (File is the identity on content in the specification)",
                        "zero-progress reads (n = 0, nil) are outside the io.Reader contract and not generated",
                        "the clause 'well-formed input decodes to Denote(input)' is discharged per format by the read events of C01-C05"]
    ctx.model_check("MC_Stream", "MC_Stream_t7" if thorough else "MC_Stream_t", workers=16, heap="12g", timeout=3400)
    for cfg in (("MC_StreamLines_fq_t", "MC_StreamLines_rs_t") if thorough else ("MC_StreamLines_fq_q", "MC_StreamLines_rs_q")):
        ctx.model_check("MC_StreamLines", cfg, workers=16, heap="12g", timeout=3400)
    cross.lineloop(ctx, lambda c: c["mode"] == "set" and c["stop"] == 0, "delivery")
    mt = model_texts(ctx, thorough)
    if thorough:
        cross.leg(ctx, "delivery-drive", [250, 500, mt])
    else:
        cross.leg(ctx, "delivery-drive", [8, 12, mt])
    ctx.exhaustive = True


def replay(ctx, rp):
    dargs = list(rp["dargs"])
    dargs[2] = model_texts(ctx, ctx.tier == "thorough")      # the work directory of the original run is gone
    cross.leg(ctx, rp["driver"], dargs, only=rp["sid"])
