"""C18 - every iterator can be stopped early, cleanly, at any point.
M: MC_Iter (push-iterator protocol: producer, three forwarding layers, consumer stopping anywhere; all item sequences <= 4);
   Stream.tla StopOK (FASTA reader stopped at every item under every schedule)
T: every iterator (6 Readers, 6 Files incl. gz and missing, PreOrder, PostOrder, trie.ForEach, CanonicalSubsequences) x inputs
   (valid and invalid) x every stop position 1..N+1, called directly as seq(yield) and through range+break."""
import cross


def run(ctx):
    thorough = ctx.tier == "thorough"
    ctx.rule = ("T: one session = one (iterator, input): the uninterrupted run, then one run per stop position; "
                "callbacks after `false` are counted by calling the iterator function directly")
    ctx.assumptions += ["the consumer's callback is the only observer; items are interned by content (node ids for traversals)"]
    ctx.model_check("MC_Iter", "MC_Iter_good", workers=4)
    ctx.model_check("MC_Stream", "MC_Stream_t7" if thorough else "MC_Stream_t", workers=16, heap="12g", timeout=3400)
    cross.lineloop(ctx, lambda c: c["stop"] > 0, "stops")
    cross.leg(ctx, "stop-drive", [200 if thorough else 6])
    ctx.exhaustive = True


replay = cross.replay
