"""C13 - 2-bit DNA packing is lossless and append-only.
M: MC_Seq (pack / unpack configurations): every DNA string up to a bound over aAcCgGtT + 'N', every packed string of
   up to 2 (thorough: 3) bytes; the transcription of DNATo2Bit (di, shift, |=) and of the dnaFrom2bit table equals the
   arithmetic definitions Pack / Unpack; PackUnpack, UnpackPack, MsbFirst, PackLen, NtoiIton.  A transcription that
   loses the original len(dst) must be refuted (non-vacuity).
T: every call recorded from the real DNATo2Bit / DNAFrom2Bit / Ntoi / Iton (all strings up to 5 (quick) / 7 (thorough)
   over the 8 letters, all 256 bytes alone and at every position mod 4 for the panic boundary, all 256 + 65 536 packed
   strings, dst prefixes with and without spare capacity, seeded random long inputs) is judged by Trace_Seq."""
import os

import c12


def run(ctx):
    ctx.rule = ("M: one state per byte string up to the bound; T: one event per real call, judged independently "
                "against Seq.tla's property-level operators (PTo2Bit/Pack, PFrom2Bit/Unpack, Ntoi, Iton)")
    ctx.assumptions += c12.ASSUME_COMMON + ["Iton outside 0..3 is outside the statement and not judged"]
    thorough = ctx.tier == "thorough"
    # M
    ctx.model_check("MC_Seq", "MC_Seq_pack5", workers=4)
    ctx.model_check("MC_Seq", "MC_Seq_unpack2", workers=4)
    c12.refuted(ctx, "MC_Seq", "MC_Seq_pack_lostdn", "PackLayer")
    if thorough:
        ctx.model_check("MC_Seq", "MC_Seq_pack7", workers=16, heap="8g", timeout=3000)
        ctx.model_check("MC_Seq", "MC_Seq_unpack3", workers=16, heap="8g", timeout=3000)
    # T
    if thorough:
        for part in range(2, 5):      # inputs beyond 2^20 elements (events 3-5 of the huge family are the 2-bit ones)
            t = c12.drive(ctx, ["seq-drive", "huge", "@OUT@", 0, part, 5], "huge_%d.ndjson" % part)
            c12.judge(ctx, "Trace_Seq", t, "seq", "sequtil", heap="14g", timeout=3000, maxset=100000000)
            os.remove(t)
        parts = 10
        for part in range(parts):
            t = c12.drive(ctx, ["seq-drive", "twobit", "@OUT@", 7, part, parts], "twobit_%d.ndjson" % part)
            c12.judge(ctx, "Trace_Seq", t, "seq", "sequtil", samples=(7, 230001) if part == 0 else (), heap="10g", timeout=3000)
            os.remove(t)
    else:
        t = c12.drive(ctx, ["seq-drive", "twobit", "@OUT@", 5], "twobit.ndjson")
        c12.judge(ctx, "Trace_Seq", t, "seq", "sequtil", samples=(30001, 39400, 41000, 100000))
    ctx.exhaustive = True


def replay(ctx, rp):
    c12.replay_event(ctx, rp)
