"""C15 - the trie behaves as a set of sequences under any history of updates.
M: MC_Trie (complete state graph; implementation layer refines property layer; JSON image)
R: every transition of the dumped graph executed on a real trie (direct / JSON-cloned before / after)
T: random long histories over 2-8 byte alphabets validated by Trace_Trie."""
import json
import os
import random
from collections import deque

import tlaval
import vlib

POOL = [0x00, 0xFF, 0x61, 0x62, 0x20, 0x22, 0x80, 0x0A, 0x7F, 0x30]


def graph_from_dot(ctx, dump_path, amap, maxlen):
    nodes, edges, inits = tlaval.parse_dot(dump_path)
    if len(inits) != 1:
        raise vlib.Machinery("expected one initial state in the dot dump, got %d" % len(inits))
    ids = {nid: i for i, nid in enumerate(nodes)}
    conc = lambda seq: [amap[x] for x in seq]
    adj = {}
    E = []
    for s, d, label in edges:
        name, args = tlaval.parse_action(label)
        if name == "Add":
            op, arg, ret = "add", conc(args[0]), None
        elif name == "Delete":
            op, arg, ret = "del", conc(args[0]), bool(args[1])
        else:
            raise vlib.Machinery("unexpected action label %r" % label)
        E.append({"src": ids[s], "dst": ids[d], "op": op, "arg": arg, "ret": ret})
        adj.setdefault(ids[s], []).append((ids[d], op, arg))
    # BFS tree: a shortest history to every state
    path = {ids[inits[0]]: []}
    dq = deque([ids[inits[0]]])
    while dq:
        u = dq.popleft()
        for v, op, arg in adj.get(u, []):
            if v not in path:
                path[v] = path[u] + [{"op": op, "arg": arg}]
                dq.append(v)
    if len(path) != len(nodes):
        raise vlib.Machinery("state graph not connected from the initial state")
    N = [None] * len(nodes)
    for nid, st in nodes.items():
        i = ids[nid]
        N[i] = {"path": path[i],
                "nodes": sorted(conc(p) for p in st["nodes"]),
                "m": sorted(conc(p) for p in st["m"])}
    alpha = sorted(amap.values())
    probes = [[]]
    frontier = [[]]
    for _ in range(maxlen + 1):
        frontier = [p + [a] for p in frontier for a in alpha]
        probes += frontier
    return {"nodes": N, "edges": E, "probes": probes}


def leg_R(ctx, cfg, alphabet, maxlen, rnd):
    r = ctx.model_check("MC_Trie", cfg, workers=4, dump="dot", count=True)
    reps = rnd.sample(POOL, len(alphabet))
    amap = dict(zip(alphabet, reps))
    g = graph_from_dot(ctx, r["dump"], amap, maxlen)
    gpath = os.path.join(ctx.work, "trie_graph_%s.json" % cfg)
    with open(gpath, "w") as f:
        json.dump(g, f)
    opath = os.path.join(ctx.work, "trie_replay_%s.json" % cfg)
    ctx.vh(["trie-replay", gpath, opath])
    res = json.load(open(opath))
    vlib.log("  [R] %s: %d model transitions x 4 variants executed on the real trie (bytes %s), %d mismatches" % (
        cfg, len(g["edges"]), reps, len(res["mismatches"] or [])))
    ctx.traces += res["executed"]
    ctx.extra["replayed_transitions"] = ctx.extra.get("replayed_transitions", 0) + res["executed"]
    e0 = g["edges"][len(g["edges"]) // 2]
    ctx.sample({"leg": "R", "from_members": g["nodes"][e0["src"]]["m"], "op": e0["op"], "arg": e0["arg"],
                "ret": e0["ret"], "to_members": g["nodes"][e0["dst"]]["m"]})
    seen = set()
    for mm in (res["mismatches"] or []):
        e = g["edges"][mm["case"]]
        key = (mm["case"])
        if key in seen or len(ctx.violations) >= 10:
            continue
        seen.add(key)
        case = {"nodes": [g["nodes"][e["src"]], g["nodes"][e["dst"]]],
                "edges": [dict(e, src=0, dst=1)], "probes": g["probes"]}
        ctx.violation("trie: after history %s, %s(%s) [%s]: %s: got %s, model says %s" % (
            json.dumps(g["nodes"][e["src"]]["path"]), e["op"], e["arg"], mm["variant"], mm["what"], mm["got"], mm["want"]),
            {"leg": "R", "graph": case, "mismatch": mm})


def leg_T(ctx, sessions, ops, only=None):
    tpath = os.path.join(ctx.work, "trie_trace.ndjson")
    args = ["trie-drive", tpath, sessions, ops]
    if only is not None:
        args.append(only)
    ctx.vh(args)
    n, bad = ctx.validate_trace("Trace_Trie", tpath)
    events = vlib.read_ndjson(tpath)
    sids = {e["sid"] for e in events}
    badsids = set()
    for line, why in bad:
        e = events[line - 1]
        if e["sid"] in badsids:
            continue
        badsids.add(e["sid"])
        hist = [[x["op"], x["arg"]] for x in events if x["sid"] == e["sid"] and x["step"] < e["step"]]
        ctx.violation("trie history (sid %d) step %d: %s(%s) rejected by Trace_Trie: %s" % (
            e["sid"], e["step"], e["op"], e["arg"], why),
            {"leg": "T", "sid": e["sid"], "sessions": sessions, "ops": ops, "reason": why, "event": e,
             "history_before": hist[-200:]})
    ctx.traces += len(sids) - len(badsids)
    ctx.extra["trace_events"] = ctx.extra.get("trace_events", 0) + n
    if only is None and events:
        e = events[min(len(events) - 1, 37)]
        ctx.sample({"leg": "T", "event": e})


def run(ctx):
    rnd = random.Random(ctx.seed)
    ctx.rule = ("M: complete state graph of Add/Delete over the alphabet and length bound; R: every edge of that graph "
                "executed on the real trie; T: seeded random histories, one session = one history")
    ctx.assumptions += ["encoding/json round trip of map[byte]*Trie is exercised, not modelled byte for byte",
                        "model byte classes are concretised to real bytes chosen per VERIF_SEED"]
    leg_R(ctx, "MC_Trie_a2l3", [1, 2], 3, rnd)
    if ctx.tier == "thorough":
        leg_R(ctx, "MC_Trie_a3l2", [1, 2, 3], 2, rnd)
        ctx.model_check("MC_Trie", "MC_Trie_a2l4", workers=16, heap="8g", timeout=3000)
        leg_T(ctx, 400, 1000)
    else:
        leg_T(ctx, 40, 150)
    ctx.exhaustive = True


def replay(ctx, rp):
    if rp["leg"] == "R":
        gpath = os.path.join(ctx.work, "g.json")
        json.dump(rp["graph"], open(gpath, "w"))
        opath = os.path.join(ctx.work, "o.json")
        ctx.vh(["trie-replay", gpath, opath])
        res = json.load(open(opath))
        ctx.traces += res["executed"]
        for mm in (res["mismatches"] or []):
            ctx.violation("replayed: %s" % json.dumps(mm), rp, name="replayed")
    else:
        leg_T(ctx, rp["sessions"], rp["ops"], only=rp["sid"])
