"""C20 - substitution matrices are built faithfully from tables and by mirroring.
M: MC_Smtext (every text <= 6 (thorough 8) bytes over {'#',LF,SP,TAB,'A','*','1'}: transcription of ReadNCBI = property-level
   reading of the line/token structure), MC_SmtextTables (tables over {A,C,*}: every layout denotes the table, '*' is Gap,
   every named single-token corruption is an error without matrix), MC_Matrix (Symmetrical's loop in every map iteration
   order = m u mirror(m) / panic iff conflict; GoString order).  Four broken variants must be refuted.
T: smtext-drive (seeded tables, layouts, corruptions -> Trace_Smtext), matrix-drive (Symmetrical on partial matrices with and
   without conflicts, GoString re-evaluated with go/parser + go/constant, the flow of align/genncbi -> Trace_Matrix)."""
import os

import vlib

BROKEN = [("MC_Matrix", "MC_Matrix_nocheck", "SymmetricalRefines"),
          ("MC_Matrix", "MC_Matrix_order", "GoStringBySecondByte"),
          ("MC_Smtext", "MC_Smtext_unguarded", "MachineIsDenoteUnguarded"),
          ("MC_SmtextTables", "MC_SmtextTables_nostar", "LayoutFreeNoStar")]


def refuted(ctx, module, cfg, inv):
    r = ctx.tlc(module, cfg, workers=1, allow_violation=True, timeout=300)
    if ("Invariant %s is violated" % inv) not in r["out"]:
        raise vlib.Machinery("non-vacuity: TLC did not refute %s in the broken variant %s" % (inv, cfg))
    vlib.log("  [M] %s: broken variant refuted (%s violated, as required)" % (cfg, inv))


def leg_M(ctx):
    t = ctx.tier == "thorough"
    w = 16 if t else 8
    ctx.model_check("MC_Matrix", "MC_Matrix_t" if t else "MC_Matrix", workers=w, timeout=3000)
    ctx.model_check("MC_Smtext", "MC_Smtext_bytes8" if t else "MC_Smtext_bytes6", workers=w, heap="8g", timeout=3000)
    ctx.model_check("MC_SmtextTables", "MC_SmtextTables_t" if t else "MC_SmtextTables", workers=w, heap="8g", timeout=3000)
    if t:   # 3 x 3 with every row and column permutation (one score token)
        ctx.model_check("MC_SmtextTables", "MC_SmtextTables_t33", workers=w, heap="8g", timeout=3000)
    for module, cfg, inv in BROKEN:
        refuted(ctx, module, cfg, inv)


def text_of(ints):
    return bytes(ints).decode("latin1")


def name(b):
    return "Gap" if b == 255 else (repr(chr(b)) if 32 <= b < 127 else "0x%02x" % b)


def pairs(tr, limit=12):
    s = ", ".join("(%s,%s)=%s" % (name(t[0]), name(t[1]), score(t[2])) for t in tr[:limit])
    return "{" + s + (", ... %d pairs" % len(tr) if len(tr) > limit else "") + "}"


def score(atom):
    import struct
    try:
        return repr(struct.unpack(">d", bytes.fromhex(atom))[0])
    except Exception:
        return atom


def describe_sm(e):
    return "ReadNCBI(%r) [%s: %s] -> err=%s nil=%s %s %s" % (
        text_of(e["text"])[:400], e["kind"], e["note"], e["err"], e["nilm"], pairs(e["res"]), e["msg"][:120])


def describe_mx(e):
    if e["op"] == "symmetrical":
        return "Symmetrical(%s) [%s] -> panic=%s result %s, receiver afterwards %s" % (
            pairs(e["m"]), e["note"], e["panic"], pairs(e["res"]), "unchanged" if e["after"] == e["m"] else pairs(e["after"]))
    return "GoString(%s) [%s] -> go/parser ok=%s, denotes %s %s" % (
        pairs(e["m"]), e["note"], e["parseok"], pairs(e["out"]), e["msg"][:160])


def leg_T(ctx, which, sessions, only=None):
    drive, module, describe = {"smtext": ("smtext-drive", "Trace_Smtext", describe_sm),
                               "matrix": ("matrix-drive", "Trace_Matrix", describe_mx)}[which]
    tpath = os.path.join(ctx.work, which + "_trace.ndjson")
    args = [drive, tpath, sessions]
    if only is not None:
        args.append(only)
    ctx.vh(args)
    n, bad = ctx.validate_trace(module, tpath, timeout=3000)
    events = vlib.read_ndjson(tpath)
    sids = {e["sid"] for e in events}
    badsids = set()
    for line, why in bad:
        e = events[line - 1]
        if why.startswith("driver-") or why.startswith("spec-"):
            raise vlib.Machinery("%s: inconsistency of the machinery (%s) at trace line %d: %s" % (module, why, line, describe(e)[:600]))
        if why.startswith("NOTE-"):     # behaviour beyond the listed properties (Get, Step.String): reported, never a violation
            ctx.note("%s: %s at trace line %d (x=%s y=%s panic=%s)" % (module, why, line, e.get("x"), e.get("y"), e.get("panic")))
            continue
        if e["sid"] in badsids:
            continue
        badsids.add(e["sid"])
        ctx.violation("%s session %d step %d: %s rejected by %s: %s" % (which, e["sid"], e["step"], describe(e), module, why),
                      {"leg": "T", "which": which, "sid": e["sid"], "sessions": sessions, "reason": why, "event": e})
    ctx.traces += len(sids) - len(badsids)
    ctx.extra["trace_events"] = ctx.extra.get("trace_events", 0) + n
    if only is None:
        kinds = {}
        for e in events:
            if which == "smtext":
                key = "%s/%s" % (e["kind"], "error" if e["err"] else "matrix")
            else:
                key = "%s/%s" % (e["op"], "panic" if e["panic"] else ("ok" if e["op"] != "gostring" or e["parseok"] else "unparsed"))
            kinds[key] = kinds.get(key, 0) + 1
        ctx.extra["trace_" + which] = kinds
        vlib.log("  [T] %s: %d sessions: %s" % (which, len(sids), ", ".join("%s %d" % kv for kv in sorted(kinds.items()))))
        seen = set()
        for e in events:
            key = (e.get("kind"), e["err"]) if which == "smtext" else (e["op"], e["panic"])
            if key in seen or len(e.get("text", [])) > 160 or len(e.get("m", [])) > 8:
                continue
            if which == "smtext" and (len(e["res"]) < 2 and not e["err"]):
                continue
            if which == "matrix" and (len(e["m"]) < 2 or e["op"] in ("get", "stepname")):
                continue
            seen.add(key)
            if len(seen) <= 3:
                ctx.sample({"leg": "T", "accepted": describe(e)})


def run(ctx):
    ctx.rule = ("M: every short text / every small table x layout x corruption / every partial matrix x iteration order; "
                "T: one session = one table in several layouts plus single-token corruptions (ReadNCBI), or a batch of "
                "matrices (Symmetrical, GoString, genncbi flow)")
    ctx.assumptions += [
        "strconv.ParseFloat is trusted: for every token the driver wrote, the harness records whether it parses and the "
        "float64 bits of its value; the specification compares those atoms with the bits ReadNCBI returned",
        "the Go source printed by GoString is evaluated with go/parser + go/constant (untyped constant -> nearest float64), "
        "as the compiler would; -0, NaN and infinities are outside the driver's domain",
        "ReadNCBI domain (conservative): comment lines have '#' in column 0, empty lines are empty (no blanks-only lines), "
        "labels are printable ASCII, distinct per side and never '#' as the first token of a line; lines shorter than bufio's 64 KiB token limit",
    ]
    leg_M(ctx)
    t = ctx.tier == "thorough"
    leg_T(ctx, "smtext", 320 if t else 48)
    leg_T(ctx, "matrix", 400 if t else 64)
    ctx.exhaustive = True


def replay(ctx, rp):
    leg_T(ctx, rp["which"], rp["sessions"], only=rp["sid"])
