"""C04 - BED lines with 3..12 fields survive write -> read.
M: MC_Bed record (n in 0..14 x <= 2 replaced fields: Refuse, LineContract, RoundTrip) and file (same-count rule, comments, blank lines)
R: the model's canonical lines and files read by the real Reader
T: every n in 3..12 x seeded contents (quotes, extreme ints, all RGB bytes, block lists), files of 1-20 records sharing n,
   Write with n outside 3..12 must refuse; Trace_Bed."""
import json
import os

import vlib
import codec


def run(ctx):
    thorough = ctx.tier == "thorough"
    ctx.rule = ("M: baseline record x n in 0..14 x <= 2 fields replaced from pools; files <= 3/4 lines of 8 kinds x 3 terminators; "
                "R: every emitted line/file; T: one session = one file of records sharing n, plus one refused write")
    ctx.assumptions += ["strconv int text trusted; RGB tokens: the table of tokens ParseUint(tok,0,8) accepts travels with the event",
                        "domain: a block count that is written without both lists (n = 10, 11) is 0 (DESIGN.md C04)"]
    ctx.model_check("MC_Bed", "MC_Bed_record", workers=8)
    ctx.model_check("MC_Bed", "MC_Bed_file_t" if thorough else "MC_Bed_file_q", workers=8)
    cases = []
    for cfg in ("MC_Bed_record_emit", "MC_Bed_file_emit"):
        r = ctx.model_check("MC_Bed", cfg, workers=4, count=False)
        cases += codec.emitted_cases(r["out"])
    for c in cases:
        for it in c["items"]:
            it.setdefault("n", 0)
            it.setdefault("f", [])
    codec.replay_cases(ctx, "bed-replay", cases, "bed text", lambda c: "text=%s" % bytes(c["text"]))
    vlib.log("  [R] %d model texts (canonical lines of every n, files) read by the real Reader" % len(cases))
    leg_T(ctx, 3000 if thorough else 100)
    ctx.exhaustive = True


def leg_T(ctx, sessions, only=None):
    tpath = os.path.join(ctx.work, "bed_trace.ndjson")
    ctx.vh(["bed-drive", tpath, sessions] + ([only] if only is not None else []))
    codec.judge_trace(ctx, "Trace_Bed", tpath, {"driver": "bed-drive", "sessions": sessions},
                      describe=lambda e: ("write n=%d %s -> %s werr=%s" % (e["rec"]["n"], [bytes(x) for x in e["rec"]["f"]], bytes(e["bw"])[:200], e["werr"])
                                          if e["op"] == "write" else
                                          "read of %s: %d items (%s), wanted %d" % (bytes(e["bytes"])[:300], len(e["items"]),
                                                                                  "".join(i["k"][0] for i in e["items"][:40]), len(e["want"]))))


def replay(ctx, rp):
    if rp["leg"] == "R":
        codec.replay_cases(ctx, rp["cmd"], [rp["case"]], "replayed", lambda c: "replayed")
    else:
        leg_T(ctx, rp["sessions"], only=rp["sid"])
