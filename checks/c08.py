"""C08 - alignments returned by Global and Local are valid and score what they claim.
M: MC_Align_C08 - every pair up to length 3 (thorough: 4) over 2 letters x the parametric matrix family: the
   transcription of global.go / local.go (fill, decideOnStep, traceback, offset conversion) returns valid steps whose
   documented score is the returned score; NoPositive => no steps and 0.  MC_Align_openevery (gap-open charged on
   every gap step) must be refuted.
T: seeded calls of the real align.Global / align.Local (exhaustive small pairs x seeded integer matrices, random pairs
   up to 60 / 200 over 4 and 23 letters, every shipped matrix, Levenshtein, empty sequences) validated event by event
   by Trace_Align in mode C08.  Only validity, the re-computed score, inputs and panics are judged - never the
   particular steps.

This module also holds the helpers shared by c09.py and c10.py (same specification, same harness commands)."""
import json
import os

import vlib

ASSUMPTIONS = [
    "scores are float64 in Go; the drivers use integer-valued matrices so that scores project to ints exactly "
    "(a non-integral returned score is recorded as frac=true and rejected by the specification)",
    "'does not modify its inputs' is observed as before/after values of a, b and the matrix",
    "model letters are concretised to real bytes (never 255) chosen per VERIF_SEED",
]


def bstr(xs):
    return repr(bytes(xs))[1:]


def table_spec(tev):
    """The plan entry that re-creates the matrix of a recorded table event (shipped ones are re-read from the package)."""
    if tev["kind"] == "seeded":
        return {"name": tev["name"], "kind": "seeded", "alpha": tev["alpha"], "es": tev["es"]}
    if tev["kind"] == "shipped":
        return {"name": tev["name"], "kind": "shipped"}
    return {"name": tev["name"], "kind": "lev", "alpha": tev["alpha"]}


def plan_of(events, line):
    e = events[line - 1]
    if e["op"] in ("global", "local"):
        return {"tables": [table_spec(events[e["m"] - 1])], "levtable": False,
                "cases": [{"op": e["op"], "t": 0, "a": e["a"], "b": e["b"]}]}
    if e["op"] == "table":
        return {"tables": [table_spec(e)], "levtable": False, "cases": []}
    return {"tables": [], "levtable": True, "cases": []}


def describe(events, line):
    e = events[line - 1]
    if e["op"] in ("global", "local"):
        t = events[e["m"] - 1]
        m = t["name"] if t["kind"] != "seeded" else "%s %s" % (t["name"], json.dumps(t["es"], separators=(",", ":")))
        if len(m) > 300:
            m = m[:300] + "..."
        ret = "panic: %s" % e["panic_msg"] if e["panic"] else "steps=%s%s score=%d" % (
            "".join(str(s) for s in e["steps"]) or "none",
            " ai=%d bi=%d" % (e["ai"], e["bi"]) if e["op"] == "local" else "", e["score"])
        return "align.%s(%s, %s, %s) returned %s" % (e["op"].capitalize(), bstr(e["a"]), bstr(e["b"]), m, ret)
    if e["op"] == "table":
        return "matrix %s (%d entries read from the package)" % (e["name"], len(e["es"]))
    return "align.Levenshtein (%d entries)" % len(e.get("es", []))


def slim(e):
    e = dict(e)
    if "es" in e and len(e["es"]) > 40:
        e["es"] = e["es"][:40] + ["... %d entries" % len(e["es"])]
    return e


def run_trace(ctx, prop, plan=None, tag="T"):
    """Drive the real code (seeded plan of `prop`, or the given plan), validate with Trace_Align in mode `prop`.
    Returns (events, bad)."""
    ctx._align_n = getattr(ctx, "_align_n", 0) + 1
    tpath = os.path.join(ctx.work, "align_%s_%d.ndjson" % (prop, ctx._align_n))
    if plan is None:
        ctx.vh(["align-drive", tpath, prop])
    else:
        ppath = os.path.join(ctx.work, "align_plan_%d.json" % ctx._align_n)
        with open(ppath, "w") as f:
            json.dump(plan, f)
        ctx.vh(["align-replay", ppath, tpath])
    n, bad = ctx.validate_trace("Trace_Align", tpath, cfg="Trace_Align_" + prop,
                                timeout=3000 if ctx.tier == "thorough" else 900)
    return vlib.read_ndjson(tpath), bad


def report(ctx, prop, events, bad, leg, name=None):
    """Turn the specification's rejections into verdicts. Returns the number of accepted alignment events."""
    ood = []
    rejected = 0
    for line, why in bad:
        if why == "out-of-domain":
            ood.append(line)
            continue
        rejected += 1 if events[line - 1]["op"] in ("global", "local") else 0
        text = "%s: rejected by Trace_Align[%s]: %s" % (describe(events, line), prop, why)
        obj = {"leg": leg, "plan": plan_of(events, line), "reason": why, "event": slim(events[line - 1])}
        if why.startswith("KF_SingleStateAffine") and (not name or any(k["class"] == "KF_SingleStateAffine" for k in ctx.known)):
            # the specification's classification predicate holds; a known finding only if KNOWN_FINDINGS.txt lists the class
            if ctx.classify("KF_SingleStateAffine", text, obj) is None:
                ctx.extra["known_finding_example"] = ctx.extra.get("known_finding_example") or text
        elif name:
            ctx.violation(text, obj, name=name)
        else:
            ctx.violation(text, obj)
    if ood and not ctx.violations:
        raise vlib.Machinery("driver produced %d events outside the property's domain, e.g. line %d: %s" % (
            len(ood), ood[0], describe(events, ood[0])))
    nal = sum(1 for e in events if e["op"] in ("global", "local"))
    ctx.extra["trace_events"] = ctx.extra.get("trace_events", 0) + len(events)
    ctx.extra["alignment_calls_judged"] = ctx.extra.get("alignment_calls_judged", 0) + nal
    return nal - rejected


def sample_events(ctx, events, leg, want=3):
    al = [e for e in events if e["op"] in ("global", "local")]
    if not al:
        return
    for k in range(want):
        e = al[(len(al) * (2 * k + 1)) // (2 * want)]
        t = events[e["m"] - 1]
        ctx.sample({"leg": leg, "op": e["op"], "matrix": t["name"], "a": bstr(e["a"]), "b": bstr(e["b"]),
                    "steps": e["steps"], "ai": e["ai"], "bi": e["bi"], "score": e["score"], "panic": e["panic"]})


def must_refute(ctx, cfg, invariant):
    r = ctx.tlc("MC_Align", cfg, workers=4, allow_violation=True, timeout=600)
    if "Invariant %s is violated" % invariant not in r["out"]:
        raise vlib.Machinery("non-vacuity: the broken model %s was not refuted (%s)" % (cfg, invariant))
    vlib.log("  [M] %s: %s refuted on the deliberately broken variant, as required" % (cfg, invariant))


def leg_M(ctx, cfgs):
    for cfg in cfgs:
        ctx.model_check("MC_Align", cfg, workers=16 if ctx.tier == "thorough" else 8, heap="8g", timeout=3000)


def leg_T(ctx, prop):
    events, bad = run_trace(ctx, prop)
    ctx.traces += report(ctx, prop, events, bad, "T")
    sample_events(ctx, events, "T")
    return events, bad


def replay_plan(ctx, prop, rp):
    events, bad = run_trace(ctx, prop, plan=rp["plan"])
    ctx.traces += report(ctx, prop, events, bad, rp.get("leg", "T"), name="replayed")
    for e in events:
        if e["op"] in ("global", "local"):
            vlib.log("  replayed: " + describe(events, events.index(e) + 1))


def run(ctx):
    ctx.rule = ("M: all pairs up to the length bound over 2 letters x the parametric integer matrix family; "
                "T: one accepted event = one recorded call of the real Global/Local, judged by Score/ValidGlobal/ValidLocal/"
                "NoPositive of Align.tla")
    ctx.assumptions += ASSUMPTIONS
    leg_M(ctx, ["MC_Align_C08_t" if ctx.tier == "thorough" else "MC_Align_C08"])
    must_refute(ctx, "MC_Align_openevery", "ScoreConsistent")
    leg_T(ctx, "C08")
    ctx.exhaustive = True


def replay(ctx, rp):
    replay_plan(ctx, "C08", rp)
