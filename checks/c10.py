"""C10 - with a non-zero gap-open Global and Local still return the optimal score.   (KNOWN FINDING D7)
M: MC_Align_C10 - TLC computes, for every pair up to length 3 (thorough: 4) over 2 letters x the matrix family, what the
   transcription of global.go / local.go returns and Gotoh's optimum.  AffineOptimal (open # 0 => equal) is REFUTED by
   TLC on the model (MC_Align_affine); the configuration therefore does not assert it: the state dump is read and
   Bad = {(a, b, m) : open # 0 and SingleState < Opt} is enumerated.
R: every element of Bad and a seeded sample of its complement is run through the real align.Global / align.Local;
   only the real outcome counts.
T: recorded calls with gap-open # 0 (seeded matrices; exhaustive small pairs, random pairs up to 60 / 200).
Judgement (Trace_Align, mode C10): score = Opt accepted; otherwise KF_SingleStateAffine(e) == open # 0 and
   score = SingleState(a, b, m) (the spec's transcription of the current algorithm) and score < Opt and all C08
   predicates hold -> KNOWN-FINDING if KNOWN_FINDINGS.txt lists that class; anything else (above the optimum, neither
   the optimum nor the single-table value, a C08 failure, a panic) is a VIOLATION."""
import os
import random

import c08
import tlaval
import vlib

POOL = [0x61, 0x62, 0x41, 0x43, 0x47, 0x54, 0x00, 0x01, 0xFE, 0x20, 0x0A, 0x80, 0x2D]


def model_cases(ctx, cfg):
    r = ctx.model_check("MC_Align", cfg, workers=16 if ctx.tier == "thorough" else 8, heap="8g", timeout=3000, dump="states")
    states = [s for s in tlaval.parse_dump(r["dump"]) if s["ph"] == "case"]
    if not states:
        raise vlib.Machinery("no case states in the dump of " + cfg)
    out = []
    for s in states:
        p, rr = s["p"], s["r"]
        out.append({"a": list(s["a"]), "b": list(s["b"]),
                    "p": (p["mt"], p["up"], p["lo"], p["gd"], p["gi"], p["op"]),
                    "sg": rr["g"]["score"], "og": rr["og"], "sl": rr["l"]["score"], "ol": rr["ol"]})
    out.sort(key=lambda c: (c["p"], c["a"], c["b"]))
    return out


def matrix_entries(p, x1, x2):
    mt, up, lo, gd, gi, op = p
    alpha = sorted([x1, x2, 255])
    model = {x1: 1, x2: 2, 255: 255}

    def val(x, y):
        mx, my = model[x], model[y]
        if mx == 255 and my == 255:
            return op
        if my == 255:
            return gd
        if mx == 255:
            return gi
        if mx == my:
            return mt
        return up if mx < my else lo
    return alpha, [[x, y, val(x, y)] for x in alpha for y in alpha]


def leg_R(ctx, cfg, rnd):
    cases = model_cases(ctx, cfg)
    aff = [c for c in cases if c["p"][5] != 0]
    bad = [c for c in aff if c["sg"] < c["og"] or c["sl"] < c["ol"]]
    above = [c for c in cases if c["sg"] > c["og"] or c["sl"] > c["ol"]]
    if above:
        raise vlib.Machinery("model: single-table score above the optimum: %s" % above[0])
    good = [c for c in aff if not (c["sg"] < c["og"] or c["sl"] < c["ol"])]
    nsample = 3000 if ctx.tier == "thorough" else 400
    sample = rnd.sample(good, min(nsample, len(good)))
    vlib.log("  [M] %s: %d cases with gap-open # 0; Bad (model predicts a sub-optimal score) = %d (%d global, %d local); "
             "replaying Bad and %d of the complement" % (cfg, len(aff), len(bad), sum(1 for c in bad if c["sg"] < c["og"]),
                                                          sum(1 for c in bad if c["sl"] < c["ol"]), len(sample)))
    for c in bad[:3]:
        vlib.log("      Bad: a=%s b=%s match=%d mismatch=%d/%d gap=%d/%d open=%d: single-table %d, optimum %d%s" % (
            c["a"], c["b"], c["p"][0], c["p"][1], c["p"][2], c["p"][3], c["p"][4], c["p"][5], c["sg"], c["og"],
            "" if c["sl"] == c["ol"] else " (local %d vs %d)" % (c["sl"], c["ol"])))
    ctx.extra["model_affine_cases"] = len(aff)
    ctx.extra["model_bad"] = len(bad)
    x1, x2 = rnd.sample(POOL, 2)
    conc = {1: x1, 2: x2}
    tables, tindex, plan_cases, expect = [], {}, [], []
    for c, isbad in [(c, True) for c in bad] + [(c, False) for c in sample]:
        if c["p"] not in tindex:
            alpha, es = matrix_entries(c["p"], x1, x2)
            tindex[c["p"]] = len(tables)
            tables.append({"name": "model-%d" % len(tables), "kind": "seeded", "alpha": alpha, "es": es})
        a, b = [conc[x] for x in c["a"]], [conc[x] for x in c["b"]]
        for op, s, o in (("global", c["sg"], c["og"]), ("local", c["sl"], c["ol"])):
            if isbad and not s < o:
                continue
            plan_cases.append({"op": op, "t": tindex[c["p"]], "a": a, "b": b})
            expect.append((s, o))
    plan = {"tables": tables, "cases": plan_cases, "levtable": False}
    events, rej = c08.run_trace(ctx, "C10", plan=plan)
    ctx.traces += c08.report(ctx, "C10", events, rej, "R")
    al = [e for e in events if e["op"] in ("global", "local")]
    if len(al) != len(expect):
        raise vlib.Machinery("replayed %d model cases, recorded %d events" % (len(expect), len(al)))
    rejected = {line for line, _ in rej}
    first = len(events) - len(al) + 1
    drift = gone = confirmed = 0
    for k, (e, (s, o)) in enumerate(zip(al, expect)):
        if e["panic"]:
            continue
        if e["score"] != s:
            drift += 1
        if s < o and e["score"] == o:
            gone += 1
        if s < o and e["score"] == s:
            confirmed += 1
        # the trace specification and the model must agree on what the optimum is
        if (e["score"] == o) != ((first + k) not in rejected):
            raise vlib.Machinery("model and trace specification disagree on the optimum of replayed case %d" % k)
    vlib.log("  [R] %d model cases executed on the real aligners (letters %s): %d of the %d predicted sub-optimal results "
             "confirmed, %d now optimal, %d results differ from the single-table model" % (
                 len(al), [x1, x2], confirmed, sum(1 for s, o in expect if s < o), gone, drift))
    ctx.extra["replayed_model_cases"] = len(al)
    ctx.extra["bad_confirmed_on_real_code"] = confirmed
    if drift:
        ctx.note("drift: %d replayed results differ from the single-table transcription in Align.tla" % drift)
    if gone:
        ctx.note("%d model-predicted counterexamples are optimal on the real code" % gone)
    for e in [x for x in al if x["score"] != 0][:1] + al[len(al) // 2:len(al) // 2 + 1]:
        t = events[e["m"] - 1]
        ctx.sample({"leg": "R", "op": e["op"], "matrix": t["es"], "a": c08.bstr(e["a"]), "b": c08.bstr(e["b"]),
                    "steps": e["steps"], "score": e["score"]})


def run(ctx):
    rnd = random.Random(ctx.seed * 7919 + 10)
    ctx.rule = ("M: all pairs up to the length bound over 2 letters x the parametric matrix family, Bad enumerated from the "
                "state dump; R: every element of Bad + a sample of the complement executed on the real aligners; "
                "T: one accepted event = one recorded call with gap-open # 0 whose score equals the specification's optimum; "
                "sub-optimal results are accepted only as the listed known finding KF_SingleStateAffine")
    ctx.assumptions += c08.ASSUMPTIONS + [
        "the optimum is computed by the specification's Gotoh recurrence (model-checked against brute force in C09's leg M)",
        "C10 is a known finding (D7): the check exits 0 while KNOWN_FINDINGS.txt lists class KF_SingleStateAffine and every "
        "sub-optimal result is exactly the single-table value with all C08 predicates holding",
    ]
    r = ctx.tlc("MC_Align", "MC_Align_affine", workers=4, allow_violation=True, timeout=600)
    if "Invariant AffineOptimal is violated" in r["out"]:
        vlib.log("  [M] MC_Align_affine: AffineOptimal is refuted by TLC on the model (expected: defect D7)")
        ctx.extra["affine_optimal_refuted_on_model"] = True
    elif r["ok"]:
        ctx.note("AffineOptimal now holds on the model: the known finding D7 should disappear")
        ctx.extra["affine_optimal_refuted_on_model"] = False
    else:
        raise vlib.Machinery("TLC failed on MC_Align_affine:\n" + r["out"][-2000:])
    leg_R(ctx, "MC_Align_C10_t" if ctx.tier == "thorough" else "MC_Align_C10", rnd)
    c08.leg_T(ctx, "C10")
    ctx.exhaustive = True


def replay(ctx, rp):
    c08.replay_plan(ctx, "C10", rp)
