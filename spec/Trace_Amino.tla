---------------------------- MODULE Trace_Amino ----------------------------
(* Leg T of C14: calls of the real Translate / TranslateReadingFrames / AminoName recorded by
   `vh amino-drive` / `vh amino-exec`, one event per call, judged against the property-level layer
   of Amino.tla (the NCBI table-1 string).  Events are independent; every rejected event is listed
   with the clause it breaks (cut at MaxBad entries).

   event shapes:
     translate [dst, cap, src, panic, out, dst_after]
     concat    [a, bs, panic, ta, tb, tab]           three real translations: of a, of bs, of a \o bs
     frames    [seq, panic, out]                     out = the three frames (<<>> when panicked)
     aminoname [b, panic, code, name] *)
EXTENDS Amino, TLC, Json

Trace == ndJsonDeserialize("trace.ndjson")
MaxBad == 40

VARIABLES l, bad
tvars == <<l, bad>>

WhyTranslate(e) ==
  IF Len(e.src) % 3 # 0 THEN (IF e.panic THEN "ok" ELSE "translate-no-panic-on-bad-length")
  ELSE IF ~Over(e.src, Nucs) THEN (IF e.panic THEN "ok" ELSE "translate-no-panic-on-foreign-base")
  ELSE IF e.panic THEN "translate-panic-on-legal-input"
  ELSE IF Len(e.out) < Len(e.dst) \/ SubSeq(e.out, 1, Len(e.dst)) # e.dst THEN "translate-dst-prefix-not-kept"
  ELSE IF Len(e.out) # Len(e.dst) + Len(e.src) \div 3 THEN "translate-one-letter-per-codon"
  ELSE IF e.out # e.dst \o Translate(e.src) THEN "translate-genetic-code"
  ELSE IF e.dst_after # e.dst THEN "translate-dst-modified"
  ELSE "ok"

WhyConcat(e) ==
  IF Len(e.a) % 3 # 0 \/ Len(e.bs) % 3 # 0 \/ ~Over(e.a, Nucs) \/ ~Over(e.bs, Nucs) THEN "ok"
  ELSE IF e.panic THEN "translate-panic-on-legal-input"
  ELSE IF e.tab # e.ta \o e.tb THEN "translate-concatenation"
  ELSE IF e.tab # Translate(e.a \o e.bs) THEN "translate-genetic-code"
  ELSE "ok"

\* any length, including 0, 1 and 2.  The statement defines frame i as Translate of a piece of the sequence: it is judged
\* whenever all three pieces are over aAcCgGtT (a foreign byte that falls outside every piece - e.g. the sequence "N" - must
\* not make the function panic: the pieces are empty)
FramePiece(seq, f) == Trunc3(Drop(seq, Least(f - 1, Len(seq))))
WhyFrames(e) ==
  \* a foreign base inside a piece: that frame "equals Translate of the piece", and Translate of such a piece panics
  IF \E f \in 1..3 : ~Over(FramePiece(e.seq, f), Nucs) THEN (IF e.panic THEN "ok" ELSE "frames-no-panic-on-foreign-base")
  ELSE IF e.panic THEN "frames-panic"
  ELSE IF Len(e.out) # 3 THEN "frames-shape"
  ELSE IF e.out # Frames(e.seq) THEN "frames-result"
  ELSE "ok"

WhyAminoName(e) ==
  IF e.b \notin Byte THEN "ok"
  ELSE IF e.b \notin AminoNameBytes THEN (IF e.panic THEN "ok" ELSE "aminoname-no-panic-on-foreign-byte")
  ELSE IF e.panic THEN "aminoname-panic-on-amino-letter"
  ELSE IF Len(e.code) = 0 \/ Len(e.name) = 0 THEN "aminoname-empty"
  ELSE "ok"

Why(e) == CASE e.op = "translate" -> WhyTranslate(e)
            [] e.op = "concat"    -> WhyConcat(e)
            [] e.op = "frames"    -> WhyFrames(e)
            [] e.op = "aminoname" -> WhyAminoName(e)
            [] OTHER              -> "unknown-op"

TInit == l = 1 /\ bad = <<>>

TNext == /\ l <= Len(Trace)
         /\ LET why == Why(Trace[l])
            IN  bad' = IF why = "ok" \/ Len(bad) >= MaxBad THEN bad ELSE Append(bad, <<l, why>>)
         /\ l' = l + 1

TSpec == TInit /\ [][TNext]_tvars

Done == (l = Len(Trace) + 1) => PrintT(<<"VERDICT", l - 1, bad>>)
=============================================================================
