CONSTANTS
  Vals = {1,2,3,4,5,6}
  MaxPush = 5
  MaxN = 3
INIT Init
NEXT Next
INVARIANTS OrderFree Incremental ViewOK TailLaw Bounded
CHECK_DEADLOCK FALSE
