---------------------------- MODULE Trace_Mash ----------------------------
(* Leg T of C17: calls of mash.Sequences / Add / Distance / FromJaccard recorded from the real code
   (harness: `vh mash-drive`), one event per call at its return, judged by the property-level layer
   of Mash.tla.

   event = [sid, op \in {"sketch","add","distance","fromjaccard"}, n, k,
            fresh  (sketch/add: TRUE = a new MinHash, FALSE = Add to the session's MinHash),
            same   (the driver claims: the content now equals the session's reference content),
            seqs, seqs2 : sequences of [s  : the bytes given to the code,
                                        rc : the driver's reverse complement of the upper-cased s,
                                        hf : rank of murmur3(upper(s)[i..i+k-1]) for every position i,
                                        hr : rank of murmur3(rc[i..i+k-1])]
                          (distance: seqs = side A, seqs2 = side B, both sketched with n, k),
            view   (View() as ranks), d, dr (10^8 * distance A-B and B-A, rounded), jn, jd (jaccard = jn/jd),
            panic  (the call panicked),
            invs, invp (only for events over millions of k-mers, else <<>>: see IndexOK / RanksByIndex)]

   The hash is uninterpreted: the harness hashes every k-substring of both strands with murmur3
   directly; the specification decides which strand is canonical, de-duplicates and selects the n
   smallest.  Ranks are taken over all 64-bit values of one session (strictly monotone, injective). *)
EXTENDS Mash, TLC, Json

Trace == ndJsonDeserialize("trace.ndjson")

VARIABLES l, sid, bad, fsid,
          K,        \* hash content of the session's current MinHash object
          refK, ref, refn, \* content, view and n of the session's first sketch (reference for `same` and TailLaw)
          pj, pd    \* previous fromjaccard event of the session: <<jn, jd, k>>, d
tvars == <<l, sid, bad, fsid, K, refK, ref, refn, pj, pd>>

\* the spec's own reverse complement must agree with the strand the driver hashed
RecOK(r, k) == /\ r.rc = RevComp(UpperSeq(r.s))
               /\ Len(r.hf) = NKmers(r.s, k) /\ Len(r.hr) = NKmers(r.s, k)
DriverOK(e) == /\ \A i \in 1..Len(e.seqs)  : RecOK(e.seqs[i], e.k)
               /\ \A i \in 1..Len(e.seqs2) : RecOK(e.seqs2[i], e.k)

\* hash ranks of the canonical k-mers of one sequence: the k-mer at position i of the upper-cased
\* sequence has its reverse complement at position L-i-k+2 of rc
SeqRanks(r, k) ==
  LET u == UpperSeq(r.s) \o <<>>      \* (\o turns the function into an explicit tuple once; SubSeq of a function costs its whole length)
      L == Len(u)
  IN { LET x == SubSeq(u, i, i + k - 1)
           j == L - i - k + 2
       IN IF Greater(x, SubSeq(r.rc, j, j + k - 1)) THEN r.hr[j] ELSE r.hf[i]
       : i \in 1..NKmers(u, k) }
\* (a fold of \cup rather than UNION: TLC builds the result of UNION by sorted insertion, quadratic on a million ranks)
Ranks(recs, k) == LET f(acc, r) == acc \cup SeqRanks(r, k) IN FoldLeft(f, {}, recs)

(* Events over millions of k-mers carry an index (invs, invp) from rank to one place where a k-mer of that rank stands.  Whether
   a rank is a canonical one depends on the k-mer's content only (the content c is canonical iff c is not greater than its reverse
   complement, wherever it stands), so the canonical ranks are { x : the k-mer at the indexed place is not greater than its mate }
   - enumerated over 1..R in ascending order, which is the order in which TLC can build a large set in linear time.  The index
   is checked against the strand tables (IndexOK): every entry points to a k-mer of that rank, every rank that occurs is indexed. *)
HasIndex(e) == e.invs # <<>>
IndexOK(e) ==
  /\ Len(e.invp) = Len(e.invs)
  /\ \A x \in 1..Len(e.invs) :
        e.invs[x] # 0 => /\ e.invs[x] \in 1..Len(e.seqs)
                         /\ LET r == e.seqs[e.invs[x]]  p == e.invp[x]
                            IN IF p > 0 THEN p <= Len(r.hf) /\ r.hf[p] = x
                               ELSE p < 0 /\ 0 - p <= Len(r.hr) /\ r.hr[0 - p] = x
  /\ \A s \in 1..Len(e.seqs) : \A i \in 1..Len(e.seqs[s].hf) :
        /\ e.seqs[s].hf[i] \in 1..Len(e.invs) /\ e.invs[e.seqs[s].hf[i]] # 0
        /\ e.seqs[s].hr[i] \in 1..Len(e.invs) /\ e.invs[e.seqs[s].hr[i]] # 0
RanksByIndex(e) ==
  LET U == [s \in 1..Len(e.seqs) |-> UpperSeq(e.seqs[s].s) \o <<>>] \o <<>>      \* (\o <<>>: explicit tuples, made once)
      canon(x) == LET s == e.invs[x]  p == e.invp[x]  r == e.seqs[s]  L == Len(r.s)
                      i == IF p > 0 THEN p ELSE L - (0 - p) - e.k + 2        \* place in the upper-cased sequence
                      j == L - i - e.k + 2                                    \* place of the mate in the reverse complement
                      xf == SubSeq(U[s], i, i + e.k - 1)
                      xr == SubSeq(r.rc, j, j + e.k - 1)
                  IN IF p > 0 THEN ~Greater(xf, xr) ELSE ~Greater(xr, xf)
  IN { x \in 1..Len(e.invs) : e.invs[x] # 0 /\ canon(x) }
EvRanks(e) == IF HasIndex(e) THEN RanksByIndex(e) ELSE Ranks(e.seqs, e.k)

SketchReason(e, K1, R, RK, RN) ==
  IF e.view # SketchView(K1, e.n) THEN
       IF SeqToSet(e.view) = Bottom(K1, e.n) /\ Len(e.view) = Cardinality(Bottom(K1, e.n)) THEN "view-not-descending"
       ELSE "view-is-not-the-n-smallest-canonical-kmer-hashes"
  ELSE IF e.same /\ K1 # RK THEN "driver-same-flag"
  ELSE IF e.same /\ e.n <= RN /\ e.view # LastN(R, Min2(e.n, Len(R))) THEN "variant-or-tail-differs-from-reference"
  ELSE "ok"

DistReason(e) ==
  LET KA == Ranks(e.seqs, e.k)
      KB == Ranks(e.seqs2, e.k)
  IN IF ~(Full(KA, e.n) /\ Full(KB, e.n)) THEN "ok"                 \* outside the property's domain
     ELSE IF e.d # e.dr THEN "distance-not-symmetric"
     ELSE IF e.d < 0 \/ e.d > One THEN "distance-out-of-range"
     ELSE IF KA = KB /\ e.d # 0 THEN "distance-nonzero-on-identical-content"
     ELSE IF e.n <= TableMax /\ ~Near(e.d, DistFP(PJaccardNum(KA, KB, e.n), e.n, e.k)) THEN "distance-formula"
     ELSE IF e.n > TableMax /\ ~InBracket(e.d, PJaccardNum(KA, KB, e.n), e.n, e.k) THEN "distance-outside-table-bracket"
     ELSE "ok"

JacReason(e, PJ, PD) ==
  IF e.d < 0 \/ e.d > One THEN "fromjaccard-out-of-range"
  ELSE IF e.jn = 0 /\ e.d # One THEN "fromjaccard-at-zero"
  ELSE IF e.jd <= TableMax /\ ~Near(e.d, DistFP(e.jn, e.jd, e.k)) THEN "fromjaccard-formula"
  ELSE IF e.jd > TableMax /\ e.jn = 1 /\ IsPow2(e.jd) /\ ~Near(e.d, DistFPP(Log2(e.jd), e.k)) THEN "fromjaccard-formula"
  ELSE IF e.jd > TableMax /\ ~InBracket(e.d, e.jn, e.jd, e.k) THEN "fromjaccard-outside-table-bracket"
  ELSE IF PJ[3] = e.k /\ PJ[1] * e.jd <= e.jn * PJ[2] /\ PD < e.d THEN "fromjaccard-not-monotone"
  ELSE IF PJ[3] = e.k /\ PJ[1] * e.jd >= e.jn * PJ[2] /\ PD > e.d THEN "fromjaccard-not-monotone"
  ELSE "ok"

TInit == /\ l = 1 /\ sid = -1 /\ bad = <<>> /\ fsid = -1
         /\ K = {} /\ refK = {} /\ ref = <<>> /\ refn = 0 /\ pj = <<0, 1, 0>> /\ pd = 0

TNext ==
  /\ l <= Len(Trace)
  /\ LET e    == Trace[l]
         new  == e.sid # sid                                    \* TraceReset
         K0   == IF new \/ e.fresh THEN {} ELSE K
         isSk == e.op = "sketch" \/ e.op = "add"
         K1   == IF isSk THEN K0 \cup EvRanks(e) ELSE K0
         R    == IF new THEN <<>> ELSE ref
         RK   == IF new THEN {} ELSE refK
         PJ   == IF new THEN <<0, 1, 0>> ELSE pj
         PD   == IF new THEN 0 ELSE pd
         why  == IF e.sid = fsid THEN "ok"
                 ELSE IF ~DriverOK(e) THEN "driver-strand-table"
                 ELSE IF HasIndex(e) /\ ~IndexOK(e) THEN "driver-rank-index"
                 ELSE IF HasIndex(e) /\ Len(e.invs) < 5000 /\ RanksByIndex(e) # Ranks(e.seqs, e.k) THEN "driver-index-form-differs-from-plain-form"
                 ELSE IF e.panic THEN "panic"
                 ELSE IF isSk THEN (IF new THEN SketchReason(e, K1, e.view, K1, e.n) ELSE SketchReason(e, K1, R, RK, refn))
                 ELSE IF e.op = "distance" THEN DistReason(e)
                 ELSE JacReason(e, PJ, PD)
     IN /\ K' = K1
        /\ ref'  = IF new /\ isSk THEN e.view ELSE R
        /\ refK' = IF new /\ isSk THEN K1 ELSE RK
        /\ refn' = IF new THEN (IF isSk THEN e.n ELSE 0) ELSE refn
        /\ pj' = IF e.op = "fromjaccard" THEN <<e.jn, e.jd, e.k>> ELSE PJ
        /\ pd' = IF e.op = "fromjaccard" THEN e.d ELSE PD
        /\ sid' = e.sid
        /\ l' = l + 1
        /\ bad' = IF why = "ok" THEN bad ELSE Append(bad, <<l, why>>)
        /\ fsid' = IF why = "ok" THEN fsid ELSE e.sid

TSpec == TInit /\ [][TNext]_tvars

Done == (l = Len(Trace) + 1) => PrintT(<<"VERDICT", l - 1, bad>>)
=============================================================================
