CONSTANTS
  Vals = {1,2,3,4,5,6,7,8}
  MaxN = 5
  Ks = {1,2,3,21,32}
INIT Init
NEXT Next
INVARIANTS JaccardIsMergeWalk DistanceTable FromJaccardMonotone BracketSound
CHECK_DEADLOCK FALSE
