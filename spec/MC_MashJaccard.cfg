CONSTANTS
  Vals = {1,2,3,4,5,6}
  MaxN = 3
  Ks = {1,2,21}
INIT Init
NEXT Next
INVARIANTS JaccardIsMergeWalk DistanceTable FromJaccardMonotone BracketSound
CHECK_DEADLOCK FALSE
