CONSTANTS
  Alphabet = {35, 10, 32, 9, 65, 42, 49}
  L1 = 2
  L2 = 4
INIT Init
NEXT Next
INVARIANTS MachineIsDenoteUnguarded
CHECK_DEADLOCK FALSE
