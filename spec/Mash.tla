------------------------------- MODULE Mash -------------------------------
(* mash/mash.go + github.com/fluhus/gostuff/minhash + sequtil.CanonicalSubsequences (property C17).
   Constant-free operators shared by the exhaustive models (MC_Mash*.tla) and the trace
   specification (Trace_Mash.tla).

   Hash values are abstract integers: murmur3 is an uninterpreted injective function (DESIGN.md
   section 8); the traces carry the *rank* of every 64-bit value among all values of the session,
   a strictly monotone injective projection, so "n smallest", order and intersections are kept.

   Property-level layer   : Bottom, SketchView, Kmers, PJaccardNum, DistFP (the statement's words)
   Implementation layer   : IPush / IAdd / IView (minhash.Push, mash.Add, Sort+View),
                            ICanonAt (the index arithmetic of CanonicalSubsequences on one
                            reverse-complemented copy), IIntersect (the merge walk of
                            minhash.intersect with its peculiar union formula). *)
EXTENDS Integers, Sequences, FiniteSets, SequencesExt, MashLnTable

Min2(a, b) == IF a < b THEN a ELSE b
SeqToSet(s) == { s[i] : i \in 1..Len(s) }
MaxOf(S) == CHOOSE x \in S : \A y \in S : y <= x

---------------------------------------------------------------------------
(* DNA: upper-casing, reverse complement, canonical k-mers (domain: ACGT and acgt) *)

Upper(b) == IF b >= 97 /\ b <= 122 THEN b - 32 ELSE b
UpperSeq(s) == [i \in 1..Len(s) |-> Upper(s[i])]
FlipCase(b) == IF b >= 97 /\ b <= 122 THEN b - 32 ELSE IF b >= 65 /\ b <= 90 THEN b + 32 ELSE b

Comp(b) == CASE b = 65  -> 84  [] b = 67 -> 71   [] b = 71  -> 67 [] b = 84  -> 65
             [] b = 97  -> 116 [] b = 99 -> 103  [] b = 103 -> 99 [] b = 116 -> 97
             [] OTHER -> b
RevComp(s) == [i \in 1..Len(s) |-> Comp(s[Len(s) + 1 - i])]

\* bytes.Compare(a, b) = 1 for sequences of equal length
RECURSIVE GreaterFrom(_, _, _)
GreaterFrom(a, b, i) == IF i > Len(a) THEN FALSE
                        ELSE IF a[i] # b[i] THEN a[i] > b[i]
                        ELSE GreaterFrom(a, b, i + 1)
Greater(a, b) == GreaterFrom(a, b, 1)

\* property level: the canonical form of a k-mer is the lexicographically lesser of it and its
\* reverse complement
Canon(x) == LET r == RevComp(x) IN IF Greater(x, r) THEN r ELSE x

NKmers(s, k) == IF Len(s) >= k THEN Len(s) - k + 1 ELSE 0      \* shorter sequences contribute nothing
KmersOf(s, k) == { Canon(SubSeq(UpperSeq(s), i, i + k - 1)) : i \in 1..NKmers(s, k) }
Kmers(seqs, k) == UNION { KmersOf(seqs[i], k) : i \in 1..Len(seqs) }

\* implementation level: CanonicalSubsequences computes rc = ReverseComplement(seq) once and, for
\* the 0-based position i, compares seq[i:i+k] with rc[len-i-k : len-i]
ICanonAt(u, rc, k, i0) ==
  LET kmer == SubSeq(u, i0 + 1, i0 + k)
      krc  == SubSeq(rc, Len(rc) - i0 - k + 1, Len(rc) - i0)
  IN IF Greater(kmer, krc) THEN krc ELSE kmer
ICanonSeq(s, k) ==                    \* the k-mers in the order in which mash.Add pushes them
  LET u == UpperSeq(s)  rc == RevComp(u)
  IN [j \in 1..NKmers(s, k) |-> ICanonAt(u, rc, k, j - 1)]

---------------------------------------------------------------------------
(* MinHash: property level *)

\* ascending / descending enumeration of a finite set of integers.  TLC's SortSeq is an insertion sort (quadratic on a
\* million hash ranks): SetToSeq's enumeration is used when it is ascending already (checked, never assumed), the sort otherwise
IsAsc(s) == \A i \in 1..(Len(s) - 1) : s[i] < s[i + 1]
Asc(S)  == LET s == SetToSeq(S) IN IF IsAsc(s) THEN s ELSE SetToSortSeq(S, <)
Desc(S) == LET a == Asc(S) IN [i \in 1..Len(a) |-> a[Len(a) + 1 - i]]
Bottom(H, n) == LET a == Asc(H) IN { a[i] : i \in 1..Min2(n, Len(a)) }     \* the n smallest elements
SketchView(H, n) == Desc(Bottom(H, n))                                       \* View() after Sort()
LastN(s, c) == SubSeq(s, Len(s) - c + 1, Len(s))                             \* Tail
Full(H, n) == Cardinality(H) >= n

IsDesc(v) == \A i \in 1..(Len(v) - 1) : v[i] > v[i + 1]

\* "the shared fraction of the n smallest values of the union": numerator, the denominator is n
PJaccardNum(A, B, n) == Cardinality(Bottom(A \cup B, n) \cap A \cap B)

(* MinHash: implementation level (heap contents as a set; the heap order is not observable) *)
IPush(S, n, x) ==
  IF Cardinality(S) = n /\ x >= MaxOf(S) THEN S                 \* "x is too large"
  ELSE IF x \in S THEN S                                         \* kept unique
  ELSE IF Cardinality(S) = n THEN (S \ {MaxOf(S)}) \cup {x}      \* Pop the head, then Push
  ELSE S \cup {x}
IAdd(S, n, hs) == FoldLeft(LAMBDA acc, x : IPush(acc, n, x), S, hs)
IView(S) == Desc(S)                                              \* slices.SortFunc(.., CompareReverse)

\* minhash.intersect: a, b are the descending views; i, j are Go's 0-based indices (-1 = exhausted)
RECURSIVE Walk(_, _, _, _, _, _, _)
Walk(a, b, k, i, j, m, inter) ==
  IF i >= 0 /\ j >= 0 /\ m < k
  THEN IF a[i + 1] > b[j + 1] THEN Walk(a, b, k, i, j - 1, m + 1, inter)
       ELSE IF a[i + 1] < b[j + 1] THEN Walk(a, b, k, i - 1, j, m + 1, inter)
       ELSE Walk(a, b, k, i - 1, j - 1, m + 1, inter + 1)
  ELSE <<inter, Min2(k, m + Len(a) - i + Len(b) - j)>>
IIntersect(a, b, k) == Walk(a, b, k, Len(a) - 1, Len(b) - 1, 0, 0)     \* <<intersection, union>>

---------------------------------------------------------------------------
(* Mash distance in 10^-8 fixed point.  LnT[n][i] = round(10^8 * -ln(2j/(1+j))), j = i/n, n <= 32
   (MashLnTable.tla, generated by gen_mash_ln_table.py with 50-digit decimals);
   LnP[p] = the same for j = 2^-p, p <= 14. *)
One == 100000000
TableMax == Len(LnT)
RDiv(a, b) == (2 * a + b) \div (2 * b)                 \* a / b rounded to nearest (a, b > 0)
DistFP(i, n, k) == IF i = 0 THEN One ELSE Min2(One, RDiv(LnT[n][i], k))
Near(x, y) == x - y <= 1 /\ y - x <= 1                 \* tolerance: one unit of 10^-8
\* Off the table's grid (denominator > TableMax) the closed form cannot be evaluated, but it is decreasing
\* in j, so the value at jn/jd lies between the table values at the neighbouring fractions lo/TableMax <=
\* jn/jd <= hi/TableMax (a consequence of the property, hence never a false alarm).
\* Below 1/TableMax the neighbours are the powers of two 2^-(p+1) <= jn/jd <= 2^-p of the second table LnP.
PMax == Len(LnP)
DistFPP(p, k) == Min2(One, RDiv(LnP[p], k))                       \* FromJaccard(2^-p, k)
IsPow2(jd) == \E p \in 1..PMax : 2^p = jd
Log2(jd) == CHOOSE p \in 1..PMax : 2^p = jd
InBracket(d, jn, jd, k) ==
  IF jn = 0 THEN d = One
  ELSE IF jn * TableMax >= jd
  THEN LET lo == (jn * TableMax) \div jd
           hi == IF (jn * TableMax) % jd = 0 THEN lo ELSE lo + 1
       IN d <= DistFP(lo, TableMax, k) + 1 /\ d >= DistFP(hi, TableMax, k) - 1
  ELSE LET ps == { p \in 1..(PMax - 1) : jn * 2^(p + 1) >= jd /\ jn * 2^p <= jd }
       IN IF ps = {} THEN d <= One /\ d >= DistFPP(PMax, k) - 1
          ELSE LET p == CHOOSE q \in ps : TRUE
               IN d <= DistFPP(p + 1, k) + 1 /\ d >= DistFPP(p, k) - 1
=============================================================================
