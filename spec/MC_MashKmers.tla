---------------------------- MODULE MC_MashKmers ----------------------------
(* Leg M of C17, part 3: from sequences to sketches.  For every pair of sequences s1 (<= MaxLen), s2 (<= MaxLen2; both
   over Alphabet: ACGT in both cases), every k in 1..MaxK and n in 1..MaxN:
     CanonRefines   : the index arithmetic of CanonicalSubsequences (one reverse-complemented copy,
                      rc[len-i-k : len-i]) yields the property-level canonical k-mers
     StrandCaseFree : the k-mer content is unchanged by reverse-complementing and by changing case
     SequencesIsSketch : pushing the hashes in the code's order and sorting = SketchView of the
                      k-mer content (hence order / regrouping / Add-vs-batch independence)
   The hash H is an arbitrary injective function of the (upper-case) k-mer. *)
EXTENDS Mash

CONSTANTS Alphabet, MaxLen, MaxLen2, MaxK, MaxN
VARIABLES s1, s2, k, n, ph
vars == <<s1, s2, k, n, ph>>

RECURSIVE StringsUpTo(_, _)
StringsUpTo(S, m) == IF m = 0 THEN { <<>> }
                     ELSE LET P == StringsUpTo(S, m - 1)
                          IN P \cup { Append(p, a) : p \in { q \in P : Len(q) = m - 1 }, a \in S }
Strs == StringsUpTo(Alphabet, MaxLen)

Init == s1 \in Strs /\ s2 = <<>> /\ k = 1 /\ n = 1 /\ ph = 0
Choose(t, kk, nn) == ph = 0 /\ ph' = 1 /\ s2' = t /\ k' = kk /\ n' = nn /\ UNCHANGED s1
Next == ph = 0 /\ \E t \in StringsUpTo(Alphabet, MaxLen2), kk \in 1..MaxK, nn \in 1..MaxN : Choose(t, kk, nn)

\* injective on upper-case ACGT words of length <= 3 (codes < 127, 37 is a unit modulo the prime 127)
Digit(b) == CASE b = 65 -> 1 [] b = 67 -> 2 [] b = 71 -> 3 [] b = 84 -> 4 [] OTHER -> 0
RECURSIVE Code(_)
Code(x) == IF x = <<>> THEN 0 ELSE Digit(x[1]) + 5 * Code(Tail(x))
H(x) == (Code(x) * 37 + 11) % 127

HashSeq(s) == LET c == ICanonSeq(s, k) IN [i \in 1..Len(c) |-> H(c[i])]
Content(seqs) == { H(x) : x \in Kmers(seqs, k) }

CanonRefines ==
  ph = 1 => /\ SeqToSet(ICanonSeq(s1, k)) = KmersOf(s1, k)
            /\ Len(ICanonSeq(s1, k)) = NKmers(s1, k)
            /\ \A x \in KmersOf(s1, k) : ~Greater(x, RevComp(x)) /\ x = UpperSeq(x)

StrandCaseFree ==
  ph = 1 => /\ KmersOf(RevComp(s1), k) = KmersOf(s1, k)
            /\ KmersOf(UpperSeq(s1), k) = KmersOf(s1, k)
            /\ KmersOf([i \in 1..Len(s1) |-> FlipCase(s1[i])], k) = KmersOf(s1, k)
            /\ Kmers(<<s1, s2>>, k) = Kmers(<<RevComp(s2), s1>>, k)

HashInjective == ph = 1 => \A x, y \in Kmers(<<s1, s2>>, k) : H(x) = H(y) => x = y

SequencesIsSketch ==
  ph = 1 =>
    LET batch == IView(IAdd({}, n, HashSeq(s1) \o HashSeq(s2)))                 \* Sequences(n,k,s1,s2)
        incr  == IView(IAdd(IAdd({}, n, HashSeq(s1)), n, HashSeq(s2)))          \* Sequences(n,k,s1); Add(k,s2)
        swap  == IView(IAdd({}, n, HashSeq(s2) \o HashSeq(s1)))
        want  == SketchView(Content(<<s1, s2>>), n)
    IN batch = want /\ incr = want /\ swap = want

\* deliberately broken variant (non-vacuity of StrandCaseFree): k-mers taken without upper-casing
KmersNoUpper(s) == { Canon(SubSeq(s, i, i + k - 1)) : i \in 1..NKmers(s, k) }
CaseFreeNoUpper == ph = 1 => KmersNoUpper(UpperSeq(s1)) = KmersNoUpper(s1)
=============================================================================
