CONSTANTS
  Variant = "code"
  Alphabet = {1,2}
  MaxLen = 4
  BruteLen = 0
  FreeGaps = TRUE
INIT Init
NEXT Next
INVARIANTS NeverAbove RowwiseAgrees
CHECK_DEADLOCK FALSE
