CONSTANTS
  MaxNodes = 7
  Reversed = FALSE
  WitnessN = 6
INIT Init
NEXT Next
INVARIANTS StackIsPath VisitedIsPrefix PreIsRecursive PostIsRecursive Bounded ClausesAgree WitnessSound
PROPERTIES TreeUnchanged
CHECK_DEADLOCK FALSE
