CONSTANTS
  MaxLines = 0
  MaxIn = 0
  MaxTags = 1
INIT RInit
NEXT RNext
INVARIANTS RoundTrip EmitRec
CHECK_DEADLOCK FALSE
