CONSTANTS
  Alphabet <- AlphaBytes
  MaxLen = 2
  Variant = "ok"
INIT Init
NEXT Next
INVARIANTS UnpackLayer UnpackPack
CHECK_DEADLOCK FALSE
