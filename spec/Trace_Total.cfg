INIT TInit
NEXT TNext
INVARIANT Done
CHECK_DEADLOCK FALSE
