CONSTANTS
  MaxLines = 3
  MaxIn = 0
  MaxTags = 0
INIT FInit
NEXT FNext
INVARIANTS FileOK
CHECK_DEADLOCK FALSE
