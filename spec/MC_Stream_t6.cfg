CONSTANTS
  MaxLen = 6
  ByteClasses <- MCClasses4
  PartialOnError = FALSE
INIT Init
NEXT Next
INVARIANTS SchedFree FaultOK StopOK
PROPERTY NoCallbackAfterDone
CHECK_DEADLOCK FALSE
