CONSTANTS
  Labels <- LabelsACStar
  Pool <- Pool2
  MaxR = 2
  MaxC = 3
  Perms = "some"
INIT Init
NEXT Next
INVARIANTS TablesOK
CHECK_DEADLOCK FALSE
