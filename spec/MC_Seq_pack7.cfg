CONSTANTS
  Alphabet <- AlphaPack
  MaxLen = 7
  Variant = "ok"
INIT Init
NEXT Next
INVARIANTS PackLayer PackLen MsbFirst PackUnpack NtoiIton
CHECK_DEADLOCK FALSE
