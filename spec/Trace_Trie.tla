---------------------------- MODULE Trace_Trie ----------------------------
(* Leg T of C15: histories recorded from the real trie (harness: `vh trie-drive`), one event per
   public call at its return, validated against the property-level layer of TrieOps.
   event = [sid, op \in {"add","del","clone"}, arg, ret, members (ForEach results, in call order),
            has (sequence of [p, r]: probe and Has(p)), nested, inner (the members reported by a ForEach
            that ran inside the callback of the ForEach that reported members)] *)
EXTENDS TrieOps, Integers, TLC, Json

Trace == ndJsonDeserialize("trace.ndjson")

VARIABLES l, sid, m, bad, fsid      \* fsid: the session that has already been rejected (reported once)
tvars == <<l, sid, m, bad, fsid>>

ToSet(s) == { s[i] : i \in 1..Len(s) }

Step(M, e) == CASE e.op = "add" -> PAdd(M, e.arg)
                [] e.op = "del" -> PDelete(M, e.arg)
                [] OTHER        -> M                      \* "clone": JSON round trip, "obs": observation only

Reason(M0, M1, e) ==
  IF e.panic THEN "panic"
  ELSE IF e.op = "del" /\ e.ret # PDeleteRet(M0, e.arg) THEN "delete-return"
  ELSE IF ~e.obs THEN "ok"                                   \* nothing was observed after this step
  ELSE IF ToSet(e.members) # M1 THEN "foreach-members"
  ELSE IF Len(e.members) # Cardinality(M1) THEN "foreach-duplicate"
  ELSE IF e.nested /\ ToSet(e.inner) # M1 THEN "foreach-inside-foreach-members"
  ELSE IF e.nested /\ Len(e.inner) # Cardinality(M1) THEN "foreach-inside-foreach-duplicate"
  ELSE IF \E i \in 1..Len(e.has) : e.has[i].r # PHas(M1, e.has[i].p) THEN "has"
  ELSE "ok"

TInit == l = 1 /\ sid = -1 /\ m = {} /\ bad = <<>> /\ fsid = -1

TNext == /\ l <= Len(Trace)
         /\ LET e   == Trace[l]
                M0  == IF e.sid = sid THEN m ELSE {}        \* TraceReset: a new session starts empty
                M1  == Step(M0, e)
                why == IF e.sid = fsid THEN "ok" ELSE Reason(M0, M1, e)
            IN /\ m' = M1
               /\ sid' = e.sid
               /\ l' = l + 1
               /\ bad' = IF why = "ok" THEN bad ELSE Append(bad, <<l, why>>)
               /\ fsid' = IF why = "ok" THEN fsid ELSE e.sid

TSpec == TInit /\ [][TNext]_tvars

Done == (l = Len(Trace) + 1) => PrintT(<<"VERDICT", l - 1, bad>>)
=============================================================================
