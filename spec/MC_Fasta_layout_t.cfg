CONSTANTS
  MaxIn = 0
  W = 3
  MaxSeq = 4
  MaxSeq2 = 2
  Mode = "layout"
INIT LInit
NEXT LNext
INVARIANTS LayoutFree WriterRefines
CHECK_DEADLOCK FALSE
