CONSTANTS
  Alphabet <- AlphaBytes
  MaxLen = 3
  Variant = "ok"
INIT Init
NEXT Next
INVARIANTS UnpackLayer UnpackPack
CHECK_DEADLOCK FALSE
