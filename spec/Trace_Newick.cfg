CONSTANTS
  DistText <- TDistText
  DistOf <- TDistOf
  NoDist <- TNoDist
  BadDist <- TBadDist
INIT TInit
NEXT TNext
INVARIANT Done
CHECK_DEADLOCK FALSE
