------------------------------- MODULE Align -------------------------------
(* Pairwise alignment (package align): properties C08, C09, C10.

   Property-level layer  (what the properties state)
     Score / ScoreFrom      the documented scoring of a step sequence
     ValidGlobal, ValidLocal, NoPositive
     AllAlignments, BruteOpt, BruteLocalOpt      brute force, tiny cases only
     Opt, LocalOpt          Gotoh's three-state optimum, row-wise fold, linear memory
     EditDistance           Wagner-Fischer
     Symmetric, CompleteOver, IsLevenshtein, ZeroOpen      predicates on matrices
   Implementation-shaped layer  (what global.go / local.go do)
     SingleGlobal, SingleLocal     one (score, step) table, decideOnStep tie-breaking,
                                   traceback over the flat index, offset conversion
     SingleGlobalScore, SingleLocalScore      the same recurrence, score only, row-wise

   Sequences are sequences of byte values 0..254, GAP = 255, a substitution matrix is a function
   on pairs <<x, y>>; m[<<x, GAP>>] scores a deletion of x, m[<<GAP, y>>] an insertion of y,
   m[<<GAP, GAP>>] is the gap-open score.  Steps: 1 match, 2 deletion, 3 insertion (align.go). *)
EXTENDS Integers, Sequences, FiniteSets, SequencesExt, TLC

CONSTANT Variant    \* "code": the transcription of the current code; other values: deliberately
                    \* broken variants of the implementation layer (non-vacuity of leg M)

GAP   == 255
MATCH == 1
DEL   == 2
INS   == 3
NEG   == -1000000000         \* minus infinity of the three-state recurrence (recorded scores are below 4 * 10^8 in magnitude)

Max2(x, y)    == IF x >= y THEN x ELSE y
Max3(x, y, z) == Max2(x, Max2(y, z))
Min2(x, y)    == IF x <= y THEN x ELSE y
SetMax(S)     == CHOOSE x \in S : \A y \in S : x >= y
Letters(s)    == { s[i] : i \in 1..Len(s) }

---------------------------------------------------------------------------
(* Matrices *)
Open(m) == m[<<GAP, GAP>>]

Symmetric(m)       == \A p \in DOMAIN m : /\ <<p[2], p[1]>> \in DOMAIN m
                                           /\ m[<<p[2], p[1]>>] = m[p]
CompleteOver(m, S) == \A x \in S : \A y \in S : <<x, y>> \in DOMAIN m
ZeroOpen(m)        == <<GAP, GAP>> \in DOMAIN m /\ m[<<GAP, GAP>>] = 0
LevValue(p)        == IF p[1] = p[2] THEN 0 ELSE -1
IsLevenshteinOver(m, S) == \A x \in S : \A y \in S : <<x, y>> \in DOMAIN m /\ m[<<x, y>>] = LevValue(<<x, y>>)
IsLevenshtein(m)   == /\ DOMAIN m = (0..255) \X (0..255)
                      /\ \A p \in DOMAIN m : m[p] = LevValue(p)
\* the domain on which Local is specified: no positive gap scores
NonPositiveGaps(m) == \A p \in DOMAIN m : (p[1] = GAP \/ p[2] = GAP) => m[p] <= 0
\* every pair the alignment of a and b can look up is defined
DefinedFor(m, a, b) ==
  /\ \A x \in Letters(a) : \A y \in Letters(b) : <<x, y>> \in DOMAIN m
  /\ \A x \in Letters(a) : <<x, GAP>> \in DOMAIN m
  /\ \A y \in Letters(b) : <<GAP, y>> \in DOMAIN m
  /\ (a # <<>> \/ b # <<>>) => <<GAP, GAP>> \in DOMAIN m

(* A matrix delivered as a list of entries <<x, y, score>> (the key set of the real Go map).
   alpha is the sorted sequence of the intended alphabet (incl. GAP); when the list is the complete
   table in (x, y) order an entry is found by index arithmetic, otherwise by search: the result is
   always exactly the function the list denotes. *)
FnOfEntries(es, alpha) ==
  LET n    == Len(alpha)
      rank == [x \in 0..255 |-> IF \E i \in 1..n : alpha[i] = x
                                THEN CHOOSE i \in 1..n : alpha[i] = x ELSE 0]
      keys == { <<es[k][1], es[k][2]>> : k \in 1..Len(es) }
      val(p) == LET k == (rank[p[1]] - 1) * n + rank[p[2]]
                IN IF rank[p[1]] > 0 /\ rank[p[2]] > 0 /\ k <= Len(es) /\ es[k][1] = p[1] /\ es[k][2] = p[2]
                   THEN es[k][3]
                   ELSE es[CHOOSE j \in 1..Len(es) : es[j][1] = p[1] /\ es[j][2] = p[2]][3]
  IN [p \in keys |-> val(p)]

---------------------------------------------------------------------------
(* The documented scoring: pair score per match step, per-character gap score per gap step, the
   gap-open score once for every maximal run of consecutive gap steps of the same kind.
   ScoreFrom starts after ai characters of a and bi characters of b (Local's offsets). *)
StepsOK(steps) == \A k \in 1..Len(steps) : steps[k] \in {MATCH, DEL, INS}
CountA(steps)  == Cardinality({ k \in 1..Len(steps) : steps[k] # INS })     \* characters of a consumed
CountB(steps)  == Cardinality({ k \in 1..Len(steps) : steps[k] # DEL })     \* characters of b consumed

ValidGlobal(steps, a, b) == StepsOK(steps) /\ CountA(steps) = Len(a) /\ CountB(steps) = Len(b)
ValidLocal(steps, ai, bi, a, b) == /\ StepsOK(steps)
                                   /\ ai >= 0 /\ ai + CountA(steps) <= Len(a)
                                   /\ bi >= 0 /\ bi + CountB(steps) <= Len(b)

ScoreFrom(steps, ai, bi, a, b, m) ==
  LET f(st, x) ==
        IF x = MATCH THEN [i |-> st.i + 1, j |-> st.j + 1, p |-> x,
                           s |-> st.s + m[<<a[st.i + 1], b[st.j + 1]>>]]
        ELSE IF x = DEL THEN [i |-> st.i + 1, j |-> st.j, p |-> x,
                           s |-> st.s + m[<<a[st.i + 1], GAP>>] + (IF st.p # DEL THEN Open(m) ELSE 0)]
        ELSE [i |-> st.i, j |-> st.j + 1, p |-> x,
                           s |-> st.s + m[<<GAP, b[st.j + 1]>>] + (IF st.p # INS THEN Open(m) ELSE 0)]
  IN FoldLeft(f, [i |-> ai, j |-> bi, p |-> 0, s |-> 0], steps).s

Score(steps, a, b, m) == ScoreFrom(steps, 0, 0, a, b, m)

\* In Local's domain (no positive gap score, no positive gap-open) a positive-scoring local
\* alignment exists iff some pair of characters scores positively (checked against LocalOpt in leg M).
NoPositive(a, b, m) == \A x \in Letters(a) : \A y \in Letters(b) : m[<<x, y>>] <= 0

---------------------------------------------------------------------------
(* Brute force: every alignment of i characters with j characters *)
RECURSIVE AllAlignments(_, _)
AllAlignments(i, j) ==
  IF i = 0 /\ j = 0 THEN { <<>> }
  ELSE (IF i > 0 /\ j > 0 THEN { Append(s, MATCH) : s \in AllAlignments(i - 1, j - 1) } ELSE {})
       \cup (IF i > 0 THEN { Append(s, DEL) : s \in AllAlignments(i - 1, j) } ELSE {})
       \cup (IF j > 0 THEN { Append(s, INS) : s \in AllAlignments(i, j - 1) } ELSE {})

BruteOptOver(al, a, b, m) == SetMax({ Score(s, a, b, m) : s \in al })
BruteOpt(a, b, m) == BruteOptOver(AllAlignments(Len(a), Len(b)), a, b, m)

\* al[i+1][j+1] = AllAlignments(i, j), precomputed by the caller
BruteLocalOptWith(al, a, b, m) ==
  SetMax({ BruteOptOver(al[q[2] - q[1] + 1][q[4] - q[3] + 1],
                        SubSeq(a, q[1] + 1, q[2]), SubSeq(b, q[3] + 1, q[4]), m) :
           q \in { r \in (0..Len(a)) \X (0..Len(a)) \X (0..Len(b)) \X (0..Len(b)) :
                   r[1] <= r[2] /\ r[3] <= r[4] } })

---------------------------------------------------------------------------
(* Gotoh: a cell is [M, X, Y] = best score of an alignment of the two prefixes that ends in a
   match / a deletion / an insertion.  z is the score with which an alignment may start in any
   cell: NEG for global alignment (only cell (0,0) starts, with M = 0), 0 for local alignment.
   A row is a sequence indexed by column + 1. *)
Best(c) == Max3(c.M, c.X, c.Y)

GRow0(b, m, z) ==
  LET step(row, j) ==
        LET c == row[j]
        IN Append(row, [M |-> NEG, X |-> NEG,
                        Y |-> Max2(Max3(z, c.M, c.X) + Open(m), c.Y) + m[<<GAP, b[j]>>]])
  IN FoldLeftDomain(step, << [M |-> 0, X |-> NEG, Y |-> NEG] >>, b)

GRow(prev, i, a, b, m, z) ==
  LET gd    == m[<<a[i], GAP>>]
      first == [M |-> NEG, Y |-> NEG,
                X |-> Max2(Max3(z, prev[1].M, prev[1].Y) + Open(m), prev[1].X) + gd]
      step(row, j) ==
        LET d == prev[j]           \* diagonal predecessor
            u == prev[j + 1]       \* upper
            c == row[j]            \* left
        IN Append(row, [M |-> Max2(z, Best(d)) + m[<<a[i], b[j]>>],
                        X |-> Max2(Max3(z, u.M, u.Y) + Open(m), u.X) + gd,
                        Y |-> Max2(Max3(z, c.M, c.X) + Open(m), c.Y) + m[<<GAP, b[j]>>]])
  IN FoldLeftDomain(step, <<first>>, b)

\* the highest score of any alignment of a with b
Opt(a, b, m) ==
  LET f(prev, i) == GRow(prev, i, a, b, m, NEG)
  IN Best(Last(FoldLeftDomain(f, GRow0(b, m, NEG), a)))

RowMax(row) == LET g(acc, c) == Max2(acc, Best(c)) IN FoldLeft(g, NEG, row)

\* the highest score of any alignment of any substring of a with any substring of b (0: the empty one)
LocalOpt(a, b, m) ==
  LET r0 == GRow0(b, m, 0)
      f(acc, i) == LET r == GRow(acc.row, i, a, b, m, 0)
                   IN [row |-> r, mx |-> Max2(acc.mx, RowMax(r))]
  IN Max2(0, FoldLeftDomain(f, [row |-> r0, mx |-> RowMax(r0)], a).mx)

---------------------------------------------------------------------------
(* Edit distance (unit costs) *)
EditDistance(a, b) ==
  LET row0 == [j \in 1..(Len(b) + 1) |-> j - 1]
      f(prev, i) ==
        LET step(row, j) == Append(row, Min2(Min2(prev[j + 1] + 1, row[j] + 1),
                                             prev[j] + (IF a[i] = b[j] THEN 0 ELSE 1)))
        IN FoldLeftDomain(step, <<i>>, b)
  IN Last(FoldLeftDomain(f, row0, a))

---------------------------------------------------------------------------
(* Implementation-shaped layer: global.go / local.go.
   One block [s, st] per cell; gap-open is charged when the predecessor cell's *chosen* step is not
   the same gap kind.  loc: Local's clamp of negative cells to block{0, 0}. *)
Decide(mch, del, ins) ==                                  \* decideOnStep
  IF Variant = "dropIns" THEN                             \* broken: insertion candidate ignored unless forced
       (IF mch >= del THEN [s |-> mch, st |-> MATCH] ELSE [s |-> del, st |-> DEL])
  ELSE IF mch >= del /\ mch >= ins THEN [s |-> mch, st |-> MATCH]
  ELSE IF del >= ins THEN [s |-> del, st |-> DEL]
  ELSE [s |-> ins, st |-> INS]

Clamp(c, loc) == IF loc /\ c.s < 0 THEN [s |-> 0, st |-> 0] ELSE c

OpenIf(cond, m) == IF cond \/ Variant = "openEveryStep" THEN Open(m) ELSE 0

SRow0(b, m, loc) ==                                       \* ai == 0
  LET step(row, j) ==
        Append(row, Clamp([s |-> row[j].s + m[<<GAP, b[j]>>] + OpenIf(j = 1, m), st |-> INS], loc))
  IN FoldLeftDomain(step, << [s |-> 0, st |-> 0] >>, b)

SRow(prev, i, a, b, m, loc) ==
  LET first == Clamp([s |-> prev[1].s + m[<<a[i], GAP>>] + OpenIf(i = 1, m), st |-> DEL], loc)    \* bi == 0
      step(row, j) ==
        Append(row, Clamp(Decide(prev[j].s + m[<<a[i], b[j]>>],
                                 prev[j + 1].s + m[<<a[i], GAP>>] + OpenIf(prev[j + 1].st # DEL, m),
                                 row[j].s + m[<<GAP, b[j]>>] + OpenIf(row[j].st # INS, m)), loc))
  IN FoldLeftDomain(step, <<first>>, b)

\* the whole table: T[ai + 1][bi + 1]; the code's flat index i is (ai, bi) = (i \div bn, i % bn)
STable(a, b, m, loc) ==
  LET f(rows, i) == Append(rows, SRow(rows[i], i, a, b, m, loc))
  IN FoldLeftDomain(f, << SRow0(b, m, loc) >>, a)

Cell(T, bn, i) == T[(i \div bn) + 1][(i % bn) + 1]
Back(st, bn)   == CASE st = MATCH -> bn + 1 [] st = DEL -> bn [] st = INS -> 1 [] OTHER -> 0

RECURSIVE TraceG(_, _, _, _)
TraceG(T, bn, i, acc) ==                                  \* traceAlignmentSteps
  IF i <= 0 THEN [steps |-> Reverse(acc), panic |-> i < 0]
  ELSE LET c == Cell(T, bn, i)
       IN IF Back(c.st, bn) = 0 THEN [steps |-> Reverse(acc), panic |-> TRUE]     \* (the code would not terminate)
          ELSE TraceG(T, bn, i - Back(c.st, bn), Append(acc, c.st))

SingleGlobal(a, b, m) ==
  LET bn == Len(b) + 1
      an == Len(a) + 1
      T  == STable(a, b, m, FALSE)
      tr == TraceG(T, bn, an * bn - 1, <<>>)
  IN [steps |-> tr.steps, score |-> Cell(T, bn, an * bn - 1).s, panic |-> tr.panic]

ArgMax(T, an, bn) ==                                      \* first strictly greater block in flat order
  LET f(imax, k) == IF Cell(T, bn, k).s > Cell(T, bn, imax).s THEN k ELSE imax
  IN FoldLeft(f, 0, [k \in 1..(an * bn - 1) |-> k])

RECURSIVE TraceL(_, _, _, _, _)
TraceL(T, bn, i, last, acc) ==                            \* traceAlignmentStepsLocal
  IF i <= 0 THEN [acc |-> acc, last |-> last, panic |-> i < 0]
  ELSE LET c == Cell(T, bn, i)
       IN IF c.s < 0 THEN [acc |-> acc, last |-> last, panic |-> TRUE]
          ELSE IF c.s = 0 THEN [acc |-> acc, last |-> last, panic |-> FALSE]
          ELSE IF Back(c.st, bn) = 0 THEN [acc |-> acc, last |-> last, panic |-> TRUE]
          ELSE TraceL(T, bn, i - Back(c.st, bn), i, Append(acc, c.st))

SingleLocal(a, b, m) ==
  LET bn   == Len(b) + 1
      an   == Len(a) + 1
      T    == STable(a, b, m, TRUE)
      imax == ArgMax(T, an, bn)
      tr   == TraceL(T, bn, imax, imax, <<>>)
  IN IF Cell(T, bn, imax).s = 0
     THEN [steps |-> <<>>, ai |-> (0 \div bn) - 1, bi |-> (0 % bn) - 1, score |-> 0, panic |-> tr.panic]
     ELSE [steps |-> Reverse(tr.acc), ai |-> (tr.last \div bn) - 1, bi |-> (tr.last % bn) - 1,
           score |-> Cell(T, bn, imax).s, panic |-> tr.panic]

\* score only, linear memory (used to classify recorded events of any size)
SingleGlobalScore(a, b, m) ==
  LET f(prev, i) == SRow(prev, i, a, b, m, FALSE)
  IN Last(FoldLeftDomain(f, SRow0(b, m, FALSE), a)).s

SRowMax(row) == LET g(acc, c) == Max2(acc, c.s) IN FoldLeft(g, 0, row)

SingleLocalScore(a, b, m) ==
  LET r0 == SRow0(b, m, TRUE)
      f(acc, i) == LET r == SRow(acc.row, i, a, b, m, TRUE)
                   IN [row |-> r, mx |-> Max2(acc.mx, SRowMax(r))]
  IN FoldLeftDomain(f, [row |-> r0, mx |-> SRowMax(r0)], a).mx
=============================================================================
