CONSTANTS
  MaxNodes = 0
  MaxName = 0
  MaxIn = 7
  NamePool = 1
  DistPool = 1
  OldQuoting = FALSE
  DistText <- MCDistText
  DistOf <- MCDistOf
  NoDist <- MCNoDist
  BadDist <- MCBadDist
INIT XInit
NEXT XNext
INVARIANTS Total
CHECK_DEADLOCK FALSE
