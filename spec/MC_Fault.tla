------------------------------ MODULE MC_Fault ------------------------------
(* Leg M of C07 for the line- and token-oriented readers (FASTQ, SAM, BED, Newick): the error path of each reader,
   as a function of the bytes delivered before the fault, satisfies Iter!FaultOK against the fault-free decode,
   for every well-formed input of a small corpus and every fault offset k in 0..Len(input).
   Assumptions about the standard library, written down here and exercised by every T run:
     bufio.Scanner (fastq)     : after k bytes and an error, Scan has delivered ScanLines(prefix) - including the
                                 partial last line as a token - and then returns false with Err() # nil
     bufio.ReadString (sam,bed): the partial last line is returned together with the error (and is dropped by the code)
     bufio.ReadByte (newick)   : the bytes of the prefix, then the error
   (the byte-level FASTA reader is model-checked with explicit schedules in Stream.tla) *)
EXTENDS Bytes, Integers, TLC

FQ == INSTANCE Fastq
SM == INSTANCE Sam
BD == INSTANCE Bed
FDistText(x) == IF x = 1 THEN <<49>> ELSE <<50>>
FDistOf(tok) == IF tok = <<48>> THEN 0 ELSE IF tok = <<49>> THEN 1 ELSE IF tok = <<50>> THEN 2 ELSE 0 - 1
NW == INSTANCE Newick WITH DistText <- FDistText, DistOf <- FDistOf, NoDist <- 0, BadDist <- 0 - 1
E == [k |-> "err"]
IT == INSTANCE Iter WITH ErrItem <- E, Items <- {}, MaxItems <- 0, NLayers <- 0, AllowIgnore <- FALSE,
                         full <- <<>>, stopAt <- 0, ignoring <- <<>>, i <- 0, calls <- <<>>, stopped <- FALSE, alive <- FALSE

CONSTANT Broken      \* TRUE: deliberately broken SAM reader that parses the truncated line (the unrepaired defect D6)

A == 65
Prefix(d, k) == SubSeq(d, 1, k)
\* lines completed (LF seen) within the prefix
CompleteText(d, k) == LET ps == Positions(Prefix(d, k), LAMBDA b : b = LF)
                      IN IF ps = <<>> THEN <<>> ELSE SubSeq(d, 1, ps[Len(ps)])
NoFloat(v) == FALSE

\* ---- FASTQ
FQClean(d) == FQ!Machine(ScanLines(d))
FQFault(d, k) == LET s == FoldLeft(FQ!Step, FQ!F0, ScanLines(Prefix(d, k)))
                 IN IF s.dead THEN s.out ELSE Append(s.out, E)
\* ---- SAM (ReaderHeader)
SMClean(d) == SM!Denote(d, "header", NoFloat)
SMFault(d, k) == IF Broken THEN SM!Denote(Prefix(d, k), "header", NoFloat)       \* truncated line parsed, error dropped
                 ELSE Append(SM!Denote(CompleteText(d, k), "header", NoFloat), E)
\* ---- BED
BDClean(d) == BD!Denote(d, BD!CanonU8)
BDFault(d, k) == LET its == BD!Denote(CompleteText(d, k), BD!CanonU8)
                 IN IF its # <<>> /\ its[Len(its)] = E THEN its ELSE Append(its, E)
\* ---- Newick
NWItems(m) == [j \in 1..Len(m.trees) |-> [k |-> "rec", t |-> m.trees[j]]] \o (IF m.err THEN <<E>> ELSE <<>>)
NWClean(d) == NWItems(NW!Machine(d))
NWFault(d, k) == LET s == FoldLeft(NW!Feed, NW!R0, Prefix(d, k))
                 IN NWItems([trees |-> s.out, err |-> TRUE])

\* ---- corpora of well-formed inputs
FQRecs == { FQ!Rec(n, s, s) : n \in {<<>>, <<A>>, <<AT>>}, s \in {<<>>, <<A>>, <<PLUS, A>>, <<AT>>} }
FQInputs == { FQ!WriteAll(<<r>>) : r \in FQRecs } \cup { FQ!WriteAll(<<r1, r2>>) : r1 \in FQRecs, r2 \in FQRecs }
SMBase == [f |-> [j \in 1..11 |-> IF j \in SM!IntFields THEN <<48>> ELSE <<A>>], tags |-> <<>>]
SMR2 == [SMBase EXCEPT !.f[11] = <<DQUOTE>>, !.tags = <<SM!Tag(<<88, 65>>, SM!TyZ, <<A, TAB>> \o <<>>)>>]
SMLines == { <<AT, A, LF>>, SM!WriteRec(SMBase), SM!WriteRec([SMBase EXCEPT !.f[1] = <<>>]), <<AT, TAB, DQUOTE, LF>> }
SMInputs == { l1 \o l2 : l1 \in SMLines \cup {<<>>}, l2 \in SMLines } \cup { ToCRLF(l1 \o l2) : l1 \in SMLines, l2 \in SMLines }
             \cup { SubSeq(l1 \o l2, 1, Len(l1 \o l2) - 1) : l1 \in SMLines, l2 \in SMLines }      \* last line unterminated
BDLines == { <<A, TAB, 48, TAB, 55, LF>>, <<DQUOTE, TAB, 49, TAB, 50, LF>>, <<HASH, A, LF>> }
BDInputs == { l1 \o l2 \o l3 : l1 \in BDLines \cup {<<>>}, l2 \in BDLines, l3 \in BDLines }
             \cup { SubSeq(l1 \o l2, 1, Len(l1 \o l2) - 1) : l1 \in BDLines, l2 \in BDLines }
NWTrees == { <<NW!Node(0, n, x)>> : n \in {<<>>, <<A>>, <<SQUOTE>>, <<A, SPACE, A>>}, x \in {0, 1} }
             \cup { <<NW!Node(0, n, 0), NW!Node(1, <<A>>, x), NW!Node(1, <<>>, 0)>> : n \in {<<>>, <<LF>>}, x \in {0, 1} }
NWInputs == { NW!WriteTree(t) : t \in NWTrees } \cup { NW!WriteTree(t1) \o <<LF>> \o NW!WriteTree(t2) : t1 \in NWTrees, t2 \in NWTrees }

VARIABLES fmt, d, cut
vars == <<fmt, d, cut>>

Init == /\ fmt \in {"fastq", "sam", "bed", "newick"}
        /\ d \in (CASE fmt = "fastq" -> FQInputs [] fmt = "sam" -> SMInputs [] fmt = "bed" -> BDInputs [] OTHER -> NWInputs)
        /\ cut = 0 - 1
Next == /\ cut = 0 - 1 /\ \E kk \in 0..Len(d) : cut' = kk
        /\ UNCHANGED <<fmt, d>>

Clean == CASE fmt = "fastq" -> FQClean(d) [] fmt = "sam" -> SMClean(d) [] fmt = "bed" -> BDClean(d) [] OTHER -> NWClean(d)
Faulted == CASE fmt = "fastq" -> FQFault(d, cut) [] fmt = "sam" -> SMFault(d, cut) [] fmt = "bed" -> BDFault(d, cut) [] OTHER -> NWFault(d, cut)

\* the corpora are well-formed: the fault-free decode has no error
WellFormed == cut = 0 - 1 => \A j \in 1..Len(Clean) : Clean[j] # E
FaultOK == cut >= 0 => IT!FaultOK(Faulted, Clean)
=============================================================================
