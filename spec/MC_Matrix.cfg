CONSTANTS
  Letters = {65, 255}
  Scores = {1, 2}
INIT Init
NEXT Next
INVARIANTS SymmetricalRefines GoStringOrder
PROPERTIES ReceiverUnchanged
CHECK_DEADLOCK FALSE
