CONSTANTS
  Variant = "code"
  Alphabet = {1,2}
  MaxLen = 3
  BruteLen = 3
  GapVals <- MCGapAny
  FreeGaps = TRUE
INIT Init
NEXT Next
INVARIANTS GotohIsBrute0 ZeroOpenOptimal NeverAbove0
CHECK_DEADLOCK FALSE
