CONSTANTS
  MaxIn = 0
  W = 2
  MaxSeq = 2
  MaxSeq2 = 1
  Mode = "layout"
INIT LInit
NEXT LNext
INVARIANTS LayoutFree WriterRefines Emit
CHECK_DEADLOCK FALSE
