CONSTANTS
  MaxLines = 0
INIT RInit
NEXT RNext
INVARIANTS Refuse RoundTrip EmitRec
CHECK_DEADLOCK FALSE
