CONSTANTS
  Fmt = "samh"
  Pool <- MCSamPool
  MaxStop = 0
  Broken = "parse-rest-on-fault"
INIT Init
NEXT MCNext
INVARIANTS FaultLaw Exact
CHECK_DEADLOCK FALSE
