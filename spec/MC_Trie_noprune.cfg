CONSTANTS
  Alphabet = {1,2}
  MaxLen = 3
INIT Init
NEXT NextNoPrune
INVARIANTS Refines
CHECK_DEADLOCK FALSE
