---------------------------- MODULE Trace_Total ----------------------------
(* Leg T of C11: decode events (arbitrary bytes: terminates, no panic, only records / headers / errors) and fixed-point
   events (an accepted record, written by the matching writer and read back: the same record again - for records
   whose text fields are free of the format's own delimiter bytes), recorded by vh total-drive.
   Items are the generic projection [k, f]: f = the record's byte-string fields
     fasta [name, seq]; fastq [name, seq, quals]; sam 11 fields then (key, type, value, atom) per tag;
     bed [n, 12 fields]; newick (depth, name, distance atom) per node in pre-order. *)
EXTENDS Bytes, Integers, TLC, Json

Trace == ndJsonDeserialize("trace.ndjson")

VARIABLES l, bad
tvars == <<l, bad>>

---------------------------------------------------------------------------
(* Drift: beyond the listed properties, the implementation-shaped layer of every codec module is compared with the
   real reader on ARBITRARY inputs (outside every property's domain).  A difference is reported as a NOTE, never as
   a violation: it means the specification's account of the code's behaviour needs updating (or the code changed
   behaviour where no property constrains it). *)
FA == INSTANCE Fasta
FQ == INSTANCE Fastq
SM == INSTANCE Sam
BD == INSTANCE Bed
TokSet(ts) == { ts[i] : i \in 1..Len(ts) }
NoD == <<>>
BadD == <<0 - 1>>
\* Newick: the machine runs with "every token after ':' is a number"; the float table then decides where the real parser
\* must have failed (a tree containing a distance token that ParseFloat rejects is an error item, and the last one)
NWDistText(x) == x
NWDistOf(tok) == tok
NW == INSTANCE Newick WITH DistText <- NWDistText, DistOf <- NWDistOf, NoDist <- NoD, BadDist <- BadD

\* generic projection of the specifications' items
GRec(fs) == [k |-> "rec", f |-> fs]
GErr == [k |-> "err", f |-> <<>>]
FaG(recs) == [i \in 1..Len(recs) |-> GRec(<<recs[i].name, recs[i].seq>>)]
FqG(its) == [i \in 1..Len(its) |-> IF its[i].k = "err" THEN GErr ELSE GRec(<<its[i].name, its[i].seq, its[i].quals>>)]
\* sam: 11 fields, then (key, type, value) per tag; float values and atoms are blanked on both sides
SmTagsG(ts) == FlattenSeq([i \in 1..Len(ts) |-> <<ts[i].key, ts[i].ty, IF ts[i].ty = SM!Tyf THEN <<>> ELSE ts[i].val>>])
SmG(its) == [i \in 1..Len(its) |-> IF its[i].k = "err" THEN GErr
                                    ELSE IF its[i].k = "hdr" THEN [k |-> "hdr", f |-> <<its[i].text>>]
                                    ELSE GRec(its[i].f \o SmTagsG(its[i].tags))]
SmRealG(its) == [i \in 1..Len(its) |->
                   IF its[i].k # "rec" THEN its[i]
                   ELSE LET f == its[i].f  nt == (Len(f) - 11) \div 4
                        IN GRec(SubSeq(f, 1, 11) \o FlattenSeq([j \in 1..nt |->
                               <<f[8 + 4 * j], f[9 + 4 * j], IF f[9 + 4 * j] = SM!Tyf THEN <<>> ELSE f[10 + 4 * j]>>]))]
BdG(its) == [i \in 1..Len(its) |-> IF its[i].k = "err" THEN GErr ELSE GRec(<<BD!DecText(its[i].n)>> \o its[i].f)]

\* nodes as (depth text, name, has-a-non-zero-distance)
NwSpecG(t, Z) == GRec(FlattenSeq([i \in 1..Len(t) |-> <<BD!DecText(t[i].d), t[i].name,
                                                        IF t[i].dist # NoD /\ t[i].dist \notin Z THEN <<1>> ELSE <<>> >>]))
NwRealG(it) == IF it.k # "rec" THEN it
               ELSE GRec(FlattenSeq([i \in 1..(Len(it.f) \div 3) |-> <<it.f[3 * i - 2], it.f[3 * i - 1],
                                                                        IF it.f[3 * i] # <<48>> THEN <<1>> ELSE <<>> >>]))
NwExpected(in, F, Z) ==
  LET m == NW!Machine(in)
      badTree(t) == \E i \in 1..Len(t) : t[i].dist # NoD /\ t[i].dist \notin F
      B == { k \in 1..Len(m.trees) : badTree(m.trees[k]) }
      cut == IF B = {} THEN Len(m.trees) ELSE (CHOOSE k \in B : \A j \in B : k <= j) - 1
  IN [k \in 1..cut |-> NwSpecG(m.trees[k], Z)] \o (IF B # {} \/ m.err THEN <<GErr>> ELSE <<>>)

Drift(e) ==
  LET F == TokSet(e.floats)
      FloatOK(v) == v \in F
      U8 == { <<e.u8[i][1], e.u8[i][2]>> : i \in 1..Len(e.u8) }
  IN CASE e.fmt = "fasta" -> e.items # FaG(FA!Machine(e.bytes))
       [] e.fmt = "fastq" -> e.items # FqG(FQ!Machine(ScanLines(e.bytes)))
       [] e.fmt = "sam"   -> SmRealG(e.items) # SmG(SM!Denote(e.bytes, "records", FloatOK))
       [] e.fmt = "samh"  -> SmRealG(e.items) # SmG(SM!Denote(e.bytes, "header", FloatOK))
       [] e.fmt = "bed"   -> e.items # BdG(BD!Denote(e.bytes, U8))
       [] e.fmt = "newick" -> [i \in 1..Len(e.items) |-> NwRealG(e.items[i])] # NwExpected(e.bytes, F, TokSet(e.fzero))
       [] OTHER -> FALSE

Free(s, B) == \A i \in 1..Len(s) : s[i] \notin B

DelimFree(fmt, r) ==
  CASE fmt = "fasta"  -> Free(r.f[1], {CR, LF}) /\ Free(r.f[2], {CR, LF, GT})
    [] fmt = "fastq"  -> \A i \in 1..3 : Free(r.f[i], {CR, LF})
    [] fmt \in {"sam", "samh"} ->
         /\ \A i \in 1..11 : Free(r.f[i], {TAB, CR, LF})
         /\ \A j \in 1..((Len(r.f) - 11) \div 4) :
              /\ Free(r.f[8 + 4 * j], {TAB, CR, LF})
              /\ (r.f[9 + 4 * j] # <<72>> => Free(r.f[10 + 4 * j], {TAB, CR, LF}))     \* H values are hex encoded
    [] fmt = "bed"    -> \A i \in 1..Len(r.f) : Free(r.f[i], {TAB, CR, LF})
    [] OTHER -> TRUE                                       \* newick quotes whatever needs quoting

Kinds == {"rec", "hdr", "err"}

Reason(e) ==
  CASE e.op = "decode" ->
         IF e.timedout THEN "decoder-did-not-terminate"
         ELSE IF e.panic THEN "decoder-panicked"
         ELSE IF e.capped THEN "decoder-yields-without-end"
         ELSE IF \E i \in 1..Len(e.items) : e.items[i].k \notin Kinds THEN "item-neither-record-nor-error"
         ELSE IF e.fmt \in {"sam", "bed"} /\ \E i \in 1..Len(e.items) : e.items[i].k = "hdr" THEN "header-from-a-record-reader"
         ELSE IF e.full /\ Drift(e) THEN "NOTE-drift-real-reader-differs-from-the-specifications-machine"
         ELSE "ok"
    [] e.op = "fixpoint" ->
         IF ~DelimFree(e.fmt, e.rec) THEN "ok"
         ELSE IF e.panic THEN "writer-or-reader-panicked-on-accepted-record"
         ELSE IF e.werr THEN "writer-refused-accepted-record"
         ELSE IF e.back # <<e.rec>> THEN "accepted-record-not-a-fixed-point"
         ELSE "ok"
    [] e.op = "ncbi" ->
         IF e.panic THEN "ncbi-reader-panicked"
         ELSE IF e.err = e.hasmat THEN "ncbi-reader-error-with-matrix-or-neither"
         ELSE "ok"
    [] OTHER -> "CERT-unknown-op"

TInit == l = 1 /\ bad = <<>>
TNext == /\ l <= Len(Trace)
         /\ LET why == Reason(Trace[l])
            IN bad' = IF why = "ok" THEN bad ELSE Append(bad, <<l, why>>)
         /\ l' = l + 1
Done == (l = Len(Trace) + 1) => PrintT(<<"VERDICT", l - 1, bad>>)
=============================================================================
