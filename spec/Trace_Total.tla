---------------------------- MODULE Trace_Total ----------------------------
(* Leg T of C11: decode events (arbitrary bytes: terminates, no panic, only records / headers / errors) and fixed-point
   events (an accepted record, written by the matching writer and read back: the same record again - for records
   whose text fields are free of the format's own delimiter bytes), recorded by vh total-drive.
   Items are the generic projection [k, f]: f = the record's byte-string fields
     fasta [name, seq]; fastq [name, seq, quals]; sam 11 fields then (key, type, value, atom) per tag;
     bed [n, 12 fields]; newick (depth, name, distance atom) per node in pre-order. *)
EXTENDS Bytes, Integers, TLC, Json

Trace == ndJsonDeserialize("trace.ndjson")

VARIABLES l, bad
tvars == <<l, bad>>

Free(s, B) == \A i \in 1..Len(s) : s[i] \notin B

DelimFree(fmt, r) ==
  CASE fmt = "fasta"  -> Free(r.f[1], {CR, LF}) /\ Free(r.f[2], {CR, LF, GT})
    [] fmt = "fastq"  -> \A i \in 1..3 : Free(r.f[i], {CR, LF})
    [] fmt \in {"sam", "samh"} ->
         /\ \A i \in 1..11 : Free(r.f[i], {TAB, CR, LF})
         /\ \A j \in 0..(((Len(r.f) - 11) \div 4) - 1) :
              /\ Free(r.f[12 + 4 * j], {TAB, CR, LF})
              /\ (r.f[13 + 4 * j] # <<72>> => Free(r.f[14 + 4 * j], {TAB, CR, LF}))     \* H values are hex encoded
    [] fmt = "bed"    -> \A i \in 1..Len(r.f) : Free(r.f[i], {TAB, CR, LF})
    [] OTHER -> TRUE                                       \* newick quotes whatever needs quoting

Kinds == {"rec", "hdr", "err"}

Reason(e) ==
  CASE e.op = "decode" ->
         IF e.timedout THEN "decoder-did-not-terminate"
         ELSE IF e.panic THEN "decoder-panicked"
         ELSE IF e.capped THEN "decoder-yields-without-end"
         ELSE IF \E i \in 1..Len(e.items) : e.items[i].k \notin Kinds THEN "item-neither-record-nor-error"
         ELSE IF e.fmt \in {"sam", "bed"} /\ \E i \in 1..Len(e.items) : e.items[i].k = "hdr" THEN "header-from-a-record-reader"
         ELSE "ok"
    [] e.op = "fixpoint" ->
         IF ~DelimFree(e.fmt, e.rec) THEN "ok"
         ELSE IF e.panic THEN "writer-or-reader-panicked-on-accepted-record"
         ELSE IF e.werr THEN "writer-refused-accepted-record"
         ELSE IF e.back # <<e.rec>> THEN "accepted-record-not-a-fixed-point"
         ELSE "ok"
    [] e.op = "ncbi" ->
         IF e.panic THEN "ncbi-reader-panicked"
         ELSE IF e.err = e.hasmat THEN "ncbi-reader-error-with-matrix-or-neither"
         ELSE "ok"
    [] OTHER -> "CERT-unknown-op"

TInit == l = 1 /\ bad = <<>>
TNext == /\ l <= Len(Trace)
         /\ LET why == Reason(Trace[l])
            IN bad' = IF why = "ok" THEN bad ELSE Append(bad, <<l, why>>)
         /\ l' = l + 1
Done == (l = Len(Trace) + 1) => PrintT(<<"VERDICT", l - 1, bad>>)
=============================================================================
