CONSTANTS
  MaxLen = 5
  ByteClasses <- MCLines
  NoLenCheck = FALSE
  Kind = "readstring"
INIT Init
NEXT Next
INVARIANTS LemmaScanner LemmaReadString FqSchedFree FqFaultOK
CHECK_DEADLOCK FALSE
