CONSTANTS
  Variant = "code"
  Mode = "C08"
INIT TInit
NEXT TNext
INVARIANT Done
CHECK_DEADLOCK FALSE
