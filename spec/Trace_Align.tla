---------------------------- MODULE Trace_Align ----------------------------
(* Legs T (and R of C10) of C08 / C09 / C10: calls of the real align.Global / align.Local recorded by
   the harness (`vh align-drive`, `vh align-replay`), one event per line, judged by the property-level
   operators of Align.  Layout of a trace:
     line 1            [op |-> "header", ntab]
     lines 2..ntab+1   [op |-> "table", name, kind, alpha, es]   a matrix: es = <<x, y, score>> for every key
                       of the real Go map, in (x, y) order; kind "seeded" (built by the driver), "shipped"
                       (read from the package variable), "lev" (align.Levenshtein restricted to alpha)
     then              [op |-> "levtable", es]                   all entries of align.Levenshtein
                       [op |-> "global" | "local", m, a, b, steps, ai, bi, score, frac, panic,
                               a_after, b_after, m_same, sw_score, sw_panic, wit, big]
                       m = line of the table event; sw_* = the same call with a and b swapped;
                       wit = an alignment of a with b written down by the driver (<<>>: none), big = the
                       table is too large for Opt per event: judged by the witness and C08's rule.
   Mode selects the property.  Events are independent: one rejected event = one entry of bad. *)
EXTENDS Align, Json

CONSTANT Mode        \* "C08" | "C09" | "C10"

Trace == ndJsonDeserialize("trace.ndjson")

VARIABLES l, bad
tvars == <<l, bad>>

(* tables: constants, evaluated once *)
TabOf(t) ==
  LET m == FnOfEntries(t.es, t.alpha)
  IN [kind   |-> t.kind,
      A      |-> { t.alpha[i] : i \in 1..Len(t.alpha) },
      m      |-> m,
      open   |-> IF <<GAP, GAP>> \in DOMAIN m THEN m[<<GAP, GAP>>] ELSE 0,
      sym    |-> Symmetric(m),
      nonpos |-> NonPositiveGaps(m)]
Tab == [k \in 2..(Trace[1].ntab + 1) |-> TabOf(Trace[k])]

IsAlign(e) == e.op \in {"global", "local"}

---------------------------------------------------------------------------
(* C08 *)
C08R(e, T) ==
  IF e.panic THEN "panic"
  ELSE IF e.frac THEN "score-not-integral"
  ELSE IF e.a_after # e.a \/ e.b_after # e.b \/ ~e.m_same THEN "input-modified"
  ELSE IF ~StepsOK(e.steps) THEN "bad-step-value"
  ELSE IF e.op = "global" THEN
         IF ~ValidGlobal(e.steps, e.a, e.b) THEN "global-steps-do-not-consume-exactly-a-and-b"
         ELSE IF e.score # Score(e.steps, e.a, e.b, T.m) THEN
              "score-differs-from-score-of-steps=" \o ToString(Score(e.steps, e.a, e.b, T.m))
         ELSE "ok"
  ELSE IF e.steps = <<>> THEN (IF e.score # 0 THEN "no-steps-but-nonzero-score" ELSE "ok")
  ELSE IF ~ValidLocal(e.steps, e.ai, e.bi, e.a, e.b) THEN "local-steps-leave-a-or-b"
  ELSE IF e.score # ScoreFrom(e.steps, e.ai, e.bi, e.a, e.b, T.m) THEN
       "score-differs-from-score-of-steps=" \o ToString(ScoreFrom(e.steps, e.ai, e.bi, e.a, e.b, T.m))
  ELSE IF NoPositive(e.a, e.b, T.m) THEN "steps-returned-although-no-positive-alignment-exists"
  ELSE "ok"

(* a witness: any valid alignment is a lower bound of the optimum *)
WitR(e, T) ==
  IF e.wit = <<>> THEN "ok"
  ELSE IF e.op = "global" THEN
         IF ~ValidGlobal(e.wit, e.a, e.b) THEN "CERT-witness-is-not-an-alignment-of-a-with-b"
         ELSE IF e.score < Score(e.wit, e.a, e.b, T.m) THEN
              "score-below-an-existing-alignment=" \o ToString(Score(e.wit, e.a, e.b, T.m))
         ELSE "ok"
  \* local: the witness is an alignment of a prefix of a with a prefix of b (offsets 0, 0)
  ELSE IF ~ValidLocal(e.wit, 0, 0, e.a, e.b) THEN "CERT-witness-is-not-a-local-alignment"
  ELSE IF e.score < ScoreFrom(e.wit, 0, 0, e.a, e.b, T.m) THEN
       "score-below-an-existing-alignment=" \o ToString(ScoreFrom(e.wit, 0, 0, e.a, e.b, T.m))
  ELSE "ok"
BigR(e, T) == IF e.panic THEN "panic" ELSE IF WitR(e, T) # "ok" THEN WitR(e, T) ELSE C08R(e, T)

(* C09 *)
OptOf(e, T) == IF e.op = "global" THEN Opt(e.a, e.b, T.m) ELSE LocalOpt(e.a, e.b, T.m)

C09R(e, T) ==
  IF T.open # 0 THEN "out-of-domain"
  ELSE IF e.big THEN BigR(e, T)
  ELSE IF e.panic \/ e.sw_panic THEN "panic"
  ELSE IF WitR(e, T) # "ok" THEN WitR(e, T)
  ELSE IF e.frac THEN "score-not-integral"
  ELSE IF e.score # OptOf(e, T) THEN
       (IF e.score < OptOf(e, T) THEN "score-below-optimum=" ELSE "score-above-optimum=") \o ToString(OptOf(e, T))
  ELSE IF T.sym /\ e.sw_score # e.score THEN "swapped-arguments-give-a-different-score"
  ELSE IF T.kind = "lev" /\ e.op = "global" /\ -e.score # EditDistance(e.a, e.b) THEN
       "levenshtein-score-is-not-minus-edit-distance=" \o ToString(EditDistance(e.a, e.b))
  ELSE "ok"

C09Table(T) ==
  IF T.kind = "shipped" THEN
       IF ~CompleteOver(T.m, T.A) THEN "shipped-matrix-not-complete-over-its-alphabet"
       ELSE IF ~Symmetric(T.m) THEN "shipped-matrix-not-symmetric"
       ELSE IF ~ZeroOpen(T.m) THEN "shipped-matrix-gap-open-not-zero"
       ELSE "ok"
  ELSE IF T.kind = "lev" THEN
       IF ~IsLevenshteinOver(T.m, T.A) THEN "levenshtein-entries-wrong" ELSE "ok"
  ELSE "ok"

ByteSeq == [i \in 1..256 |-> i - 1]

(* C10: a score below the optimum is the known finding only if it is exactly what the documented
   single-table recurrence computes and everything C08 demands holds *)
SingleOf(e, T) == IF e.op = "global" THEN SingleGlobalScore(e.a, e.b, T.m) ELSE SingleLocalScore(e.a, e.b, T.m)

C10R(e, T) ==
  IF T.open = 0 THEN "out-of-domain"
  ELSE IF e.big THEN BigR(e, T)
  ELSE IF e.panic THEN "panic"
  ELSE IF e.frac THEN "score-not-integral"
  ELSE LET opt == OptOf(e, T) IN
       IF e.score = opt THEN "ok"
       ELSE IF e.score > opt THEN "score-above-optimum=" \o ToString(opt)
       ELSE LET c08 == C08R(e, T)
                ss  == SingleOf(e, T)
            IN IF c08 # "ok" THEN "score-below-optimum=" \o ToString(opt) \o "-and-" \o c08
               ELSE IF e.score = ss THEN "KF_SingleStateAffine opt=" \o ToString(opt)
               ELSE "score-below-optimum=" \o ToString(opt) \o "-and-not-the-single-table-value=" \o ToString(ss)

---------------------------------------------------------------------------
AlignReason(e) ==
  LET T == Tab[e.m] IN
  IF ~DefinedFor(T.m, e.a, e.b) THEN                         \* a pair is missing: Get panics (documented) -
       (IF ~e.panic THEN "out-of-domain"                     \* a violation only for the shipped matrices (C09)
        ELSE IF Mode = "C09" /\ T.kind # "seeded" THEN "panic" ELSE "ok")
  \* Local: C08 and C10 speak of non-positive gap scores; C09 (zero gap-open) of any matrix
  ELSE IF e.op = "local" /\ Mode # "C09" /\ (~T.nonpos \/ T.open > 0) THEN "out-of-domain"
  ELSE CASE Mode = "C08" -> C08R(e, T)
         [] Mode = "C09" -> C09R(e, T)
         [] Mode = "C10" -> C10R(e, T)

Reason(e, k) ==
  CASE e.op = "header"   -> "ok"
    [] e.op = "table"    -> IF Mode = "C09" THEN C09Table(Tab[k]) ELSE "ok"
    [] e.op = "levtable" -> IF Mode = "C09" /\ ~IsLevenshtein(FnOfEntries(e.es, ByteSeq))
                            THEN "levenshtein-table-wrong" ELSE "ok"
    [] IsAlign(e)        -> AlignReason(e)

TInit == l = 1 /\ bad = <<>>

TNext == /\ l <= Len(Trace)
         /\ LET why == Reason(Trace[l], l)
            IN bad' = IF why = "ok" THEN bad ELSE Append(bad, <<l, why>>)
         /\ l' = l + 1

TSpec == TInit /\ [][TNext]_tvars

Done == (l = Len(Trace) + 1) => PrintT(<<"VERDICT", l - 1, bad>>)
=============================================================================
