CONSTANTS
  Fmt = "sam"
  Pool <- MCSamPool
  MaxStop = 6
  Broken = "none"
INIT Init
NEXT EmitNext
INVARIANTS EmitCase
CHECK_DEADLOCK FALSE
