CONSTANTS
  Labels <- LabelsACStar
  Pool <- Pool2
  MaxR = 2
  MaxC = 2
  Perms = "all"
INIT Init
NEXT Next
INVARIANTS LayoutFree StarIsGap CorruptRejected MachineIsPRead
CHECK_DEADLOCK FALSE
