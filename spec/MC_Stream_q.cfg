CONSTANTS
  MaxLen = 4
  ByteClasses <- MCClasses3
  PartialOnError = FALSE
INIT Init
NEXT Next
INVARIANTS SchedFree FaultOK StopOK
PROPERTY NoCallbackAfterDone
CHECK_DEADLOCK FALSE
