CONSTANTS
  Alphabet <- AlphaRC
  MaxLen = 3
  Variant = "casefold"
INIT Init
NEXT Next
INVARIANTS Involution
CHECK_DEADLOCK FALSE
