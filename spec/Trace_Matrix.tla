--------------------------- MODULE Trace_Matrix ---------------------------
(* Leg T of C20, Symmetrical and GoString: calls recorded by `vh matrix-drive`.
   event = [sid, op \in {"symmetrical", "gostring", "get", "stepname"},
            m (the receiver before the call: <<x, y, atom>>), after (the receiver after the call),
            panic, res (Symmetrical: the returned matrix),
            parseok, out (GoString: the text evaluated as Go source with go/parser + go/constant - the
                          pairs it denotes, in text order; also for the flow of align/genncbi)]
   Judged by the property-level layer of Matrix.tla: PSymmetrical, PGoStringOK. *)
EXTENDS Matrix, TLC, Json

Trace == ndJsonDeserialize("trace.ndjson")

VARIABLES l, bad
tvars == <<l, bad>>

Reason(e) ==
  LET m == TriplesOf(e.m)
  IN IF Len(e.m) # Cardinality(m) \/ ~IsFunctional(m) THEN "driver-matrix"
     ELSE IF TriplesOf(e.after) # m \/ Len(e.after) # Len(e.m) THEN "receiver-modified"
     ELSE IF e.op = "get" THEN            \* (not a listed property: a difference is a NOTE)
            LET want == PGet(m, e.x, e.y)
            IN IF e.panic # want.panic THEN "NOTE-get-panics-iff-the-pair-is-missing"
               ELSE IF ~e.panic /\ e.val # want.v THEN "NOTE-get-value" ELSE "ok"
     ELSE IF e.op = "stepname" THEN
            IF e.panic # (StepName(e.x) = "") THEN "NOTE-step-string-panics-iff-unknown"
            ELSE IF ~e.panic /\ e.name # StepName(e.x) THEN "NOTE-step-name" ELSE "ok"
     ELSE IF e.op = "symmetrical" THEN
            LET want == PSymmetrical(m)
            IN IF e.panic /\ ~want.panic THEN "panic-without-conflict"
               ELSE IF ~e.panic /\ want.panic THEN "conflict-without-panic"
               ELSE IF e.panic THEN "ok"
               ELSE IF TriplesOf(e.res) = want.m /\ Len(e.res) = Cardinality(want.m) THEN "ok"
               ELSE IF ~(m \subseteq TriplesOf(e.res)) THEN "result-misses-an-original-pair"
               ELSE IF ~(Mirror(m) \subseteq TriplesOf(e.res)) THEN "result-misses-a-mirror-image"
               ELSE "result-has-something-else"
     ELSE IF e.panic THEN "gostring-panic"
     ELSE IF ~e.parseok THEN "gostring-is-not-go-source-of-a-matrix"
     ELSE IF PGoStringOK(e.out, m) THEN "ok"
     ELSE IF { KeyOf(t) : t \in TriplesOf(e.out) } # Keys(m) THEN "gostring-pairs-differ"
     ELSE IF TriplesOf(e.out) # m THEN "gostring-score-not-exact"
     ELSE IF Len(e.out) # Cardinality(m) THEN "gostring-pair-repeated"
     ELSE "gostring-not-ascending"

TInit == l = 1 /\ bad = <<>>

TNext == /\ l <= Len(Trace)
         /\ LET why == Reason(Trace[l])
            IN bad' = IF why = "ok" THEN bad ELSE Append(bad, <<l, why>>)
         /\ l' = l + 1

TSpec == TInit /\ [][TNext]_tvars

Done == (l = Len(Trace) + 1) => PrintT(<<"VERDICT", l - 1, bad>>)
=============================================================================
