--------------------------- MODULE Trace_Traverse ---------------------------
(* Leg T of C19: one event per tree recorded from the real iterators (harness: `vh traverse-drive`).
   event = [sid, kind, n, direct, kids, after, pre, post, size, pos, ppos]
     kids / after : the real tree read before / after the two traversals (child ids in slice order,
                    0 or negative for anything that is not an unchanged node of the tree)
     pre / post   : node ids in the order PreOrder / PostOrder yielded them
     size         : witness - subtree sizes, computed by the harness from its own parent table
     pos / ppos   : witness - position of each node in pre / post (0: not seen)
   Every tree is judged with the witness form (local equations, O(n), no recursion: works for chains of
   10^6 nodes); trees flagged `direct` are judged against the recursive definitions Pre / Post as well.
   Heavy predicates are evaluated at expression level (inside IF conditions). *)
EXTENDS Traverse, TLC, Json

Trace == ndJsonDeserialize("trace.ndjson")

VARIABLES l, bad
tvars == <<l, bad>>

Reason(e) ==
  IF e.panic THEN "traversal-panicked"
  ELSE IF Len(e.kids) # e.n \/ ~SizeOK(e.kids, e.size) THEN "harness-size-witness"
  ELSE IF ~InverseOK(e.pre, e.pos, e.n)  THEN "preorder-not-every-node-exactly-once"
  ELSE IF ~InverseOK(e.post, e.ppos, e.n) THEN "postorder-not-every-node-exactly-once"
  ELSE IF ~PrePosOK(e.kids, e.size, e.pos)  THEN "preorder-differs-from-recursive-order"
  ELSE IF ~PostPosOK(e.kids, e.size, e.ppos) THEN "postorder-differs-from-recursive-order"
  ELSE IF e.after # e.kids THEN "tree-modified"
  ELSE IF e.direct /\ e.pre # Pre(e.kids, 1)   THEN "preorder-differs-from-Pre"
  ELSE IF e.direct /\ e.post # Post(e.kids, 1) THEN "postorder-differs-from-Post"
  \* the iterator value is re-entrant: a pass is not disturbed by another pass over the same value
  ELSE IF e.nested /\ (e.npre # e.pre \/ e.ninner # e.pre) THEN "preorder-pass-disturbed-by-nested-pass"
  ELSE IF e.nested /\ e.npost # e.post THEN "postorder-pass-disturbed-by-nested-pass"
  ELSE "ok"

TInit == l = 1 /\ bad = <<>>

TNext == /\ l <= Len(Trace)
         /\ LET why == Reason(Trace[l])
            IN bad' = IF why = "ok" THEN bad ELSE Append(bad, <<l, why>>)
         /\ l' = l + 1

TSpec == TInit /\ [][TNext]_tvars

Done == (l = Len(Trace) + 1) => PrintT(<<"VERDICT", l - 1, bad>>)
=============================================================================
