CONSTANTS
  Alphabet = {1,2}
  MaxLen = 4
INIT Init
NEXT Next
INVARIANTS PrefixClosed Refines Maximal HasAgrees DeleteRetAgrees JsonImage NoEmptyMember
CHECK_DEADLOCK FALSE
