CONSTANTS
  Labels <- LabelsACStar
  Pool <- Pool1
  MaxR = 3
  MaxC = 3
  Perms = "all"
INIT Init
NEXT Next
INVARIANTS TablesOK
CHECK_DEADLOCK FALSE
