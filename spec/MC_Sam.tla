------------------------------- MODULE MC_Sam -------------------------------
(* Exhaustive models for formats/sam (leg M of C03; "file" is re-used by C11's SamIsolation).
   "record": the baseline record with up to two fields replaced by every value of the pools (incl. quote-leading,
             '@', ':' and empty fields) and up to two typed tags: write -> split on TAB -> ParseLine gives the record
             back; the line is one line, has 11 + #tags fields, tag fields ascend.
   "file":   every file of <= MaxLines lines drawn from headers, two records and seven kinds of malformed lines, each
             line ended by LF or CRLF, blank lines allowed, final newline optional: ReaderHeader's items are the
             lines' items in order (headers verbatim, one error per malformed line, neighbours intact), Reader's
             items are the same without headers; the byte-level line loop equals the line denotation.
   "lines":  every input over {TAB, LF, CR, @, A} up to MaxIn: LineMachine(in) = NonEmptyLines(in). *)
EXTENDS Sam, TLC, Json

CONSTANTS MaxLines, MaxIn, MaxTags

A == 65
F1 == <<49, 101, 43, 48, 48>>            \* "1e+00"
FloatTexts == { F1, <<78, 97, 78>> }      \* and "NaN"
MCFloatOK(v) == v \in FloatTexts

TextVals == { <<>>, <<A>>, <<DQUOTE>>, <<DQUOTE, A>>, <<A, DQUOTE, A>>, <<COLON>>, <<SPACE>>, <<AT>> }
IntVals  == { <<48>>, <<MINUS, 49>>, <<55>>, <<49, 48>> }
Base == [f |-> [i \in 1..11 |-> IF i \in IntFields THEN <<48>> ELSE <<A>>], tags |-> <<>>]

K(c) == <<88, c>>                          \* keys "XA", "XB", ...
TagPool == { Tag(K(65), TyA, <<33>>), Tag(K(65), TyZ, <<A>>), Tag(K(66), Tyi, <<MINUS, 49>>), Tag(K(67), Tyf, F1),
             Tag(K(68), TyZ, <<>>), Tag(K(69), TyZ, <<DQUOTE, COLON, A>>), Tag(K(70), TyH, <<>>), Tag(K(71), TyH, <<255, 0, 171>>),
             Tag(K(72), TyA, <<DQUOTE>>) }

VARIABLES r, nset, lines, text, in, phase
vars == <<r, nset, lines, text, in, phase>>

-----------------------------------------------------------------------------
RInit == r = Base /\ nset = 0 /\ lines = <<>> /\ text = <<>> /\ in = <<>> /\ phase = "record"

SetField(i, v) == /\ phase = "record" /\ nset < 2 /\ r.tags = <<>>
                  /\ IF i \in IntFields THEN v \in IntVals ELSE v \in TextVals
                  /\ (IF i = 1 /\ v # <<>> THEN v[1] # AT ELSE TRUE)
                  /\ r' = [r EXCEPT !.f[i] = v] /\ nset' = nset + 1
                  /\ UNCHANGED <<lines, text, in, phase>>

AddTag(t) == /\ phase = "record" /\ Len(r.tags) < MaxTags
             /\ \A i \in 1..Len(r.tags) : LexLess(r.tags[i].key, t.key)        \* kept ascending, unique keys
             /\ r' = [r EXCEPT !.tags = Append(@, t)]
             /\ UNCHANGED <<nset, lines, text, in, phase>>

RNext == \/ \E i \in 1..11, v \in (TextVals \cup IntVals) : SetField(i, v)
         \/ \E t \in TagPool : AddTag(t)

RoundTrip == phase = "record" =>
               /\ RecInDomain(r)
               /\ OneLine(WriteRec(r))
               /\ LET fs == LineFields(WriteRec(r))
                  IN /\ Len(fs) = 11 + Len(r.tags)
                     /\ TagFieldsSorted(fs)
                     /\ ParseLine(fs, MCFloatOK) = RecItem(r)
               /\ Denote(WriteRec(r), "header", MCFloatOK) = <<RecItem(r)>>
               /\ Denote(WriteRec(r), "records", MCFloatOK) = <<RecItem(r)>>

EmitRec == phase = "record" => PrintT(<<"CASE", ToJson([text |-> WriteRec(r), items |-> <<RecItem(r)>>, mode |-> "header"])>>)

-----------------------------------------------------------------------------
R1 == [Base EXCEPT !.f[1] = <<DQUOTE, A>>, !.tags = <<Tag(K(66), Tyi, <<55>>)>>]
R2 == [Base EXCEPT !.f[11] = <<DQUOTE>>, !.f[2] = <<49, 48>>]
Body(rec) == SubSeq(WriteRec(rec), 1, Len(WriteRec(rec)) - 1)
H1 == <<AT, A>>
H2 == <<AT, 67, 79, TAB, DQUOTE, A, DQUOTE, SPACE, A>>         \* @CO<TAB>"A" A
Few   == Join([i \in 1..10 |-> <<A>>], <<TAB>>)                  \* too few fields
NoInt == Body([Base EXCEPT !.f[4] = <<A>>])                      \* non-numeric integer field
NoInt2 == Body([Base EXCEPT !.f[9] = <<49, A>>])
BadTag1 == Body(Base) \o <<TAB>> \o <<88, 65, COLON, 65>>        \* tag without two colons
BadTag2 == Body(Base) \o <<TAB>> \o <<88, 65, COLON, 81, COLON, A>>   \* unknown type Q
BadTag3 == Body(Base) \o <<TAB>> \o <<88, 65, COLON, 65, COLON, A, A>> \* A with two bytes
BadTag4 == Body(Base) \o <<TAB>> \o <<88, 65, COLON, 105, COLON, A>>  \* i non-numeric
BadTag5 == Body(Base) \o <<TAB>> \o <<88, 65, COLON, 72, COLON, 65, 66, 67>> \* H odd length
Blanks1 == <<TAB, TAB, TAB>>                                     \* not empty, nothing in it: malformed like any other line
Blanks2 == <<SPACE>>
LinePool == { H1, H2, Body(R1), Body(R2), Few, NoInt, NoInt2, BadTag1, BadTag2, BadTag3, BadTag4, BadTag5, Blanks1, Blanks2 }
Expected(ln) == IF ln \in {H1, H2} THEN HdrItem(ln)
                ELSE IF ln = Body(R1) THEN RecItem(R1) ELSE IF ln = Body(R2) THEN RecItem(R2) ELSE ERR
Terms == { <<LF>>, <<CR, LF>>, <<LF, LF>>, <<LF, CR, LF>> }

FInit == r = Base /\ nset = 0 /\ lines = <<>> /\ text = <<>> /\ in = <<>> /\ phase = "file"
AddLine(ln, t) == /\ phase = "file" /\ Len(lines) < MaxLines
                  /\ lines' = Append(lines, ln) /\ text' = text \o ln \o t
                  /\ UNCHANGED <<r, nset, in, phase>>
\* the last line may lack its terminator
EndNoNL(ln) == /\ phase = "file" /\ Len(lines) < MaxLines
               /\ lines' = Append(lines, ln) /\ text' = text \o ln /\ phase' = "file-done"
               /\ UNCHANGED <<r, nset, in>>
FNext == \/ \E ln \in LinePool, t \in Terms : AddLine(ln, t)
         \/ \E ln \in LinePool : EndNoNL(ln)

FileOK == phase \in {"file", "file-done"} =>
            LET want == [i \in 1..Len(lines) |-> Expected(lines[i])] IN
            /\ Denote(text, "header", MCFloatOK) = want
            /\ Denote(text, "records", MCFloatOK) = SelectSeq(want, LAMBDA it : it.k # "hdr")
            /\ LineMachine(text) = NonEmptyLines(text)
            /\ ItemsOfLines(LineMachine(text), "header", MCFloatOK) = want

EmitFile == phase \in {"file", "file-done"} =>
              PrintT(<<"CASE", ToJson([text |-> text, items |-> Denote(text, "header", MCFloatOK), mode |-> "header"])>>)

-----------------------------------------------------------------------------
LInit == r = Base /\ nset = 0 /\ lines = <<>> /\ text = <<>> /\ in = <<>> /\ phase = "lines"
LNext == /\ Len(in) < MaxIn /\ \E b \in {TAB, LF, CR, AT, A} : in' = Append(in, b)
         /\ UNCHANGED <<r, nset, lines, text, phase>>
LinesOK == phase = "lines" => /\ LineMachine(in) = NonEmptyLines(in)
                              /\ Denote(in, "header", MCFloatOK) \in Seq([k : {"hdr", "err"}, text : Seq(0..255)] \cup {ERR})

\* deliberately broken layer (non-vacuity): splitting fields the way encoding/csv does with LazyQuotes - a field that starts
\* with '"' runs to the closing quote - loses quote-leading fields (the unrepaired defect D2)
CsvLikeFields(line) == LET fs == SplitOn(line, TAB)
                       IN [i \in 1..Len(fs) |-> IF fs[i] # <<>> /\ fs[i][1] = DQUOTE
                                                 THEN SelectSeq(fs[i], LAMBDA b : b # DQUOTE) ELSE fs[i]]
RoundTripCsvLike == phase = "record" => ParseLine(CsvLikeFields(Body(r)), MCFloatOK) = RecItem(r)
=============================================================================
