CONSTANTS
  MaxLines = 3
INIT FInit
NEXT FNext
INVARIANTS FileOK
CHECK_DEADLOCK FALSE
