----------------------------- MODULE Trace_Bed -----------------------------
(* Leg T of C04 (also used by C11): events recorded from the real bed Write / MarshalText / Reader.
   ParseUint(tok, 0, 8) syntax is strconv's: the event carries the table of accepted tokens with their values. *)
EXTENDS Bed, TLC, Json

Trace == ndJsonDeserialize("trace.ndjson")

VARIABLES l, bad
tvars == <<l, bad>>

U8Of(e) == { <<e.u8[i][1], e.u8[i][2]>> : i \in 1..Len(e.u8) }
ToItem(x) == IF x.k = "rec" THEN BRec(x.n, x.f) ELSE IF x.k = "err" THEN BERR ELSE [k |-> x.k]
ToItems(xs) == [i \in 1..Len(xs) |-> ToItem(xs[i])]

WriteReason(e) ==
  LET b == BRec(e.rec.n, e.rec.f) IN
  IF e.panic THEN "writer-panic-or-modified-record"
  ELSE IF ~WriteOK(b)
       THEN (IF e.werr /\ e.merr /\ e.bw = <<>> /\ e.bm = <<>> THEN "ok" ELSE "bad-field-count-not-refused")
  ELSE IF ~RecInDomain(b) THEN "CERT-record-outside-domain"
  ELSE IF e.werr \/ e.merr THEN "writer-error"
  ELSE IF e.bw # e.bm THEN "marshal-differs-from-write"
  ELSE IF ~LineContract(e.bw, b.n) THEN "line-contract"
  ELSE IF ~RoundTripOK(b, e.bw, U8Of(e)) THEN "line-decoded-differently-by-spec-reader"
  ELSE IF e.bw # WriteRec(b) THEN "NOTE-text-not-canonical"
  ELSE "ok"

ReadReason(e) ==
  LET spec == Denote(e.bytes, U8Of(e))
      real == ToItems(e.items)
  IN IF e.haswant /\ spec # ToItems(e.want) THEN "writer-file-not-decoded-by-spec-reader"
     ELSE IF e.panic THEN "reader-panic"
     ELSE IF real # spec THEN "reader-items-differ-from-spec"
     ELSE "ok"

Reason(e) == IF e.op = "write" THEN WriteReason(e) ELSE ReadReason(e)

TInit == l = 1 /\ bad = <<>>
TNext == /\ l <= Len(Trace)
         /\ LET why == Reason(Trace[l])
            IN bad' = IF why = "ok" THEN bad ELSE Append(bad, <<l, why>>)
         /\ l' = l + 1
Done == (l = Len(Trace) + 1) => PrintT(<<"VERDICT", l - 1, bad>>)
=============================================================================
