CONSTANTS
  Letters = {65, 255}
  Scores = {1, 2}
INIT Init
NEXT NextNoCheck
INVARIANTS SymmetricalRefines
CHECK_DEADLOCK FALSE
