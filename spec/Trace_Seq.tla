----------------------------- MODULE Trace_Seq -----------------------------
(* Leg T of C12 and C13: calls of the real sequtil functions recorded by `vh seq-drive` /
   `vh seq-exec`, one event per call, judged against the property-level layer of Seq.tla.
   Events are independent of each other (pure functions); every rejected event is listed with the
   clause it breaks (the list is cut at MaxBad entries, the check reports the first per clause).

   event shapes (fixed per op; bytes are ints, strings arrays of ints):
     revcomp    [dst, cap, src, panic, out, src_after, dst_after, twice]
     revcompstr [src, panic, out]
     canon      [seq, k, panic, items, seq_after]          canonpair [seq, k, panic, items, rcitems]
     to2bit     [dst, cap, src, panic, out, dst_after, back]
     from2bit   [dst, cap, src, panic, out, dst_after, src_after, repack, repanic]
     ntoi [b, r]      iton [i, r] *)
EXTENDS Seq, TLC, Json

Trace == ndJsonDeserialize("trace.ndjson")
MaxBad == 40

VARIABLES l, bad
tvars == <<l, bad>>

\* ---- C12
WhyRevComp(e) ==
  IF ~Over(e.src, Letters) THEN (IF e.panic THEN "ok" ELSE "revcomp-no-panic-on-foreign-byte")
  ELSE IF e.panic THEN "revcomp-panic-on-legal-sequence"
  ELSE IF Len(e.out) < Len(e.dst) \/ SubSeq(e.out, 1, Len(e.dst)) # e.dst THEN "revcomp-dst-prefix-not-kept"
  ELSE IF e.out # e.dst \o RevComp(e.src) THEN "revcomp-appended-part"
  ELSE IF e.src_after # e.src THEN "revcomp-src-modified"
  ELSE IF e.dst_after # e.dst THEN "revcomp-dst-modified"
  ELSE IF e.twice # e.src THEN "revcomp-twice-is-not-identity"
  ELSE "ok"

WhyRevCompStr(e) ==
  IF ~Over(e.src, Letters) THEN (IF e.panic THEN "ok" ELSE "revcompstr-no-panic-on-foreign-byte")
  ELSE IF e.panic THEN "revcompstr-panic-on-legal-sequence"
  ELSE IF e.out # RevComp(e.src) THEN "revcompstr-result"
  ELSE "ok"

\* the statement covers sequences over the ten letters and k >= 1; anything else is not judged
CanonCount(e) == IF e.k > Len(e.seq) THEN 0 ELSE Len(e.seq) - e.k + 1
WhyCanon(e) ==
  IF ~Over(e.seq, Letters) \/ e.k < 1 THEN "ok"
  ELSE IF e.panic THEN "canon-panic"
  ELSE IF Len(e.items) # CanonCount(e) THEN "canon-count"
  ELSE IF e.items # Canon(e.seq, e.k) THEN "canon-items"
  ELSE "ok"

WhyCanonPair(e) ==
  IF WhyCanon(e) # "ok" THEN WhyCanon(e)
  ELSE IF ~Over(e.seq, Letters) \/ e.k < 1 THEN "ok"
  ELSE IF e.rcitems # Rev(e.items) THEN "canon-strand-symmetry"
  ELSE "ok"

\* ---- C13
WhyTo2Bit(e) ==
  IF ~Over(e.src, Bases) THEN (IF e.panic THEN "ok" ELSE "to2bit-no-panic-on-foreign-byte")
  ELSE IF e.panic THEN "to2bit-panic-on-dna"
  ELSE IF Len(e.out) < Len(e.dst) \/ SubSeq(e.out, 1, Len(e.dst)) # e.dst THEN "to2bit-dst-prefix-not-kept"
  ELSE IF Len(e.out) # Len(e.dst) + (Len(e.src) + 3) \div 4 THEN "to2bit-length"
  ELSE IF e.out # e.dst \o Pack(e.src) THEN "to2bit-packed-bytes"
  ELSE IF e.dst_after # e.dst THEN "to2bit-dst-modified"
  ELSE IF e.back # Upper(e.src) \o APad(Len(e.src)) THEN "from2bit-of-to2bit"
  ELSE "ok"

WhyFrom2Bit(e) ==
  IF ~Over(e.src, Byte) THEN "ok"
  ELSE IF e.panic THEN "from2bit-panic"
  ELSE IF Len(e.out) < Len(e.dst) \/ SubSeq(e.out, 1, Len(e.dst)) # e.dst THEN "from2bit-dst-prefix-not-kept"
  ELSE IF e.out # e.dst \o Unpack(e.src) THEN "from2bit-text"
  ELSE IF e.dst_after # e.dst THEN "from2bit-dst-modified"
  ELSE IF e.repanic \/ e.repack # e.src THEN "to2bit-of-from2bit"
  ELSE "ok"

WhyNtoi(e) == IF e.b \in Byte /\ e.r # Ntoi(e.b) THEN "ntoi" ELSE "ok"
WhyIton(e) == IF e.i \in 0..3 /\ e.r # Iton(e.i) THEN "iton"
              ELSE IF e.i \in 0..3 /\ Ntoi(e.r) # e.i THEN "ntoi-iton-inverse"
              ELSE "ok"                             \* outside 0..3 nothing is stated

Why(e) == CASE e.op = "revcomp"    -> WhyRevComp(e)
            [] e.op = "revcompstr" -> WhyRevCompStr(e)
            [] e.op = "canon"      -> WhyCanon(e)
            [] e.op = "canonpair"  -> WhyCanonPair(e)
            [] e.op = "to2bit"     -> WhyTo2Bit(e)
            [] e.op = "from2bit"   -> WhyFrom2Bit(e)
            [] e.op = "ntoi"       -> WhyNtoi(e)
            [] e.op = "iton"       -> WhyIton(e)
            [] OTHER               -> "unknown-op"

TInit == l = 1 /\ bad = <<>>

TNext == /\ l <= Len(Trace)
         /\ LET why == Why(Trace[l])
            IN  bad' = IF why = "ok" \/ Len(bad) >= MaxBad THEN bad ELSE Append(bad, <<l, why>>)
         /\ l' = l + 1

TSpec == TInit /\ [][TNext]_tvars

Done == (l = Len(Trace) + 1) => PrintT(<<"VERDICT", l - 1, bad>>)
=============================================================================
