CONSTANTS
  Labels <- LabelsACStar
  Pool <- Pool2
  MaxR = 3
  MaxC = 3
  Perms = "some"
INIT Init
NEXT Next
INVARIANTS TablesOK
CHECK_DEADLOCK FALSE
