---------------------------- MODULE Trace_Cross ----------------------------
(* Leg T of C06 / C07 / C18: sessions recorded from the real iterators (harness: vh delivery-drive, fault-drive,
   stop-drive), judged by the property-level predicates of Iter.tla.  Items are interned per session (equal items
   <-> equal ids, the error item is 0).  A session starts with its reference run (op base / clean / full); the
   other events of the session are compared with it:
     base    -> cfg (another read schedule, File on a plain or gzip file): same items;  crlf: same items (well-formed input)
     missing -> File on a path that cannot be opened: exactly one error
     clean   -> fault (stream fails at offset k, once / forever, read size rs): Iter!FaultOK, bounded
     wfault  -> Write to a writer that accepts k bytes: error iff k < length of the output
     full    -> stop (consumer returns false at callback k): Iter!StopOK / StopOKUnordered, no callback after stop;
                ErrorIsLast for the iterators flagged wf;
                stoplong: the same for runs of thousands to millions of items, observed through their length and
                their last items *)
EXTENDS Integers, Sequences, FiniteSets, TLC, Json

Trace == ndJsonDeserialize("trace.ndjson")

IT == INSTANCE Iter WITH ErrItem <- 0, Items <- {}, MaxItems <- 0, NLayers <- 0, AllowIgnore <- FALSE,
                         full <- <<>>, stopAt <- 0, ignoring <- <<>>, i <- 0, calls <- <<>>, stopped <- FALSE, alive <- FALSE

VARIABLES l, bad, sid, base, fsid
tvars == <<l, bad, sid, base, fsid>>

Reason(e, ref) ==
  CASE e.op \in {"base", "clean"} ->
         IF e.panic THEN "panic" ELSE IF e.capped THEN "CERT-reference-run-capped" ELSE "ok"
    [] e.op = "full" ->
         IF e.panic THEN "panic" ELSE IF e.capped THEN "CERT-reference-run-capped"
         ELSE IF e.wf /\ ~IT!ErrorIsLast(e.ids) THEN "error-item-not-last"
         ELSE "ok"
    [] e.op \in {"cfg", "crlf"} ->
         IF e.panic THEN "panic" ELSE IF e.ids # ref THEN "items-depend-on-delivery" ELSE "ok"
    [] e.op = "missing" ->
         IF e.panic THEN "panic" ELSE IF e.ids # <<0>> THEN "unopenable-path-not-one-error" ELSE "ok"
    [] e.op = "fault" ->
         IF e.panic THEN "panic"
         ELSE IF e.capped THEN "unbounded-under-fault"
         ELSE IF ~IT!FaultOK(e.ids, ref) THEN "fault-not-reported-or-fabricated-record"
         ELSE "ok"
    [] e.op = "wfault" ->
         IF e.panic THEN "panic"
         ELSE IF e.err # (e.k < e.outlen) THEN "write-fault-not-reported"
         ELSE "ok"
    [] e.op = "stop" ->
         IF e.panic THEN "panic"
         ELSE IF e.after # 0 THEN "callback-after-stop"
         ELSE IF e.cfg = "unordered" THEN (IF IT!StopOKUnordered(e.ids, ref, e.k) THEN "ok" ELSE "stopped-run-not-distinct-members")
         ELSE IF ~IT!StopOK(e.ids, ref, e.k) THEN "stopped-run-not-a-prefix"
         ELSE "ok"
    [] e.op = "stoplong" ->       \* a long run: its length n, its last items (a window), pre = the items before the window were ref's
         IF e.panic THEN "panic"
         ELSE IF e.after # 0 THEN "callback-after-stop"
         ELSE IF e.n # IT!Min2(e.k, Len(ref)) THEN "stopped-run-has-the-wrong-length"
         ELSE IF e.cfg = "unordered" THEN
              (IF /\ \A i \in 1..Len(e.ids) : \E j \in 1..Len(ref) : e.ids[i] = ref[j]
                  /\ \A i, j \in 1..Len(e.ids) : i # j => e.ids[i] # e.ids[j]
               THEN "ok" ELSE "stopped-run-not-distinct-members")
         ELSE IF ~e.pre \/ Len(e.ids) > e.n \/ e.ids # SubSeq(ref, e.n - Len(e.ids) + 1, e.n) THEN "stopped-run-not-a-prefix"
         ELSE "ok"
    [] e.op = "runaway" ->        \* the first items of a run that was cut off at the driver's item cap
         IF e.panic THEN "panic"
         ELSE IF e.wf /\ \E i \in 1..(Len(e.ids) - 1) : e.ids[i] = 0 THEN "error-item-not-last"
         ELSE "ok"
    [] OTHER -> "CERT-unknown-op"

TInit == l = 1 /\ bad = <<>> /\ sid = 0 - 1 /\ base = <<>> /\ fsid = 0 - 1
TNext == /\ l <= Len(Trace)
         /\ LET e == Trace[l]
                isref == e.op \in {"base", "clean", "full"}
                ref == IF isref THEN e.ids ELSE base
                why == IF e.sid = fsid THEN "ok" ELSE Reason(e, ref)
            IN /\ base' = ref
               /\ sid' = e.sid
               /\ bad' = IF why = "ok" THEN bad ELSE Append(bad, <<l, why>>)
               /\ fsid' = IF why = "ok" THEN fsid ELSE e.sid
         /\ l' = l + 1
Done == (l = Len(Trace) + 1) => PrintT(<<"VERDICT", l - 1, bad>>)
=============================================================================
