------------------------------ MODULE MC_Amino ------------------------------
(* Leg M of C14: every byte string up to MaxLen over Alphabet is a reachable state (grown one byte
   per step); the laws are invariants of that state.
     MC_Amino_codons*  Alphabet = aAcCgGtT + 'N' + 0x81 ('a'+32: folds to 'a', not to a base)
                       MaxLen >= 3: all 64 codons x 8 case patterns, the panic boundary
     MC_Amino_long*    Alphabet = A c G t: longer strings for the concatenation and frame laws
   Repaired = FALSE is the reading-frame code before the fix of D9; FrameLaw must then be refuted
   (TLC exhibits s = <<>>). *)
EXTENDS Amino, TLC

CONSTANTS Alphabet, MaxLen, Repaired

VARIABLE s
Init == s = <<>>
Next == Len(s) < MaxLen /\ \E a \in Alphabet : s' = Append(s, a)

AlphaCodons == Bases \cup {UN, 129}
AlphaLong   == {UA, LC, UG, LT}
Dsts == { <<>>, <<42>>, <<LA, 0, 255>> }

InDom == Over(s, Nucs)

\* the table is the standard code: 3 stops, one Met, one Trp, six-fold Leu/Ser/Arg, ...
CountOf(c) == Cardinality({ i \in 1..64 : CodeStr[i] = c })
ASSUME Len(CodeStr) = 64 /\ Len(GoTableStr) = 64
ASSUME /\ \A c \in {"L", "S", "R"} : CountOf(c) = 6
       /\ \A c \in {"A", "G", "P", "T", "V"} : CountOf(c) = 4
       /\ \A c \in {"I", "*"} : CountOf(c) = 3
       /\ \A c \in {"F", "Y", "C", "H", "Q", "N", "K", "D", "E"} : CountOf(c) = 2
       /\ \A c \in {"M", "W"} : CountOf(c) = 1
       /\ CodonAmino(UA, UT, UG) = Asc("M") /\ CodonAmino(UT, UG, UG) = Asc("W")
       /\ { <<x, y, z>> \in {UA, UC, UG, UT} \X {UA, UC, UG, UT} \X {UA, UC, UG, UT} : CodonAmino(x, y, z) = 42 }
            = { <<UT, UA, UA>>, <<UT, UA, UG>>, <<UT, UG, UA>> }

\* the Go literal, case folding and map-miss panic = the NCBI string, any case, panic outside
TranslateLayer == \A d \in Dsts : ITranslate(d, s) = PTranslate(d, s)

CodeTable == (Len(s) = 3 /\ InDom) =>
                /\ ITranslate(<<>>, s) = Res(<<CodonAmino(s[1], s[2], s[3])>>)
                /\ Translate(s) = Translate(Upper(s))

OnePerCodon == (InDom /\ Len(s) % 3 = 0) =>
                  /\ Len(Translate(s)) = Len(s) \div 3
                  /\ \A d \in Dsts : LET o == PTranslate(d, s).out
                                     IN  SubSeq(o, 1, Len(d)) = d /\ Len(o) = Len(d) + Len(s) \div 3

\* translating a concatenation = concatenating the translations (every split of s at a codon border)
ConcatLaw == (InDom /\ Len(s) % 3 = 0) =>
                \A j \in { x \in 0..Len(s) : x % 3 = 0 } :
                   Translate(s) = Translate(SubSeq(s, 1, j)) \o Translate(SubSeq(s, j + 1, Len(s)))

FrameLaw == InDom => IFrames(s, Repaired) = Res(Frames(s))

FrameShape == InDom => \A f \in 1..3 :
                 Len(Frames(s)[f]) = (IF Len(s) >= f - 1 THEN (Len(s) - (f - 1)) \div 3 ELSE 0)

NameDomain == (s = <<>>) => /\ \A b \in Byte : IAminoNamePanics(b) = (b \notin AminoNameBytes)
                               /\ Cardinality(AminoNameBytes) = 47
=============================================================================
