CONSTANTS
  Variant = "code"
  Alphabet = {1,2}
  MaxLen = 3
  BruteLen = 3
  GapVals <- MCGapNeg
  FreeGaps = FALSE
INIT Init
NEXT Next
INVARIANTS GotohIsBrute ZeroOpenOptimal LevIsEdit SwapSymmetric NeverAbove
CHECK_DEADLOCK FALSE
