CONSTANTS
  MaxNodes = 0
  MaxName = 4
  MaxIn = 0
  NamePool = 1
  DistPool = 1
  OldQuoting = FALSE
  DistText <- MCDistText
  DistOf <- MCDistOf
  NoDist <- MCNoDist
  BadDist <- MCBadDist
INIT NInit
NEXT NNext
INVARIANTS NamesOK
CHECK_DEADLOCK FALSE
