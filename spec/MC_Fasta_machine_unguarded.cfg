CONSTANTS
  MaxIn = 6
  W = 2
  MaxSeq = 0
  MaxSeq2 = 0
  Mode = "machine"
INIT MInit
NEXT MNext
INVARIANTS MachineIsDenoteUnguarded
CHECK_DEADLOCK FALSE
