CONSTANTS
  Alphabet <- AlphaCodons
  MaxLen = 4
  Repaired = TRUE
INIT Init
NEXT Next
INVARIANTS TranslateLayer CodeTable OnePerCodon ConcatLaw FrameLaw FrameShape NameDomain
CHECK_DEADLOCK FALSE
