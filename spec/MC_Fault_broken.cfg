CONSTANTS
  Broken = TRUE
INIT Init
NEXT Next
INVARIANTS WellFormed FaultOK
CHECK_DEADLOCK FALSE
