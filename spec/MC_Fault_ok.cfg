CONSTANTS
  Broken = FALSE
INIT Init
NEXT Next
INVARIANTS WellFormed FaultOK
CHECK_DEADLOCK FALSE
