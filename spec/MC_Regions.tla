----------------------------- MODULE MC_Regions -----------------------------
(* Leg M of C16: every pair of lists (starts, ends) of at most MaxN coordinates over 0..MaxC - equal
   lengths (all interval lists incl. start = end and start > end) and different lengths (panic) -
   the sweep of NewIndex one event per action, and every query of -1 .. MaxC+1 on the finished index.
   `starts` is chosen in Init (few initial states), `ends` in the first step (parallel).
   Terminal states (phase "done" / "panic") carry the property-level answers; they are dumped and
   replayed into the real index by leg R. *)
EXTENDS Regions, TLC

CONSTANTS MaxN,        \* intervals per list
          MaxC,        \* coordinates 0..MaxC
          SkipEmpty    \* TRUE: the repaired NewIndex; FALSE: the unrepaired one (must be refuted)

Coords   == 0 .. MaxC
QuerySeq == [ j \in 1 .. (MaxC + 3) |-> j - 2 ]          \* -1 .. MaxC+1: below the minimum .. above the maximum

VARIABLES starts, ends, phase, st, answers
vars == <<starts, ends, phase, st, answers>>

Lists == BoundedSeq(Coords, MaxN)

Init == /\ starts \in Lists
        /\ ends = <<>> /\ phase = "pick" /\ st = SweepStart /\ answers = <<>>

ChooseEnds(es) ==
  /\ phase = "pick"
  /\ ends' = es
  /\ phase' = IF Panics(starts, es) THEN "panic" ELSE "sweep"
  /\ UNCHANGED <<starts, st, answers>>

evs == Events(starts, ends, SkipEmpty)

Event == /\ phase = "sweep" /\ st.k < Len(evs)
         /\ st' = SweepStep(st, evs[st.k + 1])
         /\ UNCHANGED <<starts, ends, phase, answers>>

Flush == /\ phase = "sweep" /\ st.k = Len(evs)
         /\ st' = SweepFlush(st)
         /\ phase' = "done"
         /\ answers' = [ j \in 1 .. Len(QuerySeq) |-> Covering(starts, ends, QuerySeq[j]) ]   \* property level
         /\ UNCHANGED <<starts, ends>>

Next == \/ \E es \in Lists : ChooseEnds(es)
        \/ Event
        \/ Flush

Spec == Init /\ [][Next]_vars

---------------------------------------------------------------------------
(* Invariants *)

TypeOK == /\ phase \in {"pick", "sweep", "done", "panic"}
          /\ st.k \in 0 .. 2 * MaxN

\* during and after the sweep: breakpoints strictly ascending; every recorded breakpoint lists exactly
\* the intervals covering its position; the active set is "start seen, end not yet seen"
SweepInv ==
  phase \in {"sweep", "done"} =>
    /\ BreaksSorted(st.breaks)
    /\ \A j \in 1 .. Len(st.breaks) :
         st.breaks[j].idxs = Covering(starts, ends, st.breaks[j].pos)
    /\ st.active = { x \in Ids(starts) :
                       /\ \E j \in 1 .. st.k : evs[j] = Ev(x, starts[x + 1], TRUE)
                       /\ ~ \E j \in 1 .. st.k : evs[j] = Ev(x, ends[x + 1], FALSE) }
    /\ (phase = "done" => st.active = {})

\* the finished index answers every query with the property-level answer
AtIsCovering ==
  phase = "done" => \A j \in 1 .. Len(QuerySeq) : At(st.breaks, QuerySeq[j]) = answers[j]

Ascending ==
  phase = "done" => \A j \in 1 .. Len(QuerySeq) : IsAscending(At(st.breaks, QuerySeq[j]))

\* clauses of the statement that follow from Covering (checked on the property level itself)
NoEmptyReported ==
  phase = "done" => \A j \in 1 .. Len(QuerySeq) : \A x \in ToSet(answers[j]) : starts[x + 1] < ends[x + 1]
OutsideNothing ==
  phase = "done" => answers[1] = <<>> /\ answers[Len(QuerySeq)] = <<>>

MismatchPanics == /\ (phase = "panic") => Len(starts) # Len(ends)
                  /\ (phase \in {"sweep", "done"}) => Len(starts) = Len(ends)

\* the index is read-only: no action is enabled after "done" (At is an operator, not an action)
ReadOnly == [][phase = "done" => FALSE]_vars
=============================================================================
