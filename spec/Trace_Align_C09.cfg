CONSTANTS
  Variant = "code"
  Mode = "C09"
INIT TInit
NEXT TNext
INVARIANT Done
CHECK_DEADLOCK FALSE
