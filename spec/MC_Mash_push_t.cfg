CONSTANTS
  Vals = {1,2,3,4,5,6,7}
  MaxPush = 7
  MaxN = 4
INIT Init
NEXT Next
INVARIANTS OrderFree Incremental ViewOK TailLaw Bounded
CHECK_DEADLOCK FALSE
