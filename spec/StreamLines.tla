---------------------------- MODULE StreamLines ----------------------------
(* The line-oriented readers under explicit read schedules and faults (completes Stream.tla, which does the byte-level
   FASTA reader): the two standard-library line sources the codecs use, modelled at the level of their buffers -

     bufio.Scanner with ScanLines (fastq):  Scan() looks for LF in its buffer; without one it reads more; after a read
         error (EOF or a fault) it is called with atEOF = true: the remaining bytes are handed out as a last token
         (one trailing CR dropped), then Scan() = false and Err() is the fault (nil for EOF)
     bufio.Reader.ReadString('\n') (sam, bed): returns up to and including LF; at a read error returns what is
         buffered together with the error

   - composed with the environment of Stream.tla (arbitrary chunking, data together with the error, fault at offset
   `at`, once / forever) and with the FASTQ four-line machine resp. the SAM/BED line loop.  TLC explores every schedule
   of every input and checks that what the consumer gets depends on (data, fault) only (SchedFree), satisfies FaultOK
   under a fault, and that the assumptions written down in MC_Fault (what the line source delivers before an error)
   are what these buffer-level models do (LemmaScanner, LemmaReadString). *)
EXTENDS Bytes, Integers, TLC

FQ == INSTANCE Fastq

CONSTANTS MaxLen, ByteClasses, Kind,       \* Kind: "scanner" (fastq) | "readstring" (lines of sam / bed)
          NoLenCheck                       \* TRUE: deliberately broken FASTQ reader without the length check (non-vacuity)

VARIABLES data, fault,            \* environment
          off, fired,             \* underlying reader: bytes handed out, error results returned
          buf, perr,              \* the line source: bytes read but not yet delivered; pending read error "none" | "eof" | "err"
          toks, srcErr, srcDone,  \* what the line source has delivered: tokens / lines, whether it ended with the fault, whether it ended
          fq                      \* the FASTQ reader's state over the delivered tokens (Kind = "scanner")
vars == <<data, fault, off, fired, buf, perr, toks, srcErr, srcDone, fq>>

Limit == IF fault.at >= 0 THEN fault.at ELSE Len(data)
E == [k |-> "err"]

Init == /\ data \in StringsUpTo(ByteClasses, MaxLen)
        /\ fault = [at |-> 0 - 1, mode |-> "none"]
        /\ off = 0 /\ fired = 0 /\ buf = <<>> /\ perr = "none" /\ toks = <<>> /\ srcErr = FALSE /\ srcDone = FALSE
        /\ fq = FQ!F0

\* one well-formed record with a two-base read (the smallest input on which a truncated quality line can be mistaken for a record)
InitFixed == /\ data = <<AT, LF, 65, 65, LF, PLUS, LF, 65, 65, LF, AT, 65, LF, LF, PLUS, LF, LF>>
             /\ fault = [at |-> 0 - 1, mode |-> "none"]
             /\ off = 0 /\ fired = 0 /\ buf = <<>> /\ perr = "none" /\ toks = <<>> /\ srcErr = FALSE /\ srcDone = FALSE
             /\ fq = FQ!F0

Choose == /\ fault.mode = "none" /\ off = 0 /\ toks = <<>> /\ ~srcDone
          /\ \/ \E k \in 0..Len(data), m \in {"once", "forever"} : fault' = [at |-> k, mode |-> m]
             \/ fault' = [at |-> 0 - 1, mode |-> "set"]
          /\ UNCHANGED <<data, off, fired, buf, perr, toks, srcErr, srcDone, fq>>
Ready == fault.mode # "none"

HasLF(s) == \E i \in 1..Len(s) : s[i] = LF
FirstLF(s) == CHOOSE i \in 1..Len(s) : s[i] = LF /\ \A j \in 1..(i - 1) : s[j] # LF
DropCR(s) == IF s # <<>> /\ s[Len(s)] = CR THEN SubSeq(s, 1, Len(s) - 1) ELSE s

\* one Read() of the underlying reader: needed when the buffer holds no complete line and no error is pending
Fill == /\ Ready /\ ~srcDone /\ ~HasLF(buf) /\ perr = "none"
        /\ \/ \E n \in 1..(Limit - off) :
                /\ buf' = buf \o SubSeq(data, off + 1, off + n) /\ off' = off + n /\ perr' = "none" /\ fired' = fired
           \/ /\ off < Limit /\ buf' = buf \o SubSeq(data, off + 1, Limit) /\ off' = Limit      \* the rest together with EOF / the error
              /\ IF fault.at < 0 THEN perr' = "eof" /\ fired' = fired ELSE perr' = "err" /\ fired' = fired + 1
           \/ /\ off = Limit /\ buf' = buf /\ off' = off
              /\ IF fault.at < 0 \/ (fault.mode = "once" /\ fired >= 1)
                 THEN perr' = "eof" /\ fired' = fired
                 ELSE perr' = "err" /\ fired' = fired + 1
        /\ UNCHANGED <<data, fault, toks, srcErr, srcDone, fq>>

\* without the length check the partial last token of a failing stream becomes a fabricated record
FqStep(st, t) == IF NoLenCheck /\ ~st.dead /\ st.phase = "qual"
                 THEN [st EXCEPT !.phase = "name", !.out = Append(@, FQ!Item(FQ!Rec(st.name, st.seq, t)))]
                 ELSE FQ!Step(st, t)
Deliver(t) == /\ toks' = Append(toks, t)
              /\ fq' = IF Kind = "scanner" THEN FqStep(fq, t) ELSE fq

\* a complete line is in the buffer
Line == /\ Ready /\ ~srcDone /\ HasLF(buf)
        /\ LET i == FirstLF(buf) IN
             /\ Deliver(IF Kind = "scanner" THEN DropCR(SubSeq(buf, 1, i - 1)) ELSE SubSeq(buf, 1, i))
             /\ buf' = SubSeq(buf, i + 1, Len(buf))
        /\ UNCHANGED <<data, fault, off, fired, perr, srcErr, srcDone>>

\* no complete line and a pending read error: the line source ends
End == /\ Ready /\ ~srcDone /\ ~HasLF(buf) /\ perr # "none"
       /\ IF Kind = "scanner"
          THEN \* Scanner: the rest is a last token (if there is one), then Scan() = false
               (IF buf # <<>> THEN Deliver(DropCR(buf)) ELSE UNCHANGED <<toks, fq>>)
          ELSE \* ReadString: (rest, err); the callers parse the rest only at EOF and drop it on a fault
               (IF buf # <<>> /\ perr = "eof" THEN Deliver(buf) ELSE UNCHANGED <<toks, fq>>)
       /\ buf' = <<>> /\ srcErr' = (perr = "err") /\ srcDone' = TRUE /\ perr' = "none"
       /\ UNCHANGED <<data, fault, off, fired>>

Next == Choose \/ Fill \/ Line \/ End
Spec == Init /\ [][Next]_vars

---------------------------------------------------------------------------
Prefix == SubSeq(data, 1, Limit)
IsPrefixOf(a, b) == Len(a) <= Len(b) /\ SubSeq(b, 1, Len(a)) = a

\* the tokens do not depend on the schedule: they are the lines of the delivered prefix
LemmaScanner == (srcDone /\ Kind = "scanner") => toks = ScanLines(Prefix) /\ srcErr = (fault.at >= 0)

\* ReadString: the LF-terminated lines of the prefix; the unterminated rest only at a genuine EOF
CompleteLines(s) == LET ps == Positions(s, LAMBDA b : b = LF)
                    IN [k \in 1..Len(ps) |-> SubSeq(s, IF k = 1 THEN 1 ELSE ps[k - 1] + 1, ps[k])]
Rest(s) == LET ps == Positions(s, LAMBDA b : b = LF)
           IN IF ps = <<>> THEN s ELSE SubSeq(s, ps[Len(ps)] + 1, Len(s))
LemmaReadString == (srcDone /\ Kind = "readstring") =>
                      /\ toks = CompleteLines(Prefix) \o (IF fault.at < 0 /\ Rest(Prefix) # <<>> THEN <<Rest(Prefix)>> ELSE <<>>)
                      /\ srcErr = (fault.at >= 0)

\* the FASTQ reader on top of the scanner
FqItems == IF fq.dead THEN fq.out
           ELSE IF srcErr THEN Append(fq.out, E)            \* every failed Scan with Err() # nil is reported
           ELSE FQ!AtEOF(fq)
RecsOf(its) == SelectSeq(its, LAMBDA x : x.k = "rec")
FqSchedFree == (srcDone /\ Kind = "scanner" /\ fault.at < 0) => FqItems = FQ!Denote(ScanLines(data))
\* C07 for well-formed inputs (the fault-free decode has no error)
FqFaultOK == (srcDone /\ Kind = "scanner" /\ fault.at >= 0 /\ \A i \in 1..Len(FQ!Denote(ScanLines(data))) : FQ!Denote(ScanLines(data))[i] # E) =>
                /\ IsPrefixOf(RecsOf(FqItems), RecsOf(FQ!Denote(ScanLines(data))))
                /\ FqItems # <<>> /\ FqItems[Len(FqItems)] = E
=============================================================================
