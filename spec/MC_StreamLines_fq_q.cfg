CONSTANTS
  MaxLen = 5
  ByteClasses <- MCFqCR
  NoLenCheck = FALSE
  Kind = "scanner"
INIT Init
NEXT Next
INVARIANTS LemmaScanner LemmaReadString FqSchedFree FqFaultOK
CHECK_DEADLOCK FALSE
