------------------------------ MODULE TrieOps ------------------------------
(* trie/trie.go - constant-free operators shared by the exhaustive model (Trie.tla) and the trace
   specification (Trace_Trie.tla).

   Implementation-shaped layer: a node set N is the set of non-empty paths from the root that are
   present as map entries (the Go structure is a tree of map[byte]*Trie; a path p is in N iff
   following p from the root never meets a nil child).  IAdd/IDelete transcribe Add/Delete:
   Add creates every missing node along b; Delete removes the last edge of b (and with it the
   whole subtree) and then prunes ancestors that have become childless, stopping at the first
   ancestor that still has a child.

   Property-level layer (C15): M is the set of maximal sequences; PAdd/PDelete/PHas are the
   statement's own words. *)
EXTENDS Naturals, Sequences, FiniteSets

IsPrefix(p, s) == Len(p) <= Len(s) /\ SubSeq(s, 1, Len(p)) = p
IsProperPrefix(p, s) == Len(p) < Len(s) /\ SubSeq(s, 1, Len(p)) = p
Prefixes(s) == { SubSeq(s, 1, k) : k \in 1..Len(s) }          \* non-empty prefixes

---------------------------------------------------------------------------
(* Implementation-shaped layer *)

ChildPaths(N, p) == { q \in N : Len(q) = Len(p) + 1 /\ IsPrefix(p, q) }
Children(N, p) == { q[Len(q)] : q \in ChildPaths(N, p) }
HasChildAmong(N, p) == ChildPaths(N, p) # {}

IAdd(N, b) == N \cup Prefixes(b)

\* the prune loop: going back from the parent of b, a node is removed while it has no child left
RECURSIVE Prune(_, _, _)
Prune(N, b, i) ==          \* i = length of the ancestor whose child b[i+1] has just been removed
  IF i = 0 THEN N
  ELSE LET anc == SubSeq(b, 1, i)
       IN IF HasChildAmong(N, anc) THEN N
          ELSE Prune(N \ {anc}, b, i - 1)

IDelete(N, b) ==
  IF b \notin N THEN N
  ELSE LET cut == { q \in N : ~IsPrefix(b, q) }      \* delete(stack[last].m, b[last]) drops the subtree
       IN Prune(cut, b, Len(b) - 1)

IDeleteRet(N, b) == b \in N
IHas(N, x) == x = <<>> \/ x \in N
Leaves(N) == { p \in N : ~HasChildAmong(N, p) }

---------------------------------------------------------------------------
(* Property-level layer: the set M of maximal sequences *)

PAdd(M, b) ==
  IF b = <<>> \/ (\E x \in M : IsPrefix(b, x)) THEN M
  ELSE (M \ { x \in M : IsProperPrefix(x, b) }) \cup {b}

PDelete(M, b) == M \ { x \in M : IsPrefix(b, x) }
PDeleteRet(M, b) == \E x \in M : IsPrefix(b, x)
PHas(M, x) == x = <<>> \/ \E y \in M : IsPrefix(x, y)

\* JSON image: the nested object {"m": {"<byte>": {"m": ...}}} as nested functions; decoding it
\* gives back the node set, hence the same M.
RECURSIVE Img(_, _)
Img(N, p) == [ a \in Children(N, p) |-> Img(N, Append(p, a)) ]
RECURSIVE Decode(_, _)
Decode(img, p) == UNION { {Append(p, a)} \cup Decode(img[a], Append(p, a)) : a \in DOMAIN img }
=============================================================================
