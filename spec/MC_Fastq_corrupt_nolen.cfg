CONSTANTS
  MaxIn = 0
  MaxRecs = 2
INIT CInit
NEXT CNext
INVARIANTS RejectNoLen
CHECK_DEADLOCK FALSE
