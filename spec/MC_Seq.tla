------------------------------- MODULE MC_Seq -------------------------------
(* Leg M of C12 and C13: every byte string up to MaxLen over Alphabet is a reachable state (the
   string grows by one byte per step, so the enumeration is done by TLC's parallel next-state
   workers and not by the single-threaded Init); the laws are invariants of that state.

   Configurations:
     MC_Seq_rc*      Alphabet = aAcCgGtTnN + 'X' (a byte outside the alphabet)        C12
     MC_Seq_pack*    Alphabet = aAcCgGtT + 'N' (legal for C12, illegal for 2-bit)      C13
     MC_Seq_unpack*  Alphabet = 0..255 (packed bytes)                                  C13
   Variant # "ok" switches one deliberately broken transcription in (non-vacuity):
     "casefold"  complement table maps 'g' to 'C'               => Involution / RCLayer refuted
     "lostdn"    di := i/4 instead of dn + i/4 in DNATo2Bit     => PackLayer refuted *)
EXTENDS Seq, TLC

CONSTANTS Alphabet, MaxLen, Variant

VARIABLE s
Init == s = <<>>
Next == Len(s) < MaxLen /\ \E a \in Alphabet : s' = Append(s, a)

AlphaRC     == Letters \cup {88}
AlphaPack   == Bases \cup {UN}
AlphaBytes  == 0..255

\* dst prefixes: none, one byte, bytes that are themselves letters / extreme values
Dsts == { <<>>, <<0>>, <<LA, 255, UG>> }
Ks   == 1..(MaxLen + 2)

MCComp      == IF Variant = "casefold" THEN [Comp EXCEPT ![LG] = UC] ELSE Comp
MCCompTable == IF Variant = "casefold" THEN [CompTable EXCEPT ![LG] = UC] ELSE CompTable
MCRevComp(x)     == RevCompWith(MCComp, x)
MCIRevComp(d, x) == IRevCompWith(MCCompTable, d, x)
MCITo2Bit(d, x)  == IF Variant = "lostdn" THEN ITo2BitLoop(d, x, 0, 0) ELSE ITo2Bit(d, x)

InDom12 == Over(s, Letters)
InDom13 == Over(s, Bases)

---------------------------------------------------------------------------
(* C12 *)

\* the Go loop is "dst followed by the reversed complement", and panics exactly outside the alphabet
RCLayer == \A d \in Dsts : MCIRevComp(d, s) = PRevComp(d, s)

AppendOnly == InDom12 => \A d \in Dsts :
                 LET o == PRevComp(d, s).out
                 IN  Len(o) = Len(d) + Len(s) /\ SubSeq(o, 1, Len(d)) = d

Involution == InDom12 => /\ Over(MCRevComp(s), Letters)
                         /\ MCRevComp(MCRevComp(s)) = s

CasePreserving == InDom12 => \A i \in 1..Len(s) :
                     IsUpperByte(s[i]) = IsUpperByte(RevComp(s)[Len(s) + 1 - i])

Count == InDom12 => \A k \in Ks : Len(Canon(s, k)) = IF k > Len(s) THEN 0 ELSE Len(s) - k + 1

\* every item is one of the two strands of its window and not larger than either
CanonIsMin == InDom12 => \A k \in Ks : \A i \in 1..Len(Canon(s, k)) :
                 LET w == Window(s, i, k)  c == Canon(s, k)[i]
                 IN  c \in {w, RevComp(w)} /\ ~LexLess(w, c) /\ ~LexLess(RevComp(w), c)

StrandSymmetry == InDom12 => \A k \in Ks : Canon(RevComp(s), k) = Rev(Canon(s, k))

\* one reverse complement sliced at rc[len-i-k : len-i] gives the per-window definition
CanonLayer == InDom12 => \A k \in Ks : ICanon(s, k) = Res(Canon(s, k))

---------------------------------------------------------------------------
(* C13 *)

PackLayer == \A d \in Dsts : MCITo2Bit(d, s) = PTo2Bit(d, s)

PackLen == InDom13 => Len(Pack(s)) = (Len(s) + 3) \div 4 /\ Over(Pack(s), Byte)

\* first base in the most significant bits, A=0 C=1 G=2 T=3
MsbFirst == (InDom13 /\ Len(s) >= 1) => Pack(s)[1] \div 64 = Code(s[1])

PackUnpack == InDom13 => Unpack(Pack(s)) = Upper(s) \o APad(Len(s))

\* s as a packed string (MC_Seq_unpack: Alphabet = 0..255)
UnpackLayer == \A d \in Dsts : IFrom2Bit(d, s) = PFrom2Bit(d, s)
UnpackPack  == /\ Over(Unpack(s), {UA, UC, UG, UT})
               /\ Pack(Unpack(s)) = s
               /\ ITo2Bit(<<>>, IFrom2Bit(<<>>, s)) = Res(s)

\* independent of s: evaluated once, in the initial state
NtoiIton == (s = <<>>) =>
            /\ \A i \in 0..3 : Ntoi(Iton(i)) = i /\ NtoiTable[ItonSwitch(i)] = i
            /\ \A b \in Bases : Iton(Ntoi(b)) = Upper(<<b>>)[1]
            /\ \A b \in Byte : NtoiTable[b] = Ntoi(b) /\ (b \notin Bases => Ntoi(b) = -1)
            /\ \A i \in -2..6 : ItonSwitch(i) = Iton(i)
=============================================================================
