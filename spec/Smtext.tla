------------------------------ MODULE Smtext ------------------------------
(* formats/smtext/smtext.go: ReadNCBI (property C20).  Constant-free operators.

   Property-level layer.  A *layout* is a sequence of structured lines
       [k |-> "c", body]                    a comment line: body starts with '#' in column 0
       [k |-> "e"]                          an empty line (truly empty; a blanks-only line is outside the domain)
       [k |-> "t", pre, toks, seps, post]   a data line: tokens separated by non-empty runs of blanks, optional
                                            leading / trailing blanks
   (all six fields are present in every record).  PRead says what a layout denotes: the first data
   line gives the column labels, every later one a row label and one score per column; a label is a
   single byte, '*' stands for Gap; a row with the wrong number of values, a non-numeric score or a
   multi-character label makes the whole text an error (and there is NO matrix).  A *table*
   [rows, cols, cells] denotes DenoteTable; every layout of a table (IsLayoutOf: any row / column
   order, any blanks, comment and empty lines anywhere) denotes the same matrix.

   Implementation-shaped layer.  Machine folds MStep over bufio.ScanLines(text): the loop body of
   ReadNCBI with its early returns, regexp \S+ tokens, `chars == nil` for "no header yet".

   Num(tok) = [ok, a]: whether strconv.ParseFloat accepts the token, and the atom of its value -
   an uninterpreted, trusted conversion (DESIGN.md section 8) supplied by the model / by the trace. *)
EXTENDS Matrix

LF == 10
CR == 13
HASH == 35
STAR == 42
IsBlank(b) == b \in {9, 10, 12, 13, 32}           \* RE2 \s = [\t\n\f\r ]

Concat(ss) == FlattenSeq(ss)
Err == [err |-> TRUE, m |-> {}]
Ok(m) == [err |-> FALSE, m |-> m]

LabelOK(tok) == Len(tok) = 1
Lab(tok) == IF tok = <<STAR>> THEN Gap ELSE tok[1]
LabNoStar(tok) == tok[1]                                              \* broken variant

---------------------------------------------------------------------------
(* Property level: layouts *)

AllBlank(s) == \A i \in 1..Len(s) : IsBlank(s[i]) /\ s[i] # LF
NoBlank(s)  == \A i \in 1..Len(s) : ~IsBlank(s[i])

WellFormedLine(ln) ==
  CASE ln.k = "c" -> ln.body # <<>> /\ ln.body[1] = HASH /\ (\A i \in 1..Len(ln.body) : ln.body[i] # LF)
    [] ln.k = "e" -> TRUE
    [] OTHER -> /\ Len(ln.toks) >= 1 /\ Len(ln.seps) = Len(ln.toks) - 1
                /\ \A j \in 1..Len(ln.toks) : ln.toks[j] # <<>> /\ NoBlank(ln.toks[j])
                /\ \A j \in 1..Len(ln.seps) : ln.seps[j] # <<>> /\ AllBlank(ln.seps[j])
                /\ AllBlank(ln.pre) /\ AllBlank(ln.post)
                /\ (ln.pre = <<>> => ln.toks[1][1] # HASH)                \* no '#' in column 0
WellFormed(lines) == \A i \in 1..Len(lines) : WellFormedLine(lines[i])

RenderLine(ln) ==
  CASE ln.k = "c" -> ln.body
    [] ln.k = "e" -> <<>>
    [] OTHER -> ln.pre \o Concat([j \in 1..Len(ln.toks) |->
                                    IF j < Len(ln.toks) THEN ln.toks[j] \o ln.seps[j] ELSE ln.toks[j]]) \o ln.post
\* eol = <<LF>> or <<CR, LF>>; final: whether the last line is terminated
Render(lines, eol, final) ==
  Concat([i \in 1..Len(lines) |-> IF i < Len(lines) \/ final THEN RenderLine(lines[i]) \o eol ELSE RenderLine(lines[i])])

DataLines(lines) == SelectSeq(lines, LAMBDA ln : ln.k = "t")

Malformed(lines, Num(_)) ==
  LET d == DataLines(lines)
  IN d # <<>> /\
     LET h == d[1].toks
     IN \/ \E j \in 1..Len(h) : ~LabelOK(h[j])                                   \* multi-character column label
        \/ \E i \in 2..Len(d) :
              \/ Len(d[i].toks) # Len(h) + 1                                      \* wrong number of values
              \/ ~LabelOK(d[i].toks[1])                                           \* multi-character row label
              \/ \E j \in 2..Len(d[i].toks) : ~Num(d[i].toks[j]).ok               \* non-numeric score

\* (with repeated labels - outside the property's domain - the last cell in reading order wins, as in a map)
DenoteLines(lines, Num(_), L(_)) ==
  LET d == DataLines(lines)
  IN IF d = <<>> THEN {}
     ELSE LET h == d[1].toks
              Cells == (2..Len(d)) \X (1..Len(h))
              Key(c) == <<L(d[c[1]].toks[1]), L(h[c[2]])>>
              Later(c, c2) == c2[1] > c[1] \/ (c2[1] = c[1] /\ c2[2] > c[2])
              Trip(c) == <<Key(c)[1], Key(c)[2], Num(d[c[1]].toks[c[2] + 1]).a>>
              norepeat == /\ \A i, j \in 2..Len(d) : d[i].toks[1] = d[j].toks[1] => i = j
                          /\ \A i, j \in 1..Len(h) : h[i] = h[j] => i = j
          IN IF norepeat THEN { Trip(c) : c \in Cells }
             ELSE { Trip(c) : c \in { c1 \in Cells : ~\E c2 \in Cells : Key(c2) = Key(c1) /\ Later(c1, c2) } }

PRead(lines, Num(_)) == IF Malformed(lines, Num) THEN Err ELSE Ok(DenoteLines(lines, Num, Lab))

(* Property level: tables *)
Distinct(s) == \A i, j \in 1..Len(s) : s[i] = s[j] => i = j
ValidTable(T, Num(_)) ==
  /\ Len(T.cols) >= 1 /\ Distinct(T.rows) /\ Distinct(T.cols)
  /\ \A i \in 1..Len(T.rows) : LabelOK(T.rows[i])
  /\ \A j \in 1..Len(T.cols) : LabelOK(T.cols[j])
  /\ Len(T.cells) = Len(T.rows)
  /\ \A i \in 1..Len(T.rows) : Len(T.cells[i]) = Len(T.cols) /\ \A j \in 1..Len(T.cols) : Num(T.cells[i][j]).ok
DenoteTable(T, Num(_)) ==
  { <<Lab(T.rows[i]), Lab(T.cols[j]), Num(T.cells[i][j]).a>> : i \in 1..Len(T.rows), j \in 1..Len(T.cols) }

Ix(s, x) == CHOOSE i \in 1..Len(s) : s[i] = x
IsLayoutOf(lines, T) ==
  LET d == DataLines(lines)
  IN /\ Len(d) = Len(T.rows) + 1
     /\ LET h == d[1].toks
        IN /\ Len(h) = Len(T.cols) /\ { h[j] : j \in 1..Len(h) } = { T.cols[j] : j \in 1..Len(T.cols) }
           /\ { d[i].toks[1] : i \in 2..Len(d) } = { T.rows[i] : i \in 1..Len(T.rows) }
           /\ \A i \in 2..Len(d) :
                 /\ Len(d[i].toks) = Len(h) + 1
                 /\ \A j \in 1..Len(h) : d[i].toks[j + 1] = T.cells[Ix(T.rows, d[i].toks[1])][Ix(T.cols, h[j])]

---------------------------------------------------------------------------
(* Implementation level: bufio.ScanLines, regexp \S+, the loop of ReadNCBI *)

Positions(s, Test(_)) == SelectSeq([i \in 1..Len(s) |-> i], LAMBDA i : Test(s[i]))

\* lines end at LF; one trailing CR is dropped; a final unterminated line is delivered if non-empty
ScanLines(s) ==
  LET ps == Positions(s, LAMBDA b : b = LF)
      n  == Len(ps)
      more == IF n = 0 THEN Len(s) > 0 ELSE ps[n] < Len(s)
      cnt == IF more THEN n + 1 ELSE n
      lo(k) == IF k = 1 THEN 1 ELSE ps[k - 1] + 1
      rawhi(k) == IF k = n + 1 THEN Len(s) ELSE ps[k] - 1
      hi(k) == IF rawhi(k) >= lo(k) /\ s[rawhi(k)] = CR THEN rawhi(k) - 1 ELSE rawhi(k)
  IN [k \in 1..cnt |-> SubSeq(s, lo(k), hi(k))]

\* regexp.MustCompile(`\S+`).FindAllString(row, -1)
Tokens(row) ==
  LET n == Len(row)
      starts == SelectSeq([i \in 1..n |-> i], LAMBDA i : ~IsBlank(row[i]) /\ (i = 1 \/ IsBlank(row[i - 1])))
      ends   == SelectSeq([i \in 1..n |-> i], LAMBDA i : ~IsBlank(row[i]) /\ (i = n \/ IsBlank(row[i + 1])))
  IN [t \in 1..Len(starts) |-> SubSeq(row, starts[t], ends[t])]

\* st = [hdr (chars # nil), chars, m, err]
MInit == [hdr |-> FALSE, chars |-> <<>>, m |-> {}, err |-> FALSE]

\* for i, val := range valStrs[1:]: the first non-numeric score returns an error (the entries already
\* stored are dropped with the matrix); otherwise m[{c, chars[i]}] = x in column order
RowFold(m, c, chars, vals, Num(_)) ==
  IF \E j \in 1..Len(chars) : ~Num(vals[j]).ok THEN [m |-> m, err |-> TRUE]
  ELSE [m |-> FoldLeft(LAMBDA acc, j : SetKey(acc, c, chars[j], Num(vals[j]).a), m, [j \in 1..Len(chars) |-> j]),
        err |-> FALSE]

MStep(st, row, Num(_), L(_)) ==
  IF st.err THEN st                                                    \* ReadNCBI has returned
  ELSE IF row = <<>> \/ row[1] = HASH THEN st                           \* continue
  ELSE LET toks == Tokens(row) IN
       IF ~st.hdr
       THEN IF \E j \in 1..Len(toks) : ~LabelOK(toks[j]) THEN [st EXCEPT !.err = TRUE]
            ELSE [st EXCEPT !.chars = [j \in 1..Len(toks) |-> L(toks[j])],
                            !.hdr = Len(toks) > 0]                       \* append of nothing leaves chars nil
       ELSE IF Len(toks) # Len(st.chars) + 1 THEN [st EXCEPT !.err = TRUE]
            ELSE IF ~LabelOK(toks[1]) THEN [st EXCEPT !.err = TRUE]
            ELSE LET r == RowFold(st.m, L(toks[1]), st.chars, Tail(toks), Num)
                 IN [st EXCEPT !.m = r.m, !.err = r.err]

MachineL(text, Num(_), L(_)) ==
  LET st == FoldLeft(LAMBDA acc, row : MStep(acc, row, Num, L), MInit, ScanLines(text))
  IN IF st.err THEN Err ELSE Ok(st.m)
Machine(text, Num(_)) == MachineL(text, Num, Lab)

\* the structured reading of a text (used to state Machine = PRead over *all* short texts)
Structure(text) ==
  LET rows == ScanLines(text)
      One(row) ==
        IF row = <<>> THEN [k |-> "e", body |-> <<>>, pre |-> <<>>, toks |-> <<>>, seps |-> <<>>, post |-> <<>>]
        ELSE IF row[1] = HASH THEN [k |-> "c", body |-> row, pre |-> <<>>, toks |-> <<>>, seps |-> <<>>, post |-> <<>>]
        ELSE LET n == Len(row)
                 starts == SelectSeq([i \in 1..n |-> i], LAMBDA i : ~IsBlank(row[i]) /\ (i = 1 \/ IsBlank(row[i - 1])))
                 ends   == SelectSeq([i \in 1..n |-> i], LAMBDA i : ~IsBlank(row[i]) /\ (i = n \/ IsBlank(row[i + 1])))
                 c == Len(starts)
             IN [k |-> "t", body |-> <<>>,
                 pre  |-> IF c = 0 THEN row ELSE SubSeq(row, 1, starts[1] - 1),
                 toks |-> [t \in 1..c |-> SubSeq(row, starts[t], ends[t])],
                 seps |-> [t \in 1..(IF c = 0 THEN 0 ELSE c - 1) |-> SubSeq(row, ends[t] + 1, starts[t + 1] - 1)],
                 post |-> IF c = 0 THEN <<>> ELSE SubSeq(row, ends[c] + 1, n)]
  IN [i \in 1..Len(rows) |-> One(rows[i])]
=============================================================================
