INIT Init
NEXT Next
INVARIANT InRange
PROPERTY SetterExact
CHECK_DEADLOCK FALSE
