CONSTANTS
  Variant = "dropIns"
  Alphabet = {1,2}
  MaxLen = 3
  BruteLen = 0
  GapVals <- MCGapNeg
  FreeGaps = FALSE
INIT Init
NEXT Next
INVARIANTS ZeroOpenOptimal
CHECK_DEADLOCK FALSE
