----------------------------- MODULE MC_Smtext -----------------------------
(* Leg M of C20, part 1: the reader over EVERY text up to MaxLen over the byte classes
   {'#', LF, space, TAB, 'A', '*', '1'} ('1' is the numeric class: a token is a score iff it consists
   of '1's).  MachineIsDenote: on the domain (no blanks-only line) the transcription of ReadNCBI
   agrees with the property-level reading PRead of the text's line/token structure, and the
   structure renders back to the text.  The unguarded variant (MC_Smtext_unguarded.cfg) is refuted:
   after a blanks-only first line the code still waits for the header. *)
EXTENDS Smtext

CONSTANTS Alphabet, L1, L2
VARIABLES text, ph
vars == <<text, ph>>

RECURSIVE StringsUpTo(_, _)
StringsUpTo(S, n) == IF n = 0 THEN { <<>> }
                     ELSE LET P == StringsUpTo(S, n - 1)
                          IN P \cup { Append(p, a) : p \in { q \in P : Len(q) = n - 1 }, a \in S }

NumMC(tok) == IF \A i \in 1..Len(tok) : tok[i] = 49 THEN [ok |-> TRUE, a |-> Len(tok)] ELSE [ok |-> FALSE, a |-> 0]

Init == text \in StringsUpTo(Alphabet, L1) /\ ph = 0
Extend(sfx) == /\ ph = 0 /\ ph' = 1
               /\ (Len(text) < L1 => sfx = <<>>)
               /\ text' = text \o sfx
Next == ph = 0 /\ \E sfx \in StringsUpTo(Alphabet, L2) : Extend(sfx)

Final == text # <<>> /\ text[Len(text)] = LF

MachineIsDenote ==
  ph = 1 =>
    LET s == Structure(text)
    IN WellFormed(s) => /\ Machine(text, NumMC) = PRead(s, NumMC)
                        /\ Render(s, <<LF>>, Final) = text
                        /\ IsFunctional(Machine(text, NumMC).m)
                        /\ (Machine(text, NumMC).err => Machine(text, NumMC).m = {})
StarIsGap ==
  ph = 1 => \A t \in Machine(text, NumMC).m : t[1] # STAR /\ t[2] # STAR

MachineIsDenoteUnguarded ==
  ph = 1 => Machine(text, NumMC) = PRead(Structure(text), NumMC)
=============================================================================
