CONSTANTS
  MaxIn = 9
  W = 2
  MaxSeq = 0
  MaxSeq2 = 0
  Mode = "machine"
INIT MInit
NEXT MNext
INVARIANTS MachineIsDenote
CHECK_DEADLOCK FALSE
