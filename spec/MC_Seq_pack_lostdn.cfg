CONSTANTS
  Alphabet <- AlphaPack
  MaxLen = 5
  Variant = "lostdn"
INIT Init
NEXT Next
INVARIANTS PackLayer
CHECK_DEADLOCK FALSE
