----------------------------- MODULE MC_Traverse -----------------------------
(* Leg M of C19: every ordered tree with at most MaxNodes nodes (as depth sequences: d[1] = 0,
   d[k+1] \in 1..d[k]+1 - one per shape, Catalan many), both modes, the stack machine of `traverse`
   one loop iteration per action.  Terminal states (stack empty) carry the visit sequence; they are
   dumped and replayed into the real iterators by leg R. *)
EXTENDS Traverse, TLC

CONSTANTS MaxNodes,    \* node bound
          Reversed,    \* FALSE: the code; TRUE: broken variant (children taken from the end), must be refuted
          WitnessN     \* trees up to this size are used to validate the witness form against all permutations

VARIABLES tree, mode, stack, visited
vars == <<tree, mode, stack, visited>>

RECURSIVE DepthSeqs(_)
DepthSeqs(n) == IF n = 1 THEN { <<0>> }
                ELSE { Append(s, x) : s \in DepthSeqs(n - 1), x \in 1 .. MaxNodes } \cap
                     { s \in [1 .. n -> 0 .. MaxNodes] : s[n] <= s[n - 1] + 1 }

ParentOf(d, w) == CHOOSE u \in 1 .. (w - 1) : d[u] = d[w] - 1 /\ \A x \in (u + 1) .. (w - 1) : d[x] >= d[w]
KidsOf(d) == [ v \in 1 .. Len(d) |->
                 SetToSortSeq({ w \in (v + 1) .. Len(d) : ParentOf(d, w) = v }, LAMBDA a, b : a < b) ]

Shapes == UNION { { KidsOf(d) : d \in DepthSeqs(n) } : n \in 1 .. MaxNodes }

Init == /\ tree \in Shapes
        /\ mode \in BOOLEAN                      \* TRUE = PreOrder, FALSE = PostOrder
        /\ stack = TravStart.stack
        /\ visited = TravStart.visited

Step == /\ stack # <<>>
        /\ LET s == TravStep(tree, mode, [stack |-> stack, visited |-> visited], Reversed)
           IN stack' = s.stack /\ visited' = s.visited
        /\ UNCHANGED <<tree, mode>>

Next == Step
Spec == Init /\ [][Next]_vars

---------------------------------------------------------------------------
(* Invariants *)

Want == IF mode THEN Pre(tree, 1) ELSE Post(tree, 1)

StackIsPath       == IsRootPath(tree, stack)
VisitedIsPrefix == IsPrefix(visited, Want)
PreIsRecursive  == (stack = <<>> /\ mode)  => visited = Pre(tree, 1)
PostIsRecursive == (stack = <<>> /\ ~mode) => visited = Post(tree, 1)
TreeUnchanged   == [][tree' = tree]_vars
\* the loop cannot run longer than one iteration per (node, child index): 2n - 1 iterations
Bounded         == Len(stack) <= Len(tree) /\ Len(visited) <= Len(tree)

\* the recursive definition is what the statement's clauses say (property level, once per tree)
ClausesAgree == (stack = TravStart.stack /\ Len(tree) <= WitnessN) =>
                  OrderClauses(tree, Want, mode)

\* the witness form accepts exactly the recursive orders, and only the true sizes (once per tree)
WitnessSound ==
  (stack = TravStart.stack /\ mode /\ Len(tree) <= WitnessN) =>
     LET n == Len(tree) sz == Sizes(tree) IN
       /\ SizeOK(tree, sz)
       /\ \A p \in SetToSeqs(1 .. n) :
            /\ InverseOK(p, InversePerm(p), n)
            /\ PrePosOK(tree, sz, InversePerm(p))  <=> (p = Pre(tree, 1))
            /\ PostPosOK(tree, sz, InversePerm(p)) <=> (p = Post(tree, 1))
       /\ (n <= 5 => \A f \in [1 .. n -> 1 .. n] : SizeOK(tree, f) <=> (f = sz))
=============================================================================
