------------------------------ MODULE MC_Fasta ------------------------------
(* Exhaustive models for formats/fasta (leg M of C01; re-used by C06/C11).
   Configuration "machine":  every input over the byte classes up to MaxIn bytes, grown one byte per step:
        Machine(in) = DenoteQ(in) = DenoteIdx(in), and = Denote(in) inside the layout domain.
   Configuration "layout":   every record list of a small pool, written by the writer model at width W, and
        every layout of the same content (re-wrapping at all cut sets, 1-2 line terminators out of {LF, CRLF}
        after every line, final terminator kept or dropped): all decode to the record list. *)
EXTENDS Fasta, TLC, Json

CONSTANTS MaxIn, W, MaxSeq, MaxSeq2, Mode

A == 65
B == 66
Classes == {GT, LF, CR, A, B}

VARIABLES in,                       \* machine model: the input so far
          recs, ri, pos, text, phase   \* layout model

vars == <<in, recs, ri, pos, text, phase>>

-----------------------------------------------------------------------------
(* machine model *)
MInit == in = <<>> /\ recs = <<>> /\ ri = 0 /\ pos = 0 /\ text = <<>> /\ phase = "machine"
MNext == /\ Len(in) < MaxIn
         /\ \E b \in Classes : in' = Append(in, b)
         /\ UNCHANGED <<recs, ri, pos, text, phase>>

MachineIsDenote == /\ Machine(in) = DenoteQ(in)
                   /\ DenoteIdx(in) = DenoteQ(in)
                   /\ InLayoutDomain(in) => Denote(in) = Machine(in)

\* non-vacuity: without the domain guard the property-level denotation differs from the code (in = <<LF>>)
MachineIsDenoteUnguarded == Denote(in) = Machine(in)

-----------------------------------------------------------------------------
(* layout model *)
Names == { <<>>, <<A>>, <<GT>> }
Seqs(n) == StringsUpTo({A, B}, n)
Singles == { <<Rec(n, s)>> : n \in Names, s \in Seqs(MaxSeq) }
Pairs   == { <<Rec(n1, s1), Rec(n2, s2)>> : n1 \in {<<>>, <<A>>}, n2 \in {<<>>, <<A>>}, s1 \in Seqs(MaxSeq2), s2 \in Seqs(MaxSeq2) }
Terms   == { <<LF>>, <<CR, LF>>, <<LF, LF>>, <<CR, LF, CR, LF>>, <<LF, CR, LF>>, <<CR, LF, LF>> }

LInit == /\ recs \in ({<<>>} \cup Singles \cup Pairs)
         /\ ri = 1 /\ pos = 0 /\ text = <<>> /\ phase = "name" /\ in = <<>>

\* every line but the very first is preceded by the terminator(s) of the line before it
NameLine(t) == /\ phase = "name" /\ ri <= Len(recs)
               /\ text' = (IF text = <<>> THEN <<>> ELSE text \o t) \o <<GT>> \o recs[ri].name
               /\ phase' = "seq" /\ pos' = 0
               /\ UNCHANGED <<in, recs, ri>>

SeqChunk(n, t) == /\ phase = "seq" /\ pos + n <= Len(recs[ri].seq)
                  /\ text' = text \o t \o SubSeq(recs[ri].seq, pos + 1, pos + n)
                  /\ pos' = pos + n
                  /\ UNCHANGED <<in, recs, ri, phase>>

NextRec == /\ phase = "seq" /\ pos = Len(recs[ri].seq)
           /\ ri' = ri + 1 /\ phase' = "name" /\ pos' = 0
           /\ UNCHANGED <<in, recs, text>>

End(t) == /\ phase = "name" /\ ri = Len(recs) + 1
          /\ (text = <<>> => t = <<>>)            \* the empty file has no line to terminate
          /\ text' = text \o t
          /\ phase' = "done"
          /\ UNCHANGED <<in, recs, ri, pos>>

LNext == \/ \E t \in Terms : NameLine(t)
         \/ \E n \in 1..MaxSeq, t \in Terms : SeqChunk(n, t)
         \/ NextRec
         \/ \E t \in Terms \cup {<<>>} : End(t)

LayoutFree == phase = "done" =>
                /\ Denote(text) = recs
                /\ Machine(text) = recs
                /\ DenoteIdx(text) = recs

\* on the initial states: the writer model round-trips and satisfies the property-level contract
WriterRefines == (phase = "name" /\ ri = 1 /\ text = <<>>) =>
                   /\ Denote(WriteAll(recs, W)) = recs
                   /\ Machine(WriteAll(recs, W)) = recs
                   /\ \A i \in 1..Len(recs) :
                        /\ WriterContract(recs[i], WriteRec(recs[i], W), W)
                        /\ Len(WriteRec(recs[i], W)) = MarshalLen(recs[i], W)

\* leg R: the (recs, text) pairs of finished layouts, one JSON line each
Emit == phase = "done" => PrintT(<<"CASE", ToJson([recs |-> recs, text |-> text])>>)

\* deliberately broken layer (non-vacuity of LayoutFree): a reader without UnreadByte loses the '>' of the next record
StepNoUnread(st, b) ==
  IF st.mode = "newline" /\ b = GT
  THEN [mode |-> "start", name |-> <<>>, seq |-> <<>>, any |-> FALSE, out |-> Append(st.out, Rec(st.name, st.seq))]
  ELSE Step(st, b)
LayoutFreeNoUnread == phase = "done" => AtEOF(FoldLeft(StepNoUnread, M0, text)) = recs
=============================================================================
