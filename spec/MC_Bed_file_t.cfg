CONSTANTS
  MaxLines = 4
INIT FInit
NEXT FNext
INVARIANTS FileOK
CHECK_DEADLOCK FALSE
