CONSTANTS
  MaxN = 2
  MaxC = 3
  SkipEmpty = FALSE
INIT Init
NEXT Next
INVARIANTS AtIsCovering
CHECK_DEADLOCK FALSE
