----------------------------- MODULE MC_Matrix -----------------------------
(* Leg M of C20 (Symmetrical, GoString).  Init chooses every partial matrix over Letters with scores
   from Scores; the loop of Symmetrical is explored in every iteration order of the Go map.
     SymmetricalRefines : the loop ends without panic exactly when no mirrored pairs conflict, and then
                          its result is m u Mirror(m) (a functional matrix); it panics only on a conflict
     GoStringOrder      : sorting the keys with bytes.Compare lists every pair once, strictly ascending *)
EXTENDS Matrix

CONSTANTS Letters, Scores
VARIABLES m, todo, st
vars == <<m, todo, st>>

KeySet == Letters \X Letters
MatrixOf(f) == { <<k[1], k[2], f[k]>> : k \in { q \in KeySet : f[q] # 0 } }

Init == /\ \E f \in [KeySet -> Scores \cup {0}] : m = MatrixOf(f)
        /\ todo = m
        /\ st = [res |-> {}, pan |-> FALSE]

Iterate(t) == /\ ~st.pan /\ t \in todo
              /\ st' = ISymStep(m, st, t)
              /\ todo' = todo \ {t}
              /\ UNCHANGED m
Next == \E t \in todo : Iterate(t)

Finished == todo = {} /\ ~st.pan
SymmetricalRefines ==
  /\ st.pan => PSymmetrical(m).panic
  /\ Finished => /\ ~PSymmetrical(m).panic
                 /\ st.res = PSymmetrical(m).m
                 /\ IsFunctional(st.res)
  /\ (~st.pan /\ ~Conflict(m)) => st.res \subseteq m \cup Mirror(m)
ReceiverUnchanged == [][m' = m]_vars
GoStringOrder == PGoStringOK(IGoString(m), m)

\* deliberately broken variants (non-vacuity)
IterateNoCheck(t) == /\ t \in todo
                     /\ st' = [res |-> SetKey(SetKey(st.res, t[1], t[2], t[3]), t[2], t[1], t[3]), pan |-> FALSE]
                     /\ todo' = todo \ {t}
                     /\ UNCHANGED m
NextNoCheck == \E t \in todo : IterateNoCheck(t)
GoStringBySecondByte ==
  PGoStringOK(SetToSortSeq(m, LAMBDA t, u : t[2] < u[2] \/ (t[2] = u[2] /\ t[1] < u[1])), m)
=============================================================================
