-------------------------------- MODULE Iter --------------------------------
(* The push-iterator protocol (iter.Seq / iter.Seq2 called as seq(yield)) and the property-level predicates on item
   sequences used by C06, C07 and C18.  Items are opaque values; ErrItem is the error item.

   Protocol model: a producer owns the full item sequence `full`; NLayers forwarding layers (File -> Reader -> iter:
   `for x := range inner { if !yield(x) { break } }`) sit between it and the consumer, which returns false at its
   StopAt-th callback (0 = never).  A layer whose entry in Ignoring is TRUE drops the `false` it gets from above
   (the bug class `yield(x)` instead of `if !yield(x) { return }`): the producer keeps going and the consumer is
   called again.  With no ignoring layer TLC proves NoCallbackAfterStop, PrefixOfFullRun; with one, it refutes them. *)
EXTENDS Naturals, Sequences, FiniteSets

CONSTANTS ErrItem

---------------------------------------------------------------------------
(* property-level predicates on observed item sequences *)
IsPrefixSeq(a, b) == Len(a) <= Len(b) /\ SubSeq(b, 1, Len(a)) = a
RecsOf(items) == SelectSeq(items, LAMBDA x : x # ErrItem)
Min2(a, b) == IF a <= b THEN a ELSE b

\* C18: stopped at the stop-th callback (stop = Len(full)+1: never): exactly the leading items of the uninterrupted run
StopOK(seen, full, stop) == seen = SubSeq(full, 1, Min2(stop, Len(full)))
\* C18 for the unordered trie.ForEach: the right number of distinct members of the full result
StopOKUnordered(seen, full, stop) ==
  /\ Len(seen) = Min2(stop, Len(full))
  /\ \A i \in 1..Len(seen) : \E j \in 1..Len(full) : seen[i] = full[j]
  /\ \A i, j \in 1..Len(seen) : i # j => seen[i] # seen[j]
ErrorIsLast(full) == \A i \in 1..(Len(full) - 1) : full[i] # ErrItem

\* C07: a failing stream: only leading records of the fault-free decode, at least one error, an error last
FaultOK(items, clean) ==
  /\ IsPrefixSeq(RecsOf(items), RecsOf(clean))
  /\ items # <<>> /\ items[Len(items)] = ErrItem

---------------------------------------------------------------------------
(* protocol model: every item sequence up to MaxItems over Items, every stop position, every layer stack *)
CONSTANTS Items, MaxItems, NLayers, AllowIgnore

VARIABLES full,       \* the producer's item sequence
          stopAt,     \* the consumer returns false at its stopAt-th callback (0: never)
          ignoring,   \* <<BOOLEAN, ...>>: layer k drops the consumer's `false`
          i,          \* index of the next item the producer will yield
          calls,      \* the consumer's callbacks so far
          stopped,    \* the consumer has returned false
          alive       \* the producer's loop is still running
pvars == <<full, stopAt, ignoring, i, calls, stopped, alive>>

RECURSIVE SeqsUpTo(_, _)
SeqsUpTo(S, n) == IF n = 0 THEN { <<>> }
                  ELSE LET P == SeqsUpTo(S, n - 1)
                       IN P \cup { Append(p, a) : p \in { q \in P : Len(q) = n - 1 }, a \in S }

\* does the consumer's `false` reach the producer? only if no layer drops it
Propagates == \A k \in 1..NLayers : ~ignoring[k]

PInit == /\ full \in SeqsUpTo(Items, MaxItems)
         /\ stopAt \in 0..(MaxItems + 1)
         /\ ignoring \in [1..NLayers -> (IF AllowIgnore THEN BOOLEAN ELSE {FALSE})]
         /\ i = 1 /\ calls = <<>> /\ stopped = FALSE /\ alive = TRUE

\* the producer yields full[i]; it travels up through the layers to the consumer
Produce == /\ alive /\ i <= Len(full)
           /\ calls' = Append(calls, full[i])
           /\ LET stopNow == stopped \/ (stopAt > 0 /\ Len(calls) + 1 >= stopAt) IN
                /\ stopped' = stopNow
                /\ alive' = IF stopNow THEN ~Propagates ELSE TRUE
           /\ i' = i + 1
           /\ UNCHANGED <<full, stopAt, ignoring>>

Finish == /\ alive /\ i > Len(full) /\ alive' = FALSE /\ UNCHANGED <<full, stopAt, ignoring, i, calls, stopped>>

PNext == Produce \/ Finish

NoCallbackAfterStop == [][stopped => calls' = calls]_pvars
PrefixOfFullRun == IsPrefixSeq(calls, full) /\ (stopAt > 0 => Len(calls) <= stopAt)
AtEnd == ~alive => StopOK(calls, full, IF stopAt = 0 THEN Len(full) + 1 ELSE stopAt)
=============================================================================
