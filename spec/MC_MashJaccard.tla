--------------------------- MODULE MC_MashJaccard ---------------------------
(* Leg M of C17, part 2: the Jaccard estimate and the Mash distance.
   For every pair of value sets A, B over Vals and every sketch size n:
     JaccardIsMergeWalk : on the property's domain ("two full sketches of equal size") the merge walk
                          of minhash.intersect over the two descending views returns
                          |Bottom_n(A u B) n A n B| and union n
     DistanceTable       : the resulting fixed-point distance is symmetric, within [0, 10^8], 0 for A = B,
                          10^8 when nothing is shared
   JaccardAnySize is the same claim without the fullness guard; TLC refutes it (MC_MashJaccard_anysize.cfg:
   the code's union = min(k, m + len(a)-i + len(b)-j) is not the size of anything when no sketch is full). *)
EXTENDS Mash

CONSTANTS Vals, MaxN, Ks
VARIABLES n, A, B, ph
vars == <<n, A, B, ph>>

Init == n \in 1..MaxN /\ A \in SUBSET Vals /\ B = {} /\ ph = 0
Choose(b) == ph = 0 /\ ph' = 1 /\ B' = b /\ UNCHANGED <<n, A>>
Next == ph = 0 /\ \E b \in SUBSET Vals : Choose(b)

VA == IView(IAdd({}, n, Asc(A)))        \* what Sequences leaves in View(): built by pushes, then sorted
VB == IView(IAdd({}, n, Asc(B)))
Dist(a, b, k) == LET r == IIntersect(a, b, n)      \* Distance = FromJaccard(i/u, k); u = n on the domain
                 IN DistFP(r[1], r[2], k)

JaccardIsMergeWalk ==
  (ph = 1 /\ Full(A, n) /\ Full(B, n)) =>
      IIntersect(VA, VB, n) = <<PJaccardNum(A, B, n), n>>

DistanceTable ==
  (ph = 1 /\ Full(A, n) /\ Full(B, n)) =>
      \A k \in Ks :
         /\ Dist(VA, VB, k) = Dist(VB, VA, k)
         /\ Dist(VA, VB, k) >= 0 /\ Dist(VA, VB, k) <= One
         /\ (A = B => Dist(VA, VB, k) = 0)
         /\ (PJaccardNum(A, B, n) = 0 => Dist(VA, VB, k) = One)
         /\ Dist(VA, VB, k) = DistFP(PJaccardNum(A, B, n), n, k)

\* FromJaccard is non-increasing in j (on the table's grid: all fractions i/m, m <= TableMax)
\* (a statement about constants: evaluated in one state only)
FromJaccardMonotone ==
  (ph = 1 /\ A = {} /\ B = {} /\ n = 1) =>
    \A k \in Ks : \A m1, m2 \in 1..TableMax : \A i1 \in 0..m1, i2 \in 0..m2 :
        (i1 * m2 <= i2 * m1) => DistFP(i1, m1, k) >= DistFP(i2, m2, k)

\* the bracket used off the grid is consistent with the table: every grid value lies in its own bracket
BracketSound ==
  (ph = 1 /\ A = {} /\ B = {} /\ n = 1) =>
    /\ \A k \in Ks : \A m \in 1..TableMax : \A i \in 0..m : InBracket(DistFP(i, m, k), i, m, k)
    /\ \A k \in Ks : \A p \in 1..PMax : InBracket(DistFPP(p, k), 1, 2^p, k) /\ InBracket(DistFPP(p, k), 3, 3 * 2^p, k)
    /\ \A p \in 1..5 : LnP[p] = LnT[2^p][1]                                  \* the two tables agree where they overlap
    /\ \A p \in 1..(PMax - 1) : LnP[p] < LnP[p + 1] /\ 2 * LnP[p + 1] + 64 < 2147483647

\* Variants of the claim outside the property's domain (which part of the guard is needed?).
\* JaccardAnySize (non-empty sets, no fullness guard) is refuted by TLC for n >= 5, e.g. A = B = {1}, n = 6:
\* the walk returns <<1, 5>> - "union" 5 is not the size of anything.  For n <= 3 the only
\* counterexamples have an empty sketch.  JaccardOneFull (one sketch full, both non-empty) holds in scope.
JaccardAnySize ==
  (ph = 1 /\ A # {} /\ B # {}) => IIntersect(VA, VB, n) = <<PJaccardNum(A, B, n), n>>
JaccardOneFull ==
  (ph = 1 /\ (Full(A, n) \/ Full(B, n)) /\ A # {} /\ B # {}) => IIntersect(VA, VB, n) = <<PJaccardNum(A, B, n), n>>
\* the intersection count alone is right on every input; only the code's union is off
InterAnySize == ph = 1 => IIntersect(VA, VB, n)[1] = PJaccardNum(A, B, n)
=============================================================================
