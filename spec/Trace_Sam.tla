----------------------------- MODULE Trace_Sam -----------------------------
(* Leg T of C03 (also used by C11): events recorded from the real sam Write / MarshalText / Reader / ReaderHeader.
   Float syntax is strconv's: the event carries the table of tag-value tokens that ParseFloat accepts; float values
   are compared as atoms between real runs, and by presence/type in the specification. *)
EXTENDS Sam, TLC, Json

Trace == ndJsonDeserialize("trace.ndjson")

VARIABLES l, bad
tvars == <<l, bad>>

AnyFloat(v) == TRUE

\* projection of harness items into specification items (atoms dropped)
ToTags(ts) == [i \in 1..Len(ts) |-> Tag(ts[i].key, ts[i].ty, ts[i].val)]
ToItem(x) == IF x.k = "rec" THEN RecItem([f |-> x.f, tags |-> ToTags(x.tags)])
             ELSE IF x.k = "hdr" THEN HdrItem(x.text)
             ELSE IF x.k = "err" THEN ERR ELSE [k |-> x.k]
ToItems(xs) == [i \in 1..Len(xs) |-> ToItem(xs[i])]

\* float values are opaque to the specification: blank them before comparing
NormF(it) == IF it.k = "rec"
             THEN [it EXCEPT !.tags = [i \in 1..Len(it.tags) |-> IF it.tags[i].ty = Tyf THEN [it.tags[i] EXCEPT !.val = <<>>] ELSE it.tags[i]]]
             ELSE it
NormFs(its) == [i \in 1..Len(its) |-> NormF(its[i])]

WriteReason(e) ==
  LET R == [f |-> e.rec.f, tags |-> ToTags(e.rec.tags)] IN
  IF ~RecInDomain(R) THEN "CERT-record-outside-domain"
  ELSE IF e.werr \/ e.panic THEN "writer-error-or-panic"
  ELSE IF e.bw # e.bm THEN "marshal-differs-from-write"
  ELSE IF ~OneLine(e.bw) THEN "not-exactly-one-line"
  ELSE LET fs == LineFields(e.bw) IN
       IF Len(fs) # 11 + Len(R.tags) THEN "field-count"
       ELSE IF ~TagFieldsSorted(fs) THEN "tags-not-sorted"
       ELSE LET it == ParseLine(fs, AnyFloat) IN
            IF it = ERR THEN "line-rejected-by-spec-reader"
            ELSE IF NormF(it) # NormF(RecItem(R)) THEN "line-decoded-differently-by-spec-reader"
            ELSE IF it # RecItem(R) THEN "NOTE-float-text-not-canonical"
            ELSE "ok"

ReadReason(e) ==
  LET F == ToSet(e.floats)
      FloatOK(v) == v \in F
      spec == Denote(e.bytes, e.mode, FloatOK)
      real == ToItems(e.items)
      cln  == Denote(e.clean, e.mode, FloatOK)
      \* SAM isolation (C11): the corrupted file differs from the clean one in exactly the item at position iso, an error
      Isolated == /\ Len(spec) = Len(cln) /\ e.iso <= Len(cln)
                  /\ cln[e.iso] # ERR /\ spec[e.iso] = ERR
                  /\ \A i \in 1..Len(cln) : i # e.iso => spec[i] = cln[i]
  IN IF e.iso > 0 /\ ~Isolated THEN "CERT-not-a-single-line-corruption"
     ELSE IF e.haswant /\ NormFs(spec) # NormFs(ToItems(e.want)) THEN "writer-file-not-decoded-by-spec-reader"
     ELSE IF e.panic THEN "reader-panic-or-unbounded"
     ELSE IF NormFs(real) # NormFs(spec) THEN "reader-items-differ-from-spec"
     ELSE IF e.haswant /\ e.items # e.want THEN "round-trip-differs"
     ELSE "ok"

Reason(e) == IF e.op = "write" THEN WriteReason(e) ELSE ReadReason(e)

TInit == l = 1 /\ bad = <<>>
TNext == /\ l <= Len(Trace)
         /\ LET why == Reason(Trace[l])
            IN bad' = IF why = "ok" THEN bad ELSE Append(bad, <<l, why>>)
         /\ l' = l + 1
Done == (l = Len(Trace) + 1) => PrintT(<<"VERDICT", l - 1, bad>>)
=============================================================================
