CONSTANTS
  MaxNodes = 3
  MaxName = 0
  MaxIn = 0
  NamePool = 8
  DistPool = 1
  OldQuoting = FALSE
  DistText <- MCDistText
  DistOf <- MCDistOf
  NoDist <- MCNoDist
  BadDist <- MCBadDist
INIT TInit
NEXT TNext
INVARIANTS RoundTrip CondensedOK
CHECK_DEADLOCK FALSE
