------------------------------- MODULE Amino -------------------------------
(* sequtil/amino.go - the standard genetic code, reading frames, amino acid names (C14).

   TLC cannot index into a string, so strings are spelled as tuples of one-character strings and
   converted to bytes by Asc.

   Property-level layer: GenCode (NCBI translation table 1, the 64 amino acids of the codons in TCAG
   order, first base most significant), Translate, PTranslate (append; panic on a length not
   divisible by 3 or a non-ACGT base), Frames, AminoNameBytes (the letters of AminoAcids, either case).
   Implementation-shaped layer: GoTable (the codonToAmino literal: keys in ACGT order as written in
   amino.go), the `>= 'a'` case folding, the map miss = panic, the frame slicing seq[min(i,len):]
   of the repaired TranslateReadingFrames, the aminoToName key list. *)
EXTENDS Seq

AZ == <<"A", "B", "C", "D", "E", "F", "G", "H", "I", "J", "K", "L", "M", "N", "O", "P", "Q", "R", "S", "T", "U", "V", "W", "X", "Y", "Z">>
Asc(c) == IF c = "*" THEN 42 ELSE 64 + (CHOOSE i \in 1..26 : AZ[i] = c)
Bytes(t) == [i \in 1..Len(t) |-> Asc(t[i])]

---------------------------------------------------------------------------
(* Property-level layer *)

\* "FFLLSSSSYY**CC*WLLLLPPPPHHQQRRRRIIIMTTTTNNKKSSRRVVVVAAAADDEEGGGG"
\*  TTT TTC TTA TTG TCT TCC TCA TCG TAT TAC TAA TAG TGT TGC TGA TGG  CTT ... GGG
CodeStr ==
  <<"F", "F", "L", "L", "S", "S", "S", "S", "Y", "Y", "*", "*", "C", "C", "*", "W",
    "L", "L", "L", "L", "P", "P", "P", "P", "H", "H", "Q", "Q", "R", "R", "R", "R",
    "I", "I", "I", "M", "T", "T", "T", "T", "N", "N", "K", "K", "S", "S", "R", "R",
    "V", "V", "V", "V", "A", "A", "A", "A", "D", "D", "E", "E", "G", "G", "G", "G">>
GenCode == Bytes(CodeStr)

Nucs == Bases                                       \* "aAcCgGtT"
Tcag(b) == CASE b = UT \/ b = LT -> 0
             [] b = UC \/ b = LC -> 1
             [] b = UA \/ b = LA -> 2
             [] b = UG \/ b = LG -> 3
CodonAmino(b1, b2, b3) == GenCode[16 * Tcag(b1) + 4 * Tcag(b2) + Tcag(b3) + 1]

\* one letter per codon
Translate(s) == [j \in 1..(Len(s) \div 3) |-> CodonAmino(s[3 * j - 2], s[3 * j - 1], s[3 * j])]

PTranslate(dst, src) ==
  IF Len(src) % 3 = 0 /\ Over(src, Nucs) THEN Res(dst \o Translate(src)) ELSE Panic

Drop(s, n) == SubSeq(s, n + 1, Len(s))              \* first n bases dropped
Trunc3(s)  == SubSeq(s, 1, (Len(s) \div 3) * 3)     \* cut to a multiple of 3
Least(a, b) == IF a < b THEN a ELSE b

\* TranslateReadingFrames(seq), any length including 0, 1, 2: result[i], i = 0..2, is element i+1
Frames(seq) == [f \in 1..3 |-> Translate(Trunc3(Drop(seq, Least(f - 1, Len(seq)))))]

\* const AminoAcids = "ABCDEFGHIKLMNPQRSTVWXYZ*"
AminoAcids == <<"A", "B", "C", "D", "E", "F", "G", "H", "I", "K", "L", "M", "N", "P", "Q", "R", "S", "T", "V", "W", "X", "Y", "Z", "*">>
AminoNameBytes == { Asc(AminoAcids[i]) : i \in 1..Len(AminoAcids) }
                \cup { Asc(AminoAcids[i]) + 32 : i \in { j \in 1..Len(AminoAcids) : AminoAcids[j] # "*" } }

---------------------------------------------------------------------------
(* Implementation-shaped layer *)

\* var codonToAmino = map[[3]byte]byte{ {'A','A','A'}: 'K', {'A','A','C'}: 'N', ... {'T','T','T'}: 'F' }
\* the values in the order of the literal (keys AAA, AAC, AAG, AAT, ACA, ... TTT)
GoTableStr ==
  <<"K", "N", "K", "N", "T", "T", "T", "T", "R", "S", "R", "S", "I", "I", "M", "I",
    "Q", "H", "Q", "H", "P", "P", "P", "P", "R", "R", "R", "R", "L", "L", "L", "L",
    "E", "D", "E", "D", "A", "A", "A", "A", "G", "G", "G", "G", "V", "V", "V", "V",
    "*", "Y", "*", "Y", "S", "S", "S", "S", "*", "C", "W", "C", "L", "F", "L", "F">>
GoTable == Bytes(GoTableStr)
Acgt(b) == CASE b = UA -> 0 [] b = UC -> 1 [] b = UG -> 2 [] b = UT -> 3 [] OTHER -> -1

\* if buf[j] >= 'a' { buf[j] -= 'a' - 'A' };  aa := codonToAmino[buf]  (0 on a miss)
Fold(b) == IF b >= 97 THEN b - 32 ELSE b
ICodon(b1, b2, b3) ==
  LET i1 == Acgt(Fold(b1))  i2 == Acgt(Fold(b2))  i3 == Acgt(Fold(b3))
  IN  IF i1 = -1 \/ i2 = -1 \/ i3 = -1 THEN 0 ELSE GoTable[16 * i1 + 4 * i2 + i3 + 1]

RECURSIVE ITranslateLoop(_, _, _)
ITranslateLoop(dst, src, i) ==                      \* for i := 0; i < len(src); i += 3
  IF i >= Len(src) THEN Res(dst)
  ELSE LET aa == ICodon(src[i + 1], src[i + 2], src[i + 3])
       IN  IF aa = 0 THEN Panic ELSE ITranslateLoop(Append(dst, aa), src, i + 3)
ITranslate(dst, src) == IF Len(src) % 3 # 0 THEN Panic ELSE ITranslateLoop(dst, src, 0)

\* for i := 0; i < 3; i++ { sub := seq[min(i, len(seq)):]; sub = sub[:len(sub)/3*3]; result[i] = Translate(nil, sub) }
\* repaired = FALSE is the code before the fix of defect D9: seq[i:] panics when i > len(seq)
IFrames(seq, repaired) ==
  LET Sub(i) == LET from == IF repaired THEN Least(i, Len(seq)) ELSE i
                    sub  == SubSeq(seq, from + 1, Len(seq))
                IN  SubSeq(sub, 1, (Len(sub) \div 3) * 3)
      R(i) == IF ~repaired /\ i > Len(seq) THEN Panic ELSE ITranslate(<<>>, Sub(i))
  IN  IF \E i \in 0..2 : R(i).panic THEN Panic
      ELSE Res([f \in 1..3 |-> R(f - 1).out])

\* if aa >= 'a' && aa <= 'z' { aa -= 'a' - 'A' };  names, ok := aminoToName[aa];  !ok => panic
\* keys of the aminoToName literal, in the order written
GoNameKeys == <<"A", "B", "C", "D", "E", "F", "G", "H", "I", "K", "L", "M", "N", "P", "Q", "R", "S", "T", "V", "W", "X", "Y", "Z", "*">>
IAminoNamePanics(b) ==
  LET aa == IF b >= 97 /\ b <= 122 THEN b - 32 ELSE b
  IN  ~\E i \in 1..Len(GoNameKeys) : Asc(GoNameKeys[i]) = aa
=============================================================================
