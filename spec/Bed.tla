-------------------------------- MODULE Bed --------------------------------
(* formats/bed (bed.go, iter.go).
   A record is [n |-> field count, f |-> <<12 field texts>>]: every field travels as the byte string of its
   canonical text - integers in canonical decimal, RGB as "r,g,b" in decimal, block lists comma-joined, "" for an
   empty list (Go ints travel as text; int <-> text is strconv's job).  Zero values: "0" for integer fields,
   "0,0,0" for RGB, "" for text fields and lists.
   BED (as this package defines it) has tab-separated fields, no quoting, '#' comment lines, and all records of
   a file share one field count.

     writer            : WriteRec(b) (first n fields TAB-joined, LF); refuses n outside 3..12
     reader, one line  : ParseLine(fields, U8)  (U8: the table of tokens strconv.ParseUint(tok, 0, 8) accepts, with values)
     reader, file      : Denote(in, U8): records in order; the first malformed line or the first line whose field
                         count differs from the first record's ends the iteration with one error *)
EXTENDS Bytes, Integers

BIntFields == {2, 3, 5, 7, 8, 10}
BTextFields == {1, 4, 6}
ZeroField(i) == IF i \in BIntFields THEN <<48>> ELSE IF i = 9 THEN <<48, COMMA, 48, COMMA, 48>> ELSE <<>>
Strands == { <<>>, <<PLUS>>, <<MINUS>>, <<46>> }

BERR == [k |-> "err"]
BRec(n, f) == [k |-> "rec", n |-> n, f |-> f]

\* only the first n fields are part of the record's meaning: the rest is zero after a round trip
Truncate(b) == BRec(b.n, [i \in 1..12 |-> IF i <= b.n THEN b.f[i] ELSE ZeroField(i)])

ListLen(s) == IF s = <<>> THEN 0 ELSE Len(SplitOn(s, COMMA))

---------------------------------------------------------------------------
(* writer *)
WriteOK(b) == b.n >= 3 /\ b.n <= 12
WriteRec(b) == Join(SubSeq(b.f, 1, b.n), <<TAB>>) \o <<LF>>

---------------------------------------------------------------------------
(* reader: one line *)
U8Lookup(tok, U8) == LET M == { p \in U8 : p[1] = tok } IN IF M = {} THEN 0 - 1 ELSE (CHOOSE p \in M : TRUE)[2]

RECURSIVE DecText(_)
DecText(n) == IF n < 10 THEN <<48 + n>> ELSE DecText(n \div 10) \o <<48 + (n % 10)>>

OptInt(s) == IF s = <<>> THEN [ok |-> TRUE, v |-> <<48>>]
             ELSE IF AtoiOK(s) THEN [ok |-> TRUE, v |-> CanonInt(s)] ELSE [ok |-> FALSE]

IntList(s) == IF s = <<>> THEN [ok |-> TRUE, v |-> <<>>, n |-> 0]
              ELSE LET ps == SplitOn(s, COMMA) IN
                   IF \E i \in 1..Len(ps) : ~AtoiOK(ps[i]) THEN [ok |-> FALSE]
                   ELSE [ok |-> TRUE, v |-> Join([i \in 1..Len(ps) |-> CanonInt(ps[i])], <<COMMA>>), n |-> Len(ps)]

Rgb(s, U8) == IF s = <<>> THEN [ok |-> TRUE, v |-> ZeroField(9)]
              ELSE LET ps == SplitOn(s, COMMA) IN
                   IF Len(ps) # 3 \/ \E i \in 1..3 : U8Lookup(ps[i], U8) < 0 THEN [ok |-> FALSE]
                   ELSE [ok |-> TRUE, v |-> Join([i \in 1..3 |-> DecText(U8Lookup(ps[i], U8))], <<COMMA>>)]

\* the value of a canonical non-negative count text, as far as the consistency rule needs it: compare as texts
ParseLine(fields, U8) ==
  LET n == Len(fields) IN
  IF n < 3 \/ n > 12 THEN BERR
  ELSE LET g == [i \in 1..12 |-> IF i <= n THEN fields[i] ELSE <<>>]
           i2 == g[2]  i3 == g[3]
           o5 == OptInt(g[5])  o7 == OptInt(g[7])  o8 == OptInt(g[8])  o10 == OptInt(g[10])
           rgb == Rgb(g[9], U8)
           l11 == IntList(g[11])  l12 == IntList(g[12])
       IN IF ~AtoiOK(i2) \/ ~AtoiOK(i3) THEN BERR
          ELSE IF ~o5.ok THEN BERR
          ELSE IF g[6] \notin Strands THEN BERR
          ELSE IF ~o7.ok \/ ~o8.ok \/ ~rgb.ok \/ ~o10.ok \/ ~l11.ok \/ ~l12.ok THEN BERR
          ELSE IF DecText(l11.n) # o10.v \/ DecText(l12.n) # o10.v THEN BERR      \* len(BlockSizes) = len(BlockStarts) = BlockCount
          ELSE BRec(n, << g[1], CanonInt(i2), CanonInt(i3), g[4], o5.v, g[6], o7.v, o8.v, rgb.v, o10.v, l11.v, l12.v >>)

---------------------------------------------------------------------------
(* reader: a file *)
DataLines(in) == SelectSeq(ScanLines(in), LAMBDA ln : ln # <<>> /\ ln[1] # HASH)

RECURSIVE ItemsFrom(_, _, _, _)
ItemsFrom(lines, k, n1, U8) ==          \* n1: the field count of the first record (0 = none yet)
  IF k > Len(lines) THEN <<>>
  ELSE LET fs == SplitOn(lines[k], TAB) IN
       IF n1 # 0 /\ Len(fs) # n1 THEN <<BERR>>
       ELSE LET it == ParseLine(fs, U8) IN
            IF it = BERR THEN <<BERR>> ELSE <<it>> \o ItemsFrom(lines, k + 1, Len(fs), U8)

Denote(in, U8) == ItemsFrom(DataLines(in), 1, 0, U8)

---------------------------------------------------------------------------
(* property level (C04) *)
CanonU8 == { <<DecText(v), v>> : v \in 0..255 }

RecInDomain(b) ==
  /\ b.n \in 3..12 /\ Len(b.f) = 12
  /\ \A i \in BTextFields : NoByte(b.f[i], {TAB, CR, LF})
  /\ (b.f[1] = <<>> \/ b.f[1][1] # HASH)
  /\ \A i \in BIntFields : IsCanonInt(b.f[i])
  /\ b.f[6] \in Strands
  /\ Rgb(b.f[9], CanonU8).ok /\ Rgb(b.f[9], CanonU8).v = b.f[9]
  /\ IntList(b.f[11]).ok /\ IntList(b.f[11]).v = b.f[11]
  /\ IntList(b.f[12]).ok /\ IntList(b.f[12]).v = b.f[12]
  \* block lists that are written have BlockCount entries; a count that is written without its lists must be 0
  /\ (b.n = 12 => (DecText(ListLen(b.f[11])) = b.f[10] /\ DecText(ListLen(b.f[12])) = b.f[10]))
  /\ (b.n \in {10, 11} => b.f[10] = <<48>> /\ (b.n = 11 => b.f[11] = <<>>))

LineContract(text, n) ==
  /\ text # <<>> /\ text[Len(text)] = LF /\ \A i \in 1..(Len(text) - 1) : text[i] # LF
  /\ Len(SplitOn(SubSeq(text, 1, Len(text) - 1), TAB)) = n

RoundTripOK(b, text, U8) == ParseLine(SplitOn(SubSeq(text, 1, Len(text) - 1), TAB), U8) = Truncate(b)
=============================================================================
