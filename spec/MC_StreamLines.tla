--------------------------- MODULE MC_StreamLines ---------------------------
EXTENDS StreamLines
MCFq == {AT, PLUS, LF, 65}
MCFqCR == {AT, PLUS, LF, CR, 65}
MCLines == {LF, CR, TAB, 65}
=============================================================================
