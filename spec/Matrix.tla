------------------------------ MODULE Matrix ------------------------------
(* align/align.go: SubstitutionMatrix = map[[2]byte]float64 (properties C20, C09).
   Constant-free operators.  A matrix is a *set of triples* <<x, y, s>> with x, y bytes (0..255,
   Gap = 255) and s a score atom; it is functional when no key <<x, y>> occurs twice.  Scores are
   atoms compared by equality only (in traces: the hex of math.Float64bits; in the models: small
   integers) - DESIGN.md 4.2.

   Property-level layer : Mirror, Conflict, PSymmetrical, PGoStringOK
   Implementation layer : ISymStep (one iteration of the loop of Symmetrical over the Go map, in
                          whatever order the runtime picks), IGoString (sort.Slice by bytes.Compare) *)
EXTENDS Integers, Sequences, FiniteSets, SequencesExt

Gap == 255

KeyOf(t) == <<t[1], t[2]>>
Keys(m) == { KeyOf(t) : t \in m }
\* no two triples with one key (for finite m the same as \A t, u \in m : KeyOf(t) = KeyOf(u) => t = u, without the quadratic cost)
IsFunctional(m) == Cardinality(Keys(m)) = Cardinality(m)
HasKey(m, x, y) == \E t \in m : t[1] = x /\ t[2] = y
Get(m, x, y) == (CHOOSE t \in m : t[1] = x /\ t[2] = y)[3]
SetKey(m, x, y, s) == { t \in m : ~(t[1] = x /\ t[2] = y) } \cup { <<x, y, s>> }        \* m[{x,y}] = s
TriplesOf(seq) == { seq[i] : i \in 1..Len(seq) }

---------------------------------------------------------------------------
(* Symmetrical - property level: a new matrix with every original pair and its mirror image with
   the original score and nothing else; panics exactly when two mirrored pairs carry different scores *)
Flip(t) == <<t[2], t[1], t[3]>>
Mirror(m) == { Flip(t) : t \in m }
Conflict(m) == \E t, u \in m : t[1] # t[2] /\ u[1] = t[2] /\ u[2] = t[1] /\ u[3] # t[3]
PSymmetrical(m) == IF Conflict(m) THEN [panic |-> TRUE, m |-> {}]
                   ELSE [panic |-> FALSE, m |-> m \cup Mirror(m)]

\* C09's vocabulary on the same representation
Symmetric(m) == Mirror(m) = m
CompleteOver(m, S) == \A x \in S, y \in S : HasKey(m, x, y)

(* Symmetrical - implementation level: one iteration of `for k, v := range m` on the pair t;
   st = [res, pan] *)
ISymStep(m, st, t) ==
  IF t[1] # t[2] /\ HasKey(m, t[2], t[1]) /\ Get(m, t[2], t[1]) # t[3]
  THEN [res |-> st.res, pan |-> TRUE]
  ELSE [res |-> SetKey(SetKey(st.res, t[1], t[2], t[3]), t[2], t[1], t[3]), pan |-> st.pan]

---------------------------------------------------------------------------
(* GoString - keys in strictly ascending bytes.Compare order, each pair exactly once, exact score.
   `out` is the sequence of triples denoted by the generated Go source, in text order. *)
KeyLess(a, b) == a[1] < b[1] \/ (a[1] = b[1] /\ a[2] < b[2])
StrictlyAscending(out) == \A i \in 1..(Len(out) - 1) : KeyLess(KeyOf(out[i]), KeyOf(out[i + 1]))
PGoStringOK(out, m) == /\ TriplesOf(out) = m                   \* every pair with its exact score, nothing else
                       /\ Len(out) = Cardinality(m)            \* exactly once
                       /\ StrictlyAscending(out)

\* beyond the listed properties: Get panics exactly on a missing pair; the names of the three steps (any other value panics)
PGet(m, x, y) == IF HasKey(m, x, y) THEN [panic |-> FALSE, v |-> Get(m, x, y)] ELSE [panic |-> TRUE, v |-> ""]
StepName(s) == CASE s = 1 -> "match" [] s = 2 -> "deletion" [] s = 3 -> "insertion" [] OTHER -> ""

IGoString(m) == SetToSortSeq(m, LAMBDA t, u : KeyLess(KeyOf(t), KeyOf(u)))
=============================================================================
