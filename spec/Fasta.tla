------------------------------- MODULE Fasta -------------------------------
(* formats/fasta.  Layers:
     writer, implementation-shaped : WriteRec(r, W)   (Write: ">name LF" then W-byte lines)
     reader, implementation-shaped : Machine(in)      (the byte state machine of read(), folded)
     reader, property level        : Denote(in)       (line based) and DenoteIdx(in) (same, linear, no copying)
     writer, property level        : WriterContract(r, text, MaxLine)
   A record is [name |-> bytes, seq |-> bytes]. *)
EXTENDS Bytes

Rec(n, s) == [name |-> n, seq |-> s]

RecInDomain(r) == NoByte(r.name, {CR, LF}) /\ NoByte(r.seq, {CR, LF, GT})

---------------------------------------------------------------------------
(* Writer as the code does it *)
RECURSIVE WrapLines(_, _)
WrapLines(seq, W) ==
  IF seq = <<>> THEN <<>>
  ELSE IF Len(seq) <= W THEN seq \o <<LF>>
  ELSE SubSeq(seq, 1, W) \o <<LF>> \o WrapLines(SubSeq(seq, W + 1, Len(seq)), W)

WriteRec(r, W) == <<GT>> \o r.name \o <<LF>> \o WrapLines(r.seq, W)
WriteAll(recs, W) == FlattenSeq([i \in 1..Len(recs) |-> WriteRec(recs[i], W)])

\* MarshalText pre-computes the length and panics if Write produced another one
MarshalLen(r, W) == 2 + Len(r.name) + Len(r.seq) + ((Len(r.seq) + W - 1) \div W)

---------------------------------------------------------------------------
(* Reader as the code does it: one Step per byte returned by ReadByte.  `out` collects the records
   returned by successive read() calls; UnreadByte('>') is modelled by handling the byte in a fresh
   read (mode "name"). *)
M0 == [mode |-> "start", name |-> <<>>, seq |-> <<>>, any |-> FALSE, out |-> <<>>]

Step(st, b) ==
  LET s == [st EXCEPT !.any = TRUE] IN
  CASE st.mode = "start" ->
         IF b = GT THEN [s EXCEPT !.mode = "name"]
         ELSE IF IsBrk(b) THEN [s EXCEPT !.mode = "newline"]
         ELSE [s EXCEPT !.mode = "sequence", !.seq = Append(@, b)]
    [] st.mode = "sequence" ->
         IF IsBrk(b) THEN [s EXCEPT !.mode = "newline"] ELSE [s EXCEPT !.seq = Append(@, b)]
    [] st.mode = "name" ->
         IF IsBrk(b) THEN [s EXCEPT !.mode = "newline"] ELSE [s EXCEPT !.name = Append(@, b)]
    [] st.mode = "newline" ->
         IF IsBrk(b) THEN s
         ELSE IF b = GT THEN       \* UnreadByte; read() returns; the next read() consumes '>' in state start
              [mode |-> "name", name |-> <<>>, seq |-> <<>>, any |-> TRUE,
               out |-> Append(st.out, Rec(st.name, st.seq))]
         ELSE [s EXCEPT !.mode = "sequence", !.seq = Append(@, b)]

AtEOF(st) == IF st.any THEN Append(st.out, Rec(st.name, st.seq)) ELSE st.out

Machine(in) == AtEOF(FoldLeft(Step, M0, in))

---------------------------------------------------------------------------
(* Property-level reader: lines are the maximal runs of non-CR/LF bytes (blank lines vanish);
   a line starting with '>' opens a record, every other line is sequence. *)
Group(tokens) ==
  LET add(acc, t) ==
        IF t[1] = GT THEN Append(acc, Rec(Tail(t), <<>>))
        ELSE IF acc = <<>> THEN <<Rec(<<>>, t)>>
        ELSE [acc EXCEPT ![Len(acc)].seq = @ \o t]
  IN FoldLeft(add, <<>>, tokens)

InLayoutDomain(in) == in = <<>> \/ ~IsBrk(in[1])      \* no blank line before the first record

Denote(in) == Group(BrkTokens(in))

\* the code's quirk outside the property's domain: leading line breaks followed by '>' or by
\* nothing yield one spurious empty record (kept in the specification as behaviour, not as a property)
DenoteQ(in) ==
  LET toks == BrkTokens(in)
  IN IF in # <<>> /\ IsBrk(in[1]) /\ (toks = <<>> \/ toks[1][1] = GT)
     THEN <<Rec(<<>>, <<>>)>> \o Group(toks)
     ELSE Group(toks)

\* linear form for long inputs (trace validation): record heads are '>' at line starts
DenoteIdx(s) ==
  LET n == Len(s)
      heads == SelectSeq([i \in 1..n |-> i], LAMBDA i : s[i] = GT /\ (i = 1 \/ IsBrk(s[i - 1])))
      h == Len(heads)
      nameless == n > 0 /\ s[1] # GT            \* content before the first '>' line
      lo(k) == heads[k]
      hi(k) == IF k = h THEN n ELSE heads[k + 1] - 1
      nameEnd(p, q) == LET B == { i \in p..q : IsBrk(s[i]) }
                       IN IF B = {} THEN q + 1 ELSE CHOOSE i \in B : \A j \in B : i <= j
      rec(k) == LET p == lo(k)  q == hi(k)  e == nameEnd(p, q)
                IN Rec(SubSeq(s, p + 1, e - 1), SelectSeq(SubSeq(s, e, q), LAMBDA b : ~IsBrk(b)))
      first == LET q == IF h = 0 THEN n ELSE heads[1] - 1
               IN Rec(<<>>, SelectSeq(SubSeq(s, 1, q), LAMBDA b : ~IsBrk(b)))
      rest == [k \in 1..h |-> rec(k)]
  IN IF nameless THEN <<first>> \o rest ELSE rest

---------------------------------------------------------------------------
(* Property-level writer contract (C01): a '>' name line, then sequence lines of at most MaxLine
   bytes whose concatenation is the sequence; and the specification's reader decodes the text to
   exactly this record. *)
WriterContract(r, text, MaxLine) ==
  LET nl == Len(r.name) IN
  /\ Len(text) >= nl + 2
  /\ text[1] = GT
  /\ SubSeq(text, 2, nl + 1) = r.name
  /\ text[nl + 2] = LF
  /\ LET body == SubSeq(text, nl + 3, Len(text))
         ls   == ScanLinesIdx(body)
     IN /\ \A k \in 1..Len(ls) : ls[k][2] - ls[k][1] + 1 <= MaxLine
        /\ SelectSeq(body, LAMBDA b : ~IsBrk(b)) = r.seq
  /\ DenoteIdx(text) = <<r>>
=============================================================================
