---------------------------- MODULE Trace_Fastq ----------------------------
(* Leg T of C02: events recorded from the real fastq.Write / MarshalText / Reader (harness: vh fastq-drive),
   each judged on its own by Fastq.tla.  "CERT-…": the driver's input is not what it claims (machinery). *)
EXTENDS Fastq, TLC, Json

Trace == ndJsonDeserialize("trace.ndjson")

VARIABLES l, bad
tvars == <<l, bad>>

ToRec(x) == Rec(x.name, x.seq, x.quals)
ToRecs(js) == [k \in 1..Len(js) |-> ToRec(js[k])]
ToItems(js) == [k \in 1..Len(js) |-> IF js[k].k = "err" THEN ERR ELSE Item(ToRec(js[k]))]

WriteReason(e) ==
  LET r == ToRec(e) IN
  IF ~RecInDomain(r) THEN "CERT-record-outside-domain"
  ELSE IF e.werr \/ e.mpanic \/ e.panic THEN "writer-error-or-panic"
  ELSE IF e.bw # WriteRec(r) THEN "writer-not-the-four-lines"
  ELSE IF e.bm # e.bw THEN "marshal-differs-from-write"
  ELSE "ok"

ReadReason(e) ==
  LET recs  == ToRecs(e.recs)
      spec  == DenoteIdx(e.bytes)
      items == ToItems(e.items)
  IN IF e.j = 0 THEN
          IF spec # Items(recs)
          THEN (IF e.kind = "own-writer" THEN "writer-output-not-decoded-by-spec-reader" ELSE "CERT-not-a-valid-file")
          ELSE IF e.panic THEN "reader-panic"
          ELSE IF items # Items(recs) THEN "reader-items"
          ELSE "ok"
     ELSE IF spec # Items(SubSeq(recs, 1, e.j - 1)) \o <<ERR>> THEN "CERT-not-a-corruption-of-record-j"
          ELSE IF e.panic THEN "reader-panic"
          ELSE IF ~RejectOK(items, recs, e.j) THEN "reject"
          ELSE "ok"

Reason(e) == IF e.op = "write" THEN WriteReason(e) ELSE ReadReason(e)

TInit == l = 1 /\ bad = <<>>
TNext == /\ l <= Len(Trace)
         /\ LET why == Reason(Trace[l])
            IN bad' = IF why = "ok" THEN bad ELSE Append(bad, <<l, why>>)
         /\ l' = l + 1
Done == (l = Len(Trace) + 1) => PrintT(<<"VERDICT", l - 1, bad>>)
=============================================================================
