------------------------------ MODULE Traverse ------------------------------
(* formats/newick/traverse.go - PreOrder / PostOrder (property C19).  Constant-free operators shared
   by the exhaustive model (MC_Traverse.tla: one action per loop iteration of `traverse`) and the
   trace specification (Trace_Traverse.tla).

   A tree is a sequence `kids`: nodes are 1..Len(kids), node 1 is the root, kids[v] is the sequence
   of v's children in slice order (the Go field Children).

   Property-level layer: Pre / Post - the classic recursive orders ("every node once, a node before
   (after) all of its descendants, children in slice order"); Descendant-order clauses of the
   statement spelled out (OrderClauses) and checked to agree with them.

   Implementation-shaped layer: the explicit stack of (node, next child index):
       step := top of stack
       pre  && step.i == 0                  -> yield step.n
       step.i == len(step.n.Children)       -> (post: yield step.n); pop
       otherwise                            -> push (Children[step.i], 0); step.i++

   Witness form (for trees far too deep for any recursion, Appendix C.4 of DESIGN.md): given the
   subtree sizes `size` and the positions `pos` of every node in a claimed order, local equations
   (O(n), no recursion) force the claimed order to be Pre (resp. Post).  MC_Traverse checks on every
   small tree that exactly one order satisfies them. *)
EXTENDS Integers, Sequences, FiniteSets, SequencesExt

Nodes(kids) == 1 .. Len(kids)

---------------------------------------------------------------------------
(* Property-level layer *)

RECURSIVE Pre(_, _), PreList(_, _, _)
Pre(kids, v)         == <<v>> \o PreList(kids, kids[v], 1)
PreList(kids, ks, j) == IF j > Len(ks) THEN <<>> ELSE Pre(kids, ks[j]) \o PreList(kids, ks, j + 1)

RECURSIVE Post(_, _), PostList(_, _, _)
Post(kids, v)         == PostList(kids, kids[v], 1) \o <<v>>
PostList(kids, ks, j) == IF j > Len(ks) THEN <<>> ELSE Post(kids, ks[j]) \o PostList(kids, ks, j + 1)

\* the statement's clauses, without recursion over sequences
RECURSIVE Subtree(_, _)
Subtree(kids, v) == {v} \cup UNION { Subtree(kids, kids[v][j]) : j \in 1 .. Len(kids[v]) }

IsPermutation(seq, n) == Len(seq) = n /\ \A v \in 1 .. n : \E k \in 1 .. n : seq[k] = v
PosIn(seq, v) == CHOOSE k \in 1 .. Len(seq) : seq[k] = v

OrderClauses(kids, seq, pre) ==
  /\ IsPermutation(seq, Len(kids))                                              \* every node exactly once
  /\ \A v \in Nodes(kids) : \A w \in Subtree(kids, v) \ {v} :                   \* before / after all descendants
       IF pre THEN PosIn(seq, v) < PosIn(seq, w) ELSE PosIn(seq, w) < PosIn(seq, v)
  /\ \A v \in Nodes(kids) : \A j \in 1 .. (Len(kids[v]) - 1) :                  \* children in slice order:
       \A a \in Subtree(kids, kids[v][j]), b \in Subtree(kids, kids[v][j + 1]) :  \* whole subtrees, one after the other
         PosIn(seq, a) < PosIn(seq, b)

---------------------------------------------------------------------------
(* Implementation-shaped layer *)

Frame(v, k) == [n |-> v, i |-> k]
TravStart == [stack |-> << Frame(1, 0) >>, visited |-> <<>>]

\* one iteration of `for len(stack) > 0`; rev = TRUE is a deliberately broken variant (children taken from the end)
TravStep(kids, pre, s, rev) ==
  LET top  == s.stack[Len(s.stack)]
      ks   == kids[top.n]
      vis1 == IF pre /\ top.i = 0 THEN Append(s.visited, top.n) ELSE s.visited
  IN IF top.i = Len(ks)
       THEN [stack |-> Front(s.stack), visited |-> IF pre THEN vis1 ELSE Append(vis1, top.n)]
       ELSE [stack   |-> Append([s.stack EXCEPT ![Len(s.stack)] = Frame(top.n, top.i + 1)],
                                Frame(IF rev THEN ks[Len(ks) - top.i] ELSE ks[top.i + 1], 0)),
             visited |-> vis1]

\* the stack is the path from the root to the current node: frame j+1 is the child that frame j has just handed out
IsRootPath(kids, stack) ==
  stack # <<>> =>
    /\ stack[1].n = 1
    /\ \A j \in 1 .. Len(stack) : stack[j].i \in 0 .. Len(kids[stack[j].n])
    /\ \A j \in 1 .. (Len(stack) - 1) : stack[j].i >= 1 /\ stack[j + 1].n = kids[stack[j].n][stack[j].i]

---------------------------------------------------------------------------
(* Witness form *)

SumOver(ks, f) == FoldLeft(LAMBDA acc, x : acc + f[x], 0, ks)

SizeOK(kids, size) == Len(size) = Len(kids) /\ \A v \in Nodes(kids) : size[v] = 1 + SumOver(kids[v], size)

\* seq visits every node exactly once and pos is its inverse
InverseOK(seq, pos, n) == /\ Len(seq) = n /\ Len(pos) = n
                          /\ \A v \in 1 .. n : pos[v] \in 1 .. n /\ seq[pos[v]] = v

PrePosOK(kids, size, pos) ==
  /\ pos[1] = 1
  /\ \A v \in Nodes(kids) : LET ks == kids[v] IN
       \A j \in 1 .. Len(ks) :
         pos[ks[j]] = (IF j = 1 THEN pos[v] + 1 ELSE pos[ks[j - 1]] + size[ks[j - 1]])

PostPosOK(kids, size, ppos) ==
  /\ ppos[1] = Len(kids)
  /\ \A v \in Nodes(kids) : LET ks == kids[v] IN
       \A j \in 1 .. Len(ks) :
         ppos[ks[j]] = (IF j = 1 THEN ppos[v] - size[v] + size[ks[1]] ELSE ppos[ks[j - 1]] + size[ks[j]])

\* used by the model only: the true witnesses
RECURSIVE SizeOf(_, _)
SizeOf(kids, v) == 1 + FoldLeft(LAMBDA acc, x : acc + SizeOf(kids, x), 0, kids[v])
Sizes(kids) == [ v \in Nodes(kids) |-> SizeOf(kids, v) ]
InversePerm(seq) == [ v \in 1 .. Len(seq) |-> PosIn(seq, v) ]
=============================================================================
