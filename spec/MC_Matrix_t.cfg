CONSTANTS
  Letters = {0, 65, 255}
  Scores = {1, 2}
INIT Init
NEXT Next
INVARIANTS SymmetricalRefines GoStringOrder
CHECK_DEADLOCK FALSE
