------------------------------- MODULE Fastq -------------------------------
(* formats/fastq.  A record is [name, seq, quals]; items are [k |-> "rec", name, seq, quals] or [k |-> "err"].
     writer (pinned by C02)          : WriteRec(r) = "@" name LF seq LF "+" LF quals LF
     reader, implementation-shaped   : Machine(lines)  - four Scanner.Scan per read(), one Step per line
     reader, property level          : Denote(lines)   - complete well-formed groups of four lines, then
                                       exactly one error if anything is left over
   Lines are bufio.ScanLines tokens (Bytes!ScanLines): LF terminated, one trailing CR dropped. *)
EXTENDS Bytes

Rec(n, s, q) == [name |-> n, seq |-> s, quals |-> q]
Item(r) == [k |-> "rec", name |-> r.name, seq |-> r.seq, quals |-> r.quals]
ERR == [k |-> "err"]
Items(recs) == [i \in 1..Len(recs) |-> Item(recs[i])]

RecInDomain(r) == /\ NoByte(r.name, {CR, LF}) /\ NoByte(r.seq, {CR, LF}) /\ NoByte(r.quals, {CR, LF})
                  /\ Len(r.seq) = Len(r.quals)

WriteRec(r) == <<AT>> \o r.name \o <<LF>> \o r.seq \o <<LF, PLUS, LF>> \o r.quals \o <<LF>>
WriteAll(recs) == FlattenSeq([i \in 1..Len(recs) |-> WriteRec(recs[i])])
MarshalLen(r) == 6 + Len(r.name) + Len(r.seq) + Len(r.quals)

---------------------------------------------------------------------------
(* Implementation-shaped: read() consumes lines in phases; any failed check ends the iteration with one error *)
F0 == [phase |-> "name", name |-> <<>>, seq |-> <<>>, out |-> <<>>, dead |-> FALSE]

Step(st, line) ==
  IF st.dead THEN st
  ELSE CASE st.phase = "name" ->
              IF line = <<>> \/ line[1] # AT THEN [st EXCEPT !.out = Append(@, ERR), !.dead = TRUE]
              ELSE [st EXCEPT !.phase = "seq", !.name = Tail(line)]
         [] st.phase = "seq"  -> [st EXCEPT !.phase = "plus", !.seq = line]
         [] st.phase = "plus" ->
              IF line = <<>> \/ line[1] # PLUS THEN [st EXCEPT !.out = Append(@, ERR), !.dead = TRUE]
              ELSE [st EXCEPT !.phase = "qual"]
         [] st.phase = "qual" ->
              IF Len(line) # Len(st.seq) THEN [st EXCEPT !.out = Append(@, ERR), !.dead = TRUE]
              ELSE [st EXCEPT !.phase = "name", !.out = Append(@, Item(Rec(st.name, st.seq, line)))]

AtEOF(st) == IF st.dead \/ st.phase = "name" THEN st.out       \* clean EOF only between records
             ELSE Append(st.out, ERR)                            \* io.ErrUnexpectedEOF

Machine(lines) == AtEOF(FoldLeft(Step, F0, lines))

---------------------------------------------------------------------------
(* Property level *)
GroupOK(lines, g) ==                       \* group g = lines 4g-3 .. 4g
  /\ 4 * g <= Len(lines)
  /\ lines[4 * g - 3] # <<>> /\ lines[4 * g - 3][1] = AT
  /\ lines[4 * g - 1] # <<>> /\ lines[4 * g - 1][1] = PLUS
  /\ Len(lines[4 * g]) = Len(lines[4 * g - 2])

GroupRec(lines, g) == Rec(Tail(lines[4 * g - 3]), lines[4 * g - 2], lines[4 * g])

Denote(lines) ==
  LET G == { g \in 0..(Len(lines) \div 4) : \A h \in 1..g : GroupOK(lines, h) }
      good == CHOOSE g \in G : \A h \in G : h <= g
  IN [g \in 1..good |-> Item(GroupRec(lines, g))] \o (IF 4 * good = Len(lines) THEN <<>> ELSE <<ERR>>)

\* linear form on the raw bytes (trace validation; reads of several MiB)
DenoteIdx(s) ==
  LET ix == ScanLinesIdx(s)
      n  == Len(ix)
      ln(k) == ix[k][2] - ix[k][1] + 1
      ok(g) == /\ 4 * g <= n
               /\ ln(4 * g - 3) >= 1 /\ s[ix[4 * g - 3][1]] = AT
               /\ ln(4 * g - 1) >= 1 /\ s[ix[4 * g - 1][1]] = PLUS
               /\ ln(4 * g) = ln(4 * g - 2)
      G == { g \in 0..(n \div 4) : \A h \in 1..g : ok(h) }
      good == CHOOSE g \in G : \A h \in G : h <= g
      sub(k) == SubSeq(s, ix[k][1], ix[k][2])
  IN [g \in 1..good |-> Item(Rec(Tail(sub(4 * g - 3)), sub(4 * g - 2), sub(4 * g)))]
       \o (IF 4 * good = n THEN <<>> ELSE <<ERR>>)

---------------------------------------------------------------------------
(* C02's rejection clause, as a predicate on what a reader delivered for a file in which record j (and
   nothing before it) is structurally corrupt: the records before j intact, then an error, and no
   record that is not one of the original ones. *)
RecordsOf(items) == SelectSeq(items, LAMBDA it : it.k = "rec")
FirstErr(items) == LET E == { i \in 1..Len(items) : items[i].k = "err" }
                   IN IF E = {} THEN 0 ELSE CHOOSE i \in E : \A h \in E : i <= h

RejectOK(items, recs, j) ==
  LET fe == FirstErr(items) IN
  /\ fe = j                                             \* records 1..j-1 delivered, then the error
  /\ SubSeq(items, 1, j - 1) = Items(SubSeq(recs, 1, j - 1))
  /\ \A i \in 1..Len(items) : items[i].k = "rec" => \E x \in 1..Len(recs) : items[i] = Item(recs[x])
=============================================================================
