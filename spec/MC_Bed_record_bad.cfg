CONSTANTS
  MaxLines = 0
INIT RInit
NEXT RNext
INVARIANTS RoundTripBad
CHECK_DEADLOCK FALSE
