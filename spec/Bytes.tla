------------------------------- MODULE Bytes -------------------------------
(* Byte strings as sequences over 0..255, and the line/field operators shared by the codec
   modules.  Two styles are provided on purpose:
     - structural operators (SplitOn, Lines ...) used by the exhaustive models on short inputs;
     - index operators (…Idx) that never copy the input and are linear in its length, used by
       the trace specifications on inputs of up to several MiB (DESIGN.md 4.4, Appendix A.4). *)
EXTENDS Naturals, Sequences, FiniteSets, SequencesExt

LF    == 10
CR    == 13
TAB   == 9
SPACE == 32
GT    == 62     \* '>'
AT    == 64     \* '@'
PLUS  == 43     \* '+'
HASH  == 35     \* '#'
DQUOTE == 34    \* '"'
SQUOTE == 39    \* '\''
COMMA == 44
COLON == 58
SEMI  == 59
LPAR  == 40
RPAR  == 41
USCORE == 95
STAR  == 42
MINUS == 45

IsBrk(b) == b = LF \/ b = CR

Concat(ss) == FlattenSeq(ss)                         \* <<s1, s2, ...>> |-> s1 \o s2 \o ...

Join(ss, sep) ==                                     \* strings.Join
  IF ss = <<>> THEN <<>>
  ELSE FoldLeft(LAMBDA acc, s : acc \o sep \o s, ss[1], Tail(ss))

NoByte(s, B) == \A i \in 1..Len(s) : s[i] \notin B
Positions(s, Test(_)) == SelectSeq([i \in 1..Len(s) |-> i], LAMBDA i : Test(s[i]))

---------------------------------------------------------------------------
(* SplitOn(s, d): strings.Split on a single delimiter byte: always Len >= 1 *)
SplitOn(s, d) ==
  LET ps == Positions(s, LAMBDA b : b = d)
      n  == Len(ps)
      lo(k) == IF k = 1 THEN 1 ELSE ps[k - 1] + 1
      hi(k) == IF k = n + 1 THEN Len(s) ELSE ps[k] - 1
  IN [k \in 1..(n + 1) |-> SubSeq(s, lo(k), hi(k))]

\* index form: <<lo, hi>> pairs (hi = lo - 1 for an empty field)
SplitOnIdx(s, d) ==
  LET ps == Positions(s, LAMBDA b : b = d)
      n  == Len(ps)
  IN [k \in 1..(n + 1) |-> << IF k = 1 THEN 1 ELSE ps[k - 1] + 1,
                               IF k = n + 1 THEN Len(s) ELSE ps[k] - 1 >>]

---------------------------------------------------------------------------
(* bufio.ScanLines: lines end at LF; one trailing CR is dropped from each line; a final line
   without LF is delivered if it is non-empty (before CR removal).  Index form. *)
ScanLinesIdx(s) ==
  LET ps == Positions(s, LAMBDA b : b = LF)
      n  == Len(ps)
      more == IF n = 0 THEN Len(s) > 0 ELSE ps[n] < Len(s)
      cnt == IF more THEN n + 1 ELSE n
      lo(k) == IF k = 1 THEN 1 ELSE ps[k - 1] + 1
      rawhi(k) == IF k = n + 1 THEN Len(s) ELSE ps[k] - 1
      hi(k) == IF rawhi(k) >= lo(k) /\ s[rawhi(k)] = CR THEN rawhi(k) - 1 ELSE rawhi(k)
  IN [k \in 1..cnt |-> <<lo(k), hi(k)>>]

ScanLines(s) == LET ix == ScanLinesIdx(s) IN [k \in 1..Len(ix) |-> SubSeq(s, ix[k][1], ix[k][2])]

---------------------------------------------------------------------------
(* Tokens separated by runs of CR/LF (FASTA's notion of a line: blank lines vanish).  Index form. *)
BrkTokensIdx(s) ==
  LET n == Len(s)
      starts == SelectSeq([i \in 1..n |-> i], LAMBDA i : ~IsBrk(s[i]) /\ (i = 1 \/ IsBrk(s[i - 1])))
      ends   == SelectSeq([i \in 1..n |-> i], LAMBDA i : ~IsBrk(s[i]) /\ (i = n \/ IsBrk(s[i + 1])))
  IN [k \in 1..Len(starts) |-> <<starts[k], ends[k]>>]

BrkTokens(s) == LET ix == BrkTokensIdx(s) IN [k \in 1..Len(ix) |-> SubSeq(s, ix[k][1], ix[k][2])]

---------------------------------------------------------------------------
(* integer texts (Go ints travel as decimal text: TLC integers are 32-bit, and int <-> text is strconv's job) *)
Digits == 48..57
IsDigits(s) == s # <<>> /\ \A i \in 1..Len(s) : s[i] \in Digits

\* strconv.Atoi syntax (range is not modelled: drivers stay inside int64)
AtoiSyntax(s) == IF s # <<>> /\ s[1] \in {PLUS, MINUS} THEN IsDigits(Tail(s)) ELSE IsDigits(s)

LexLess(a, b) ==      \* bytewise string order (sort.Strings)
  \E k \in 1..(Len(a) + 1) :
     /\ \A i \in 1..(k - 1) : i <= Len(b) /\ a[i] = b[i]
     /\ IF k = Len(a) + 1 THEN Len(b) > Len(a) ELSE (k <= Len(b) /\ a[k] < b[k])

RECURSIVE StripZeros(_)
StripZeros(d) == IF Len(d) > 1 /\ d[1] = 48 THEN StripZeros(Tail(d)) ELSE d

\* the canonical text of the integer a syntactically valid text denotes
CanonInt(s) ==
  LET neg == s[1] = MINUS
      d   == StripZeros(IF s[1] \in {PLUS, MINUS} THEN Tail(s) ELSE s)
  IN IF neg /\ d # <<48>> THEN <<MINUS>> \o d ELSE d

\* strconv.Atoi on a 64-bit platform: the value must fit int64
MaxInt64Text == <<57, 50, 50, 51, 51, 55, 50, 48, 51, 54, 56, 53, 52, 55, 55, 53, 56, 48, 55>>      \* 9223372036854775807
MinInt64Abs  == <<57, 50, 50, 51, 51, 55, 50, 48, 51, 54, 56, 53, 52, 55, 55, 53, 56, 48, 56>>      \* 9223372036854775808
InInt64(s) ==
  LET neg == s[1] = MINUS
      d   == StripZeros(IF s[1] \in {PLUS, MINUS} THEN Tail(s) ELSE s)
      lim == IF neg THEN MinInt64Abs ELSE MaxInt64Text
  IN Len(d) < 19 \/ (Len(d) = 19 /\ ~LexLess(lim, d))
AtoiOK(s) == IF AtoiSyntax(s) THEN InInt64(s) ELSE FALSE

IsCanonInt(s) == AtoiOK(s) /\ CanonInt(s) = s


---------------------------------------------------------------------------
(* all byte strings over an alphabet up to a length *)
RECURSIVE StringsUpTo(_, _)
StringsUpTo(S, n) == IF n = 0 THEN { <<>> }
                     ELSE LET P == StringsUpTo(S, n - 1)
                          IN P \cup { Append(p, a) : p \in { q \in P : Len(q) = n - 1 }, a \in S }

ToCRLF(s) == FlattenSeq([i \in 1..Len(s) |-> IF s[i] = LF THEN <<CR, LF>> ELSE <<s[i]>>])
=============================================================================
