INIT Init
NEXT NextXor
PROPERTY SetterExactXor
CHECK_DEADLOCK FALSE
