CONSTANTS
  Variant = "code"
  Mode = "C10"
INIT TInit
NEXT TNext
INVARIANT Done
CHECK_DEADLOCK FALSE
