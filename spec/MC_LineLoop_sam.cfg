CONSTANTS
  Fmt = "sam"
  Pool <- MCSamPool
  MaxStop = 6
  Broken = "none"
INIT Init
NEXT MCNext
INVARIANTS Exact NoOverrun FaultLaw BedErrorLast
CHECK_DEADLOCK TRUE
