------------------------------- MODULE MC_Bed -------------------------------
(* Exhaustive models for formats/bed (leg M of C04).
   "record": the baseline record with n in 0..14, up to two fields replaced from the pools (quotes, '#', commas, empty,
             negative ints, RGB, block lists): Write refuses n outside 3..12; inside, for records of the domain, the line has
             exactly n fields and parses back to the record truncated to n fields.
   "file":   files of <= MaxLines lines from records with 3 and 4 fields, comments and malformed lines, LF/CRLF/blank lines:
             records up to the first malformed or differently-sized line, then one error. *)
EXTENDS Bed, TLC, Json

CONSTANTS MaxLines

A == 65
TextVals == { <<>>, <<A>>, <<DQUOTE>>, <<A, DQUOTE>>, <<DQUOTE, A, DQUOTE>>, <<A, HASH>>, <<SPACE>>, <<COMMA>> }
IntVals  == { <<48>>, <<MINUS, 49>>, <<49, 48>> }
RgbVals  == { <<48, COMMA, 48, COMMA, 48>>, <<50, 53, 53, COMMA, 48, COMMA, 55>> }
Blocks   == { << <<48>>, <<>>, <<>> >>, << <<49>>, <<53>>, <<48>> >>, << <<50>>, <<53, COMMA, MINUS, 49>>, <<48, COMMA, 49, 48>> >>,
              << <<49>>, <<53>>, <<>> >>, << <<49>>, <<53, COMMA, 53>>, <<48>> >> }       \* the last two are inconsistent
BaseF == << <<A>>, <<48>>, <<55>>, <<A>>, <<48>>, <<PLUS>>, <<48>>, <<48>>, <<48, COMMA, 48, COMMA, 48>>, <<48>>, <<>>, <<>> >>

VARIABLES b, nset, lines, text, phase
vars == <<b, nset, lines, text, phase>>

RInit == /\ \E n \in 0..14 : b = [n |-> n, f |-> BaseF]
         /\ nset = 0 /\ lines = <<>> /\ text = <<>> /\ phase = "record"

SetField(i, v) == /\ phase = "record" /\ nset < 2 /\ i \notin {10, 11, 12}
                  /\ CASE i \in BTextFields \ {6} -> v \in TextVals
                       [] i = 6 -> v \in Strands
                       [] i = 9 -> v \in RgbVals
                       [] OTHER -> v \in IntVals
                  /\ (IF i = 1 /\ v # <<>> THEN v[1] # HASH ELSE TRUE)
                  /\ b' = [b EXCEPT !.f[i] = v] /\ nset' = nset + 1
                  /\ UNCHANGED <<lines, text, phase>>

SetBlocks(bl) == /\ phase = "record" /\ nset < 2
                 /\ b' = [b EXCEPT !.f[10] = bl[1], !.f[11] = bl[2], !.f[12] = bl[3]] /\ nset' = nset + 1
                 /\ UNCHANGED <<lines, text, phase>>

RNext == \/ \E i \in 1..9, v \in (TextVals \cup IntVals \cup RgbVals \cup Strands) : SetField(i, v)
         \/ \E bl \in Blocks : SetBlocks(bl)

Refuse == phase = "record" => (WriteOK(b) <=> b.n \in 3..12)
RoundTrip == (phase = "record" /\ WriteOK(b) /\ RecInDomain(b)) =>
               /\ LineContract(WriteRec(b), b.n)
               /\ RoundTripOK(b, WriteRec(b), CanonU8)
               /\ Denote(WriteRec(b), CanonU8) = <<Truncate(b)>>
\* non-vacuity of the domain: inconsistent block lists are refused by the reader
Inconsistent == (phase = "record" /\ b.n = 12 /\ ~RecInDomain(b)) => Denote(WriteRec(b), CanonU8) = <<BERR>>

EmitRec == (phase = "record" /\ WriteOK(b) /\ RecInDomain(b)) =>
             PrintT(<<"CASE", ToJson([text |-> WriteRec(b), items |-> <<Truncate(b)>>])>>)

-----------------------------------------------------------------------------
L3  == <<A, TAB, 48, TAB, 55>>
L3q == <<DQUOTE, A, TAB, 49, TAB, 50>>
L4  == <<A, TAB, 48, TAB, 55, TAB, A, DQUOTE, A>>
LC  == <<HASH, A, TAB, A>>
LBadInt == <<A, TAB, A, TAB, 55>>
LTwo == <<A, TAB, 48>>
LineOf(rec) == SubSeq(WriteRec(rec), 1, Len(WriteRec(rec)) - 1)
LBadStrand == LineOf([n |-> 6, f |-> [BaseF EXCEPT ![6] = <<A>>]])
LBadRgb == LineOf([n |-> 9, f |-> [BaseF EXCEPT ![9] = <<48, COMMA, 48>>]])
LinePool == { L3, L3q, L4, LC, LBadInt, LTwo, LBadStrand, LBadRgb }
Terms == { <<LF>>, <<CR, LF>>, <<LF, LF>> }

\* independent statement of the file rule: per-line verdicts, cut after the first bad one
NF(ln) == Len(SplitOn(ln, TAB))
LineGood(ln) == ln \in {L3, L3q, L4}
Want(ls) ==
  LET data == SelectSeq(ls, LAMBDA ln : ln # LC)
      bad(k) == ~LineGood(data[k]) \/ NF(data[k]) # NF(data[1])
      B == { k \in 1..Len(data) : bad(k) }
      cut == IF B = {} THEN Len(data) ELSE (CHOOSE k \in B : \A j \in B : k <= j) - 1
  IN [k \in 1..cut |-> ParseLine(SplitOn(data[k], TAB), CanonU8)] \o (IF B = {} THEN <<>> ELSE <<BERR>>)

FInit == b = [n |-> 3, f |-> BaseF] /\ nset = 0 /\ lines = <<>> /\ text = <<>> /\ phase = "file"
AddLine(ln, t) == /\ phase = "file" /\ Len(lines) < MaxLines
                  /\ lines' = Append(lines, ln) /\ text' = text \o ln \o t
                  /\ UNCHANGED <<b, nset, phase>>
EndNoNL(ln) == /\ phase = "file" /\ Len(lines) < MaxLines
               /\ lines' = Append(lines, ln) /\ text' = text \o ln /\ phase' = "file-done"
               /\ UNCHANGED <<b, nset>>
FNext == \/ \E ln \in LinePool, t \in Terms : AddLine(ln, t)
         \/ \E ln \in LinePool : EndNoNL(ln)
FileOK == phase \in {"file", "file-done"} => Denote(text, CanonU8) = Want(lines)
EmitFile == phase \in {"file", "file-done"} => PrintT(<<"CASE", ToJson([text |-> text, items |-> Denote(text, CanonU8)])>>)

\* deliberately broken layer (non-vacuity): a writer that drops the field separator before the name (n > 3)
BadWrite(x) == IF x.n > 3 THEN Join(<<x.f[1], x.f[2], x.f[3] \o x.f[4]>> \o SubSeq(x.f, 5, x.n), <<TAB>>) \o <<LF>> ELSE WriteRec(x)
RoundTripBad == (phase = "record" /\ WriteOK(b) /\ RecInDomain(b)) => LineContract(BadWrite(b), b.n)
=============================================================================
