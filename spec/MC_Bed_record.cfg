CONSTANTS
  MaxLines = 0
INIT RInit
NEXT RNext
INVARIANTS Refuse RoundTrip Inconsistent
CHECK_DEADLOCK FALSE
