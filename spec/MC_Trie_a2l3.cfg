CONSTANTS
  Alphabet = {1,2}
  MaxLen = 3
INIT Init
NEXT Next
INVARIANTS PrefixClosed Refines Maximal HasAgrees DeleteRetAgrees JsonImage NoEmptyMember
PROPERTIES AddPost DeletePost
CHECK_DEADLOCK FALSE
