CONSTANTS
  MaxLines = 0
  MaxIn = 8
  MaxTags = 0
INIT LInit
NEXT LNext
INVARIANTS LinesOK
CHECK_DEADLOCK FALSE
