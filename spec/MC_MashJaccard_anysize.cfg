CONSTANTS
  Vals = {1,2,3}
  MaxN = 6
  Ks = {1}
INIT Init
NEXT Next
INVARIANTS JaccardAnySize
CHECK_DEADLOCK FALSE
