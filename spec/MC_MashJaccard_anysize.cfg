CONSTANTS
  Vals = {1,2,3,4,5,6}
  MaxN = 3
  Ks = {1}
INIT Init
NEXT Next
INVARIANTS JaccardAnySize
CHECK_DEADLOCK FALSE
