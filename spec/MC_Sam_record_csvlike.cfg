CONSTANTS
  MaxLines = 0
  MaxIn = 0
  MaxTags = 0
INIT RInit
NEXT RNext
INVARIANTS RoundTripCsvLike
CHECK_DEADLOCK FALSE
