------------------------------- MODULE Newick -------------------------------
(* formats/newick/newick.go.
   Trees are flat pre-order sequences of nodes [d |-> depth, name |-> bytes, dist |-> distance]
   (root depth 0; node i+1 has depth in 1..d[i]+1) - exactly the order in which read() creates nodes.
   Distances are opaque values: NoDist means "none" (Go: 0), the writer prints DistText(dist), the
   parser turns a token into DistOf(token) (BadDist if the token is not a number).  The exhaustive
   model instantiates them with two digits, the trace specification with the token bytes themselves
   (float formatting/parsing is strconv's job, DESIGN.md section 8).

     writer, implementation-shaped : WriteTree(t)      (recursive newick(), names through NameToText)
     reader, implementation-shaped : Machine(in)       (nextToken byte machine + the five-state parser)
     property level (C05)          : RoundTrip / Multi / Condensed / QuoteInverse, stated on those *)
EXTENDS Bytes, Integers

CONSTANTS DistText(_), DistOf(_), NoDist, BadDist

Node(d, n, x) == [d |-> d, name |-> n, dist |-> x]

IsTree(t) == /\ Len(t) >= 1 /\ t[1].d = 0
             /\ \A i \in 2..Len(t) : t[i].d >= 1 /\ t[i].d <= t[i - 1].d + 1

---------------------------------------------------------------------------
(* names *)
QuoteTriggers == {LPAR, RPAR, COMMA, COLON, SEMI, SQUOTE, USCORE, TAB, LF, CR}
NeedsQuote(n) == \E i \in 1..Len(n) : n[i] \in QuoteTriggers

NameToText(n) ==
  IF NeedsQuote(n)
  THEN <<SQUOTE>> \o FlattenSeq([i \in 1..Len(n) |-> IF n[i] = SQUOTE THEN <<SQUOTE, SQUOTE>> ELSE <<n[i]>>]) \o <<SQUOTE>>
  ELSE [i \in 1..Len(n) |-> IF n[i] = SPACE THEN USCORE ELSE n[i]]

IsQuoted(s) == Len(s) >= 2 /\ s[1] = SQUOTE /\ s[Len(s)] = SQUOTE

\* strings.ReplaceAll(inner, "''", "'"): left to right, non-overlapping
RECURSIVE Undouble(_)
Undouble(s) == IF Len(s) < 2 THEN s
               ELSE IF s[1] = SQUOTE /\ s[2] = SQUOTE THEN <<SQUOTE>> \o Undouble(SubSeq(s, 3, Len(s)))
               ELSE <<s[1]>> \o Undouble(Tail(s))

NameFromText(s) ==
  IF IsQuoted(s) THEN Undouble(SubSeq(s, 2, Len(s) - 1))
  ELSE [i \in 1..Len(s) |-> IF s[i] = USCORE THEN SPACE ELSE s[i]]

---------------------------------------------------------------------------
(* writer *)
\* children of node i: the nodes j > i at depth d[i]+1 before the subtree of i ends
SubtreeEnd(t, i) == LET later == { j \in (i + 1)..Len(t) : t[j].d <= t[i].d }
                    IN IF later = {} THEN Len(t) ELSE (CHOOSE j \in later : \A k \in later : j <= k) - 1
Kids(t, i) == SelectSeq([j \in 1..Len(t) |-> j], LAMBDA j : j > i /\ j <= SubtreeEnd(t, i) /\ t[j].d = t[i].d + 1)

RECURSIVE WriteNode(_, _)
WriteNode(t, i) ==
  LET ks == Kids(t, i)
      inner == IF ks = <<>> THEN <<>>
               ELSE <<LPAR>> \o Join([k \in 1..Len(ks) |-> WriteNode(t, ks[k])], <<COMMA>>) \o <<RPAR>>
  IN inner \o NameToText(t[i].name)
           \o (IF t[i].dist # NoDist THEN <<COLON>> \o DistText(t[i].dist) ELSE <<>>)

WriteTree(t) == WriteNode(t, 1) \o <<SEMI>>

---------------------------------------------------------------------------
(* reader: tokenizer and parser as one machine, one Feed per byte *)
IsSep(b) == b \in {LPAR, RPAR, COMMA, COLON, SEMI}
IsWS(b)  == b \in {SPACE, TAB, LF, CR}

Root == Node(0, <<>>, NoDist)

R0 == [buf |-> <<>>, quote |-> FALSE, aq |-> FALSE,
       ps |-> "before", nodes |-> <<Root>>, stack |-> <<1>>, any |-> FALSE,
       out |-> <<>>, err |-> FALSE]

Fail(st) == [st EXCEPT !.err = TRUE]
Top(st) == st.stack[Len(st.stack)]
ResetTree(st) == [st EXCEPT !.ps = "before", !.nodes = <<Root>>, !.stack = <<1>>, !.any = FALSE]

Token(st0, tok) ==
  LET st == [st0 EXCEPT !.any = TRUE] IN
  IF st.err THEN st
  ELSE IF tok = <<LPAR>> THEN
         IF st.ps # "before" THEN Fail(st)
         ELSE [st EXCEPT !.nodes = Append(@, Node(st.nodes[Top(st)].d + 1, <<>>, NoDist)),
                         !.stack = Append(@, Len(st.nodes) + 1)]
  ELSE IF tok = <<RPAR>> THEN
         IF st.ps = "aftercolon" \/ Len(st.stack) = 1 THEN Fail(st)
         ELSE [st EXCEPT !.stack = SubSeq(@, 1, Len(@) - 1), !.ps = "afterchildren"]
  ELSE IF tok = <<COMMA>> THEN
         IF st.ps = "aftercolon" \/ Len(st.stack) = 1 THEN Fail(st)
         ELSE [st EXCEPT !.nodes = Append(@, Node(st.nodes[Top(st)].d, <<>>, NoDist)),
                         !.stack[Len(st.stack)] = Len(st.nodes) + 1, !.ps = "before"]
  ELSE IF tok = <<COLON>> THEN
         IF st.ps \in {"aftercolon", "afterdist"} THEN Fail(st) ELSE [st EXCEPT !.ps = "aftercolon"]
  ELSE IF tok = <<SEMI>> THEN
         IF Len(st.stack) # 1 \/ st.ps = "aftercolon" THEN Fail(st)
         ELSE ResetTree([st EXCEPT !.out = Append(@, st.nodes)])
  ELSE IF st.ps \in {"aftername", "afterdist"} THEN Fail(st)
  ELSE IF st.ps \in {"before", "afterchildren"} THEN
         [st EXCEPT !.nodes[Top(st)].name = NameFromText(tok), !.ps = "aftername"]
  ELSE IF DistOf(tok) = BadDist THEN Fail(st)            \* after ':' - not a number
  ELSE [st EXCEPT !.nodes[Top(st)].dist = DistOf(tok), !.ps = "afterdist"]

Flush(st) == IF st.buf = <<>> THEN st
             ELSE Token([st EXCEPT !.buf = <<>>, !.quote = FALSE, !.aq = FALSE], st.buf)

RECURSIVE Feed(_, _)
Feed(st, b) ==
  IF st.err THEN st
  ELSE IF st.quote THEN
         IF b = SQUOTE THEN [st EXCEPT !.aq = ~@, !.buf = Append(@, b)]
         ELSE IF st.aq THEN Feed(Flush(st), b)              \* the closing quote has been seen: b is unread
         ELSE [st EXCEPT !.buf = Append(@, b)]
  ELSE IF b = SQUOTE THEN
         IF st.buf # <<>> THEN Fail(st) ELSE [st EXCEPT !.quote = TRUE, !.buf = <<b>>]
  ELSE IF IsSep(b) THEN
         IF st.buf # <<>> THEN Feed(Flush(st), b) ELSE Token(st, <<b>>)
  ELSE IF IsWS(b) THEN Flush(st)
  ELSE [st EXCEPT !.buf = Append(@, b)]

AtEOF(st) == LET s == Flush(st) IN IF s.err THEN s ELSE IF s.any THEN Fail(s) ELSE s

\* the item sequence of Reader: the trees, then one error if the input is malformed or ends inside a tree
Machine(in) == LET s == AtEOF(FoldLeft(Feed, R0, in)) IN [trees |-> s.out, err |-> s.err]

---------------------------------------------------------------------------
(* property level *)
\* condensed: no whitespace byte outside a quoted name (a byte is inside quotes iff an odd number of
\* quote characters precede it), last byte ';'
Condensed(text) ==
  LET scan == FoldLeft(LAMBDA acc, b : IF b = SQUOTE THEN [acc EXCEPT !.q = ~@]
                                       ELSE IF IsWS(b) /\ ~acc.q THEN [acc EXCEPT !.ok = FALSE] ELSE acc,
                       [q |-> FALSE, ok |-> TRUE], text)
  IN text # <<>> /\ text[Len(text)] = SEMI /\ scan.ok /\ ~scan.q

RoundTripOK(t, sep) == Machine(WriteTree(t) \o sep) = [trees |-> <<t>>, err |-> FALSE]

WriteAll(ts, seps) == FlattenSeq([i \in 1..Len(ts) |-> WriteTree(ts[i]) \o seps[i]])
MultiOK(ts, seps) == Machine(WriteAll(ts, seps)) = [trees |-> ts, err |-> FALSE]

QuoteInverse(n) == NameFromText(NameToText(n)) = n
=============================================================================
