------------------------------ MODULE MC_Newick ------------------------------
(* Exhaustive models for formats/newick (leg M of C05; "total" is re-used by C11).
   "trees": every ordered tree with <= MaxNodes nodes over a pool of names and distances, written by the writer
            model, optionally followed by a second tree, with every separator: the reader machine returns
            exactly the trees; the text of each tree is condensed.
   "names": every name over the structural byte classes up to MaxName: quoting is inverted by unquoting,
            and the one-node tree with that name round-trips.
   "total": every input over the classes up to MaxIn: the machine is defined (no evaluation error). *)
EXTENDS Newick, TLC, Json

CONSTANTS MaxNodes, MaxName, MaxIn, NamePool, DistPool, OldQuoting

A == 65
D0 == 48
D1 == 49
D2 == 50
MCDistText(x) == IF x = 1 THEN <<D1>> ELSE <<D2>>
MCDistOf(tok) == IF tok = <<D0>> THEN 0 ELSE IF tok = <<D1>> THEN 1 ELSE IF tok = <<D2>> THEN 2 ELSE -1
MCNoDist == 0
MCBadDist == -1

AllNames == << <<>>, <<A>>, <<SPACE>>, <<USCORE>>, <<A, SQUOTE, SQUOTE>>, <<LPAR, COMMA>>, <<COLON, SEMI>>, <<A, LF, A>>,
               <<D1>>, <<TAB>>, <<CR>>, <<SQUOTE>>, <<A, SPACE, A>>, <<RPAR>> >>
Names == { AllNames[i] : i \in 1..NamePool }
Dists == 0..DistPool
Seps == { <<>>, <<SPACE>>, <<LF>>, <<CR, LF>>, <<TAB>> }
Seconds == { <<Node(0, <<A>>, 0)>>, <<Node(0, <<>>, 0)>>,        \* the second: the bare tree ";"
             <<Node(0, <<>>, 0), Node(1, <<SQUOTE>>, 1), Node(1, <<>>, 0)>> }
Classes == {LPAR, RPAR, COMMA, COLON, SEMI, SQUOTE, USCORE, SPACE, TAB, LF, CR, A, D1}
TotalClasses == {LPAR, RPAR, COMMA, COLON, SEMI, SQUOTE, SPACE, A, D1}

VARIABLES t, phase, trees, text, in
vars == <<t, phase, trees, text, in>>

-----------------------------------------------------------------------------
TInit == /\ \E n \in Names, x \in Dists : t = <<Node(0, n, x)>>
         /\ phase = "build" /\ trees = <<>> /\ text = <<>> /\ in = <<>>

AddNode(d, n, x) == /\ phase = "build" /\ Len(t) < MaxNodes /\ d <= t[Len(t)].d + 1
                    /\ t' = Append(t, Node(d, n, x))
                    /\ UNCHANGED <<phase, trees, text, in>>

FinishOne(sep) == /\ phase = "build" /\ phase' = "done"
                  /\ trees' = <<t>> /\ text' = WriteTree(t) \o sep
                  /\ UNCHANGED <<t, in>>

FinishTwo(sep, second) == /\ phase = "build" /\ phase' = "done"
                          /\ trees' = <<t, second>> /\ text' = WriteAll(<<t, second>>, <<sep, sep>>)
                          /\ UNCHANGED <<t, in>>

TNext == \/ \E d \in 1..MaxNodes, n \in Names, x \in Dists : AddNode(d, n, x)
         \/ \E sep \in Seps : FinishOne(sep)
         \/ \E sep \in Seps, second \in Seconds : FinishTwo(sep, second)

RoundTrip == phase = "done" => Machine(text) = [trees |-> trees, err |-> FALSE]
CondensedOK == phase = "build" => (IsTree(t) /\ Condensed(WriteTree(t)))
Emit == phase = "done" => PrintT(<<"CASE", ToJson([trees |-> trees, text |-> text])>>)

-----------------------------------------------------------------------------
NInit == in = <<>> /\ phase = "names" /\ t = <<>> /\ trees = <<>> /\ text = <<>>
NNext == /\ Len(in) < MaxName /\ \E b \in Classes : in' = Append(in, b)
         /\ UNCHANGED <<t, phase, trees, text>>
NamesOK == phase = "names" => /\ QuoteInverse(in)
                              /\ RoundTripOK(<<Node(0, in, 0)>>, <<>>)
                              /\ RoundTripOK(<<Node(0, <<>>, 0), Node(1, in, 1), Node(1, in, 0)>>, <<LF>>)
                              /\ Condensed(WriteTree(<<Node(0, in, 0)>>))

-----------------------------------------------------------------------------
XInit == in = <<>> /\ phase = "total" /\ t = <<>> /\ trees = <<>> /\ text = <<>>
XNext == /\ Len(in) < MaxIn /\ \E b \in TotalClasses : in' = Append(in, b)
         /\ UNCHANGED <<t, phase, trees, text>>
\* the machine is total; a complete tree is always followed by a state that can end cleanly; errors are sticky
Total == phase = "total" => LET m == Machine(in) IN m.err \in BOOLEAN /\ \A i \in 1..Len(m.trees) : IsTree(m.trees[i])

-----------------------------------------------------------------------------
\* the quoting rule before the repair of defect D4 (LF and CR not in the set): kept as the non-vacuity variant -
\* with it TLC must refute NamesOK (name = <<LF>>)
OldNeedsQuote(n) == \E i \in 1..Len(n) : n[i] \in (QuoteTriggers \ {LF, CR})
OldNameToText(n) ==
  IF OldNeedsQuote(n)
  THEN <<SQUOTE>> \o FlattenSeq([i \in 1..Len(n) |-> IF n[i] = SQUOTE THEN <<SQUOTE, SQUOTE>> ELSE <<n[i]>>]) \o <<SQUOTE>>
  ELSE [i \in 1..Len(n) |-> IF n[i] = SPACE THEN USCORE ELSE n[i]]
OldNamesOK == phase = "names" => Machine(OldNameToText(in) \o <<SEMI>>) = [trees |-> << <<Node(0, in, 0)>> >>, err |-> FALSE]
=============================================================================
