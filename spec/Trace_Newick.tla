---------------------------- MODULE Trace_Newick ----------------------------
(* Leg T of C05: events recorded from the real newick MarshalText / Write / Reader (harness: vh newick-drive).
   One event = a sequence of trees written one after another with separators and read back.
   Distances are atoms (harness projection); in the specification's reader a distance is its token
   (DistOf(tok) = tok), so the spec reader checks shape, names and where distances are present. *)
EXTENDS Newick, TLC, Json

Trace == ndJsonDeserialize("trace.ndjson")

TDistText(x) == x
TDistOf(tok) == tok
TNoDist == <<>>
TBadDist == <<0 - 1>>

VARIABLES l, bad
tvars == <<l, bad>>

\* real trees compared by atoms
Atoms(t) == [i \in 1..Len(t) |-> <<t[i].d, t[i].name, t[i].dist>>]
\* what the specification's reader must see in the real writer's text: shape, names, presence of a distance
Shape(t) == [i \in 1..Len(t) |-> <<t[i].d, t[i].name, t[i].dist # "0">>]
SpecShape(t) == [i \in 1..Len(t) |-> <<t[i].d, t[i].name, t[i].dist # TNoDist>>]
\* canonical distance tokens (drift only)
Tokens(t) == [i \in 1..Len(t) |-> t[i].dtext]
SpecTokens(t) == [i \in 1..Len(t) |-> t[i].dist]

WellFormed(e) == \A k \in 1..Len(e.trees) : IsTree(e.trees[k])

Reason(e) ==
  LET n == Len(e.trees)
      all == FlattenSeq([k \in 1..n |-> e.texts[k] \o e.seps[k]])
  IN IF ~WellFormed(e) THEN "CERT-not-a-tree"
     ELSE IF ~e.wsame THEN "write-differs-from-marshal-or-failed"
     ELSE IF \E k \in 1..n : ~Condensed(e.texts[k]) THEN "not-condensed"
     ELSE IF e.err \/ e.panic THEN "reader-error-or-panic"
     ELSE IF Len(e.back) # n THEN "reader-tree-count"
     ELSE IF \E k \in 1..n : Atoms(e.back[k]) # Atoms(e.trees[k]) THEN "reader-tree-differs"
     ELSE IF e.small
          THEN LET m == Machine(all)
               IN IF m.err \/ Len(m.trees) # n THEN "writer-text-rejected-by-spec-reader"
                  ELSE IF \E k \in 1..n : SpecShape(m.trees[k]) # Shape(e.trees[k]) THEN "writer-text-decoded-differently-by-spec-reader"
                  ELSE IF \E k \in 1..n : SpecTokens(m.trees[k]) # Tokens(e.trees[k]) THEN "NOTE-distance-text-not-canonical"
                  ELSE "ok"
     ELSE "ok"

TInit == l = 1 /\ bad = <<>>
TNext == /\ l <= Len(Trace)
         /\ LET why == Reason(Trace[l])
            IN bad' = IF why = "ok" THEN bad ELSE Append(bad, <<l, why>>)
         /\ l' = l + 1
Done == (l = Len(Trace) + 1) => PrintT(<<"VERDICT", l - 1, bad>>)
=============================================================================
