CONSTANTS
  MaxNodes = 9
  Reversed = FALSE
  WitnessN = 7
INIT Init
NEXT Next
INVARIANTS StackIsPath VisitedIsPrefix PreIsRecursive PostIsRecursive Bounded ClausesAgree WitnessSound
PROPERTIES TreeUnchanged
CHECK_DEADLOCK FALSE
