CONSTANTS
  MaxNodes = 3
  MaxName = 0
  MaxIn = 0
  NamePool = 5
  DistPool = 1
  OldQuoting = FALSE
  DistText <- MCDistText
  DistOf <- MCDistOf
  NoDist <- MCNoDist
  BadDist <- MCBadDist
INIT TInit
NEXT TNext
INVARIANTS RoundTrip CondensedOK Emit
CHECK_DEADLOCK FALSE
