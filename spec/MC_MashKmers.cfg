CONSTANTS
  Alphabet = {65, 67, 71, 84, 97, 103}
  MaxLen = 3
  MaxLen2 = 2
  MaxK = 3
  MaxN = 2
INIT Init
NEXT Next
INVARIANTS CanonRefines StrandCaseFree HashInjective SequencesIsSketch
CHECK_DEADLOCK FALSE
