------------------------------ MODULE MC_Fastq ------------------------------
(* Exhaustive models for formats/fastq (leg M of C02).
   "machine": every byte string over {@,+,LF,CR,A} up to MaxIn: Machine(ScanLines(in)) = Denote(ScanLines(in)) = DenoteIdx(in)
   "corrupt": every record list of the pool, its written text (round trip, exact writer), and every single
              structural corruption (which record x which kind) of it: RejectOK. *)
EXTENDS Fastq, TLC, Json

CONSTANTS MaxIn, MaxRecs

A == 65
Classes == {AT, PLUS, LF, CR, A}

VARIABLES in, recs, phase, j, kind, text
vars == <<in, recs, phase, j, kind, text>>

MInit == in = <<>> /\ recs = <<>> /\ phase = "machine" /\ j = 0 /\ kind = "" /\ text = <<>>
MNext == /\ Len(in) < MaxIn /\ \E b \in Classes : in' = Append(in, b)
         /\ UNCHANGED <<recs, phase, j, kind, text>>
MachineIsDenote == /\ Machine(ScanLines(in)) = Denote(ScanLines(in))
                   /\ DenoteIdx(in) = Denote(ScanLines(in))

-----------------------------------------------------------------------------
Field1 == StringsUpTo({A, AT, PLUS}, 1)
Names == Field1 \cup { <<AT, A>>, <<A, PLUS>> }
SQ == { <<s, q>> \in (StringsUpTo({A, AT, PLUS}, 2) \X StringsUpTo({A, AT, PLUS}, 2)) :
          Len(s) = Len(q) /\ (Len(s) = 2 => (s[2] = A /\ q[2] = A)) }
RecPool == { Rec(n, p[1], p[2]) : n \in Names, p \in SQ }
SmallPool == { Rec(n, s, s) : n \in {<<>>, <<A>>}, s \in {<<>>, <<A>>, <<PLUS>>} }

\* Init picks only the first record (initial states are enumerated by one thread); the rest is chosen in Grow steps
CInit == /\ recs \in ({<<>>} \cup { <<r>> : r \in RecPool })
         /\ phase = "grow" /\ j = 0 /\ kind = "" /\ text = <<>> /\ in = <<>>

Grow(r) == /\ phase = "grow" /\ recs # <<>> /\ Len(recs) < MaxRecs
           /\ recs' = Append(recs, r)
           /\ UNCHANGED <<in, phase, j, kind, text>>

Seal == /\ phase = "grow" /\ phase' = "clean" /\ text' = WriteAll(recs)
        /\ UNCHANGED <<in, recs, j, kind>>

Lines(rs) == FlattenSeq([i \in 1..Len(rs) |-> << <<AT>> \o rs[i].name, rs[i].seq, <<PLUS>>, rs[i].quals >>])
JoinLF(ls) == FlattenSeq([i \in 1..Len(ls) |-> ls[i] \o <<LF>>])

\* the four kinds of the property text; each makes record jj malformed and leaves records before it alone
Corrupt(jj, kk) ==
  LET ls == Lines(recs)
      b  == 4 * (jj - 1)
      r  == recs[jj]
  IN CASE kk = "no-at"     -> JoinLF([ls EXCEPT ![b + 1] = r.name])                 \* '@' removed
       [] kk = "no-plus"   -> JoinLF([ls EXCEPT ![b + 3] = <<>>])                   \* '+' removed
       [] kk = "plus-gone" -> JoinLF(SubSeq(ls, 1, b + 2) \o SubSeq(ls, b + 4, Len(ls)))   \* separator line missing altogether
       [] kk = "quals-long"  -> JoinLF([ls EXCEPT ![b + 4] = Append(@, A)])
       [] kk = "quals-short" -> JoinLF([ls EXCEPT ![b + 4] = SubSeq(@, 1, Len(@) - 1)])
       [] kk = "quals-short2" -> JoinLF([ls EXCEPT ![b + 4] = SubSeq(@, 1, Len(@) - 2)])
       [] kk = "cut1" -> JoinLF(SubSeq(ls, 1, b + 1))
       [] kk = "cut2" -> JoinLF(SubSeq(ls, 1, b + 2))
       [] kk = "cut3" -> JoinLF(SubSeq(ls, 1, b + 3))

Kinds == {"no-at", "no-plus", "plus-gone", "quals-long", "quals-short", "quals-short2", "cut1", "cut2", "cut3"}

\* a corruption must really make the record malformed (e.g. removing '@' from the name "@x" leaves "@x": not a corruption;
\* removing the '+' line in front of qualities that themselves look like a separator may re-synchronise: excluded by the guard)
IsCorruption(jj, kk) ==
  LET r == recs[jj] IN
  CASE kk = "no-at" -> (IF r.name = <<>> THEN TRUE ELSE r.name[1] # AT)
    [] kk = "quals-short" -> Len(r.quals) > 0
    [] kk = "quals-short2" -> Len(r.quals) > 1
    [] kk = "plus-gone" -> LET ls == Lines(recs)
                               rest == SubSeq(ls, 4 * (jj - 1) + 1, 4 * (jj - 1) + 2) \o SubSeq(ls, 4 * (jj - 1) + 4, Len(ls))
                           IN ~GroupOK(rest, 1)
    [] OTHER -> TRUE

DoCorrupt(jj, kk) == /\ phase = "clean" /\ jj \in 1..Len(recs) /\ (IsCorruption(jj, kk) = TRUE)   \* "= TRUE": evaluate as an expression (no disjunct splitting)
                     /\ text' = Corrupt(jj, kk) /\ phase' = "corrupt" /\ j' = jj /\ kind' = kk
                     /\ UNCHANGED <<in, recs>>

CNext == \/ \E r \in SmallPool : Grow(r)
         \/ Seal
         \/ \E jj \in 1..MaxRecs, kk \in Kinds : DoCorrupt(jj, kk)

RoundTrip == phase = "clean" =>
               /\ Machine(ScanLines(text)) = Items(recs)
               /\ Denote(ScanLines(text)) = Items(recs)
               /\ Machine(ScanLines(ToCRLF(text))) = Items(recs)
               /\ \A i \in 1..Len(recs) : Len(WriteRec(recs[i])) = MarshalLen(recs[i])

Reject == phase = "corrupt" =>
            /\ RejectOK(Machine(ScanLines(text)), recs, j)
            /\ RejectOK(Denote(ScanLines(text)), recs, j)
            /\ Machine(ScanLines(text)) = Items(SubSeq(recs, 1, j - 1)) \o <<ERR>>

Emit == phase \in {"clean", "corrupt"} =>
          PrintT(<<"CASE", ToJson([recs |-> recs, text |-> text, j |-> j, kind |-> kind,
                                   items |-> Denote(ScanLines(text))])>>)

\* deliberately broken layer (non-vacuity of Reject): a reader that skips the length check fabricates a record
StepNoLen(st, line) ==
  IF ~st.dead /\ st.phase = "qual"
  THEN [st EXCEPT !.phase = "name", !.out = Append(@, Item(Rec(st.name, st.seq, line)))]
  ELSE Step(st, line)
RejectNoLen == phase = "corrupt" => RejectOK(AtEOF(FoldLeft(StepNoLen, F0, ScanLines(text))), recs, j)
=============================================================================
