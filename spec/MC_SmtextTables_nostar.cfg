CONSTANTS
  Labels <- LabelsACStar
  Pool <- Pool1
  MaxR = 1
  MaxC = 2
  Perms = "all"
INIT Init
NEXT Next
INVARIANTS LayoutFreeNoStar
CHECK_DEADLOCK FALSE
