CONSTANTS
  Alphabet <- AlphaLong
  MaxLen = 4
  Repaired = FALSE
INIT Init
NEXT Next
INVARIANTS FrameLaw
CHECK_DEADLOCK FALSE
