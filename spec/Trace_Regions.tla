--------------------------- MODULE Trace_Regions ---------------------------
(* Leg T of C16: sessions recorded from the real interval index (harness: `vh regions-drive`,
   `vh regions-conc`), one event per public call at its return, judged against the property-level
   layer of Regions.tla (Covering / Panics) only.
   event = [sid, step, op, starts, ends, panic, q, ret, race, tag, rawq]
     op = "new"  : NewIndex(starts, ends) was called; panic = whether it panicked
     op = "at"   : At(q) returned ret (after whatever the driver did to earlier results: tag)
     op = "conc" : 8 goroutines have called At concurrently; race = the race detector reported a
                   data race, i.e. At (or a caller writing into a returned slice) wrote shared state.
                   The specification has no action that changes the index after NewIndex, so a
                   race report is an event it rejects.
   Coordinates are ranks (a strictly monotone image of the real ones). *)
EXTENDS Regions, TLC, Json

Trace == ndJsonDeserialize("trace.ndjson")

VARIABLES l, sid, starts, ends, bad, fsid
tvars == <<l, sid, starts, ends, bad, fsid>>

AtReason(S, E, e) ==
  LET want == CoveringSet(S, E, e.q)
      got  == ToSet(e.ret)
  IN IF got # want
       THEN IF \E x \in got \ want : x \in Ids(S) /\ S[x + 1] >= E[x + 1]
              THEN "at-reports-empty-or-inverted-interval"
              ELSE IF want \subseteq got THEN "at-reports-non-covering-interval"
              ELSE "at-misses-covering-interval"
       ELSE IF ~IsAscending(e.ret) THEN "at-not-ascending"
       ELSE "ok"

Reason(S, E, e) ==
  CASE e.op = "new"  -> IF e.panic # Panics(e.starts, e.ends) THEN "newindex-panic" ELSE "ok"
    [] e.op = "at"   -> AtReason(S, E, e)
    [] e.op = "conc" -> IF e.race THEN "at-wrote-shared-state" ELSE "ok"
    [] OTHER         -> "unknown-event"

TInit == l = 1 /\ sid = -1 /\ starts = <<>> /\ ends = <<>> /\ bad = <<>> /\ fsid = -1

TNext == /\ l <= Len(Trace)
         /\ LET e   == Trace[l]
                S   == IF e.op = "new" THEN e.starts ELSE starts
                E   == IF e.op = "new" THEN e.ends ELSE ends
                why == IF e.sid = fsid THEN "ok" ELSE Reason(S, E, e)
            IN /\ starts' = S
               /\ ends' = E
               /\ sid' = e.sid
               /\ l' = l + 1
               /\ bad' = IF why = "ok" THEN bad ELSE Append(bad, <<l, why>>)
               /\ fsid' = IF why = "ok" THEN fsid ELSE e.sid

TSpec == TInit /\ [][TNext]_tvars

Done == (l = Len(Trace) + 1) => PrintT(<<"VERDICT", l - 1, bad>>)
=============================================================================
