CONSTANTS
  Letters = {65, 255}
  Scores = {1, 2}
INIT Init
NEXT Next
INVARIANTS GoStringBySecondByte
CHECK_DEADLOCK FALSE
