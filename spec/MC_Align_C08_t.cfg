CONSTANTS
  Variant = "code"
  Alphabet = {1,2}
  MaxLen = 4
  BruteLen = 0
  GapVals <- MCGapNeg
  FreeGaps = TRUE
INIT Init
NEXT Next
INVARIANTS ValidGlobalOK ValidLocalOK ScoreConsistent NoPositiveOK NoPositiveIsLocalOptZero RowwiseAgrees NeverAbove LocalStartsWithMatch
CHECK_DEADLOCK FALSE
