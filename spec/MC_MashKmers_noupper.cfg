CONSTANTS
  Alphabet = {65, 67, 71, 84, 97, 103}
  MaxLen = 3
  MaxLen2 = 2
  MaxK = 3
  MaxN = 1
INIT Init
NEXT Next
INVARIANTS CaseFreeNoUpper
CHECK_DEADLOCK FALSE
