CONSTANTS
  MaxNodes = 4
  Reversed = TRUE
  WitnessN = 0
INIT Init
NEXT Next
INVARIANTS PreIsRecursive PostIsRecursive
CHECK_DEADLOCK FALSE
