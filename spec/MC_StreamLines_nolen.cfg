CONSTANTS
  MaxLen = 7
  ByteClasses <- MCFq
  NoLenCheck = TRUE
  Kind = "scanner"
INIT InitFixed
NEXT Next
INVARIANTS FqFaultOK
CHECK_DEADLOCK FALSE
