------------------------------ MODULE SamFlag ------------------------------
(* formats/sam/flag.go: the 12 flag bits of the SAM specification (section 1.4, FLAG), one action per setter.
   The state carries the integer `f` and, redundantly, the set `on` of names whose bit is set, so that the
   dumped state graph shows what every accessor must return.  4096 states x 24 actions = 98 304 transitions. *)
EXTENDS Naturals, FiniteSets

VARIABLES f, on

Names == {"Multiple", "Each", "Unmapped", "Unmapped2", "ReverseComplement", "ReverseComplement2",
          "First", "Last", "Secondary", "NotPassing", "Duplicate", "Supplementary"}

\* SAM specification: 0x1 multiple segments, 0x2 each segment properly aligned, 0x4 unmapped, 0x8 next unmapped,
\* 0x10 reverse complemented, 0x20 next reverse complemented, 0x40 first, 0x80 last, 0x100 secondary,
\* 0x200 not passing filters, 0x400 duplicate, 0x800 supplementary
Bit == [n \in Names |->
          CASE n = "Multiple" -> 1 [] n = "Each" -> 2 [] n = "Unmapped" -> 4 [] n = "Unmapped2" -> 8
            [] n = "ReverseComplement" -> 16 [] n = "ReverseComplement2" -> 32 [] n = "First" -> 64 [] n = "Last" -> 128
            [] n = "Secondary" -> 256 [] n = "NotPassing" -> 512 [] n = "Duplicate" -> 1024 [] n = "Supplementary" -> 2048]

Get(x, n) == (x \div Bit[n]) % 2 = 1
SetBit(x, n, v) == IF v THEN (IF Get(x, n) THEN x ELSE x + Bit[n]) ELSE (IF Get(x, n) THEN x - Bit[n] ELSE x)
OnSet(x) == { n \in Names : Get(x, n) }

Init == f = 0 /\ on = {}
Set(n, v) == f' = SetBit(f, n, v) /\ on' = OnSet(f')
Next == \E n \in Names, v \in BOOLEAN : Set(n, v)

InRange == f \in 0..4095 /\ on = OnSet(f)
\* a setter writes exactly its bit
SetterExact == [][\A n \in Names, v \in BOOLEAN : Set(n, v) =>
                     /\ Get(f', n) = v
                     /\ \A o \in Names \ {n} : Get(f', o) = Get(f, o)]_<<f, on>>
\* deliberately broken variant (non-vacuity): clearing with XOR instead of AND-NOT flips a bit that is already clear
XorSet(n, v) == f' = (IF v THEN SetBit(f, n, TRUE) ELSE (IF Get(f, n) THEN f - Bit[n] ELSE f + Bit[n])) /\ on' = OnSet(f')
NextXor == \E n \in Names, v \in BOOLEAN : XorSet(n, v)
SetterExactXor == [][\A n \in Names, v \in BOOLEAN : XorSet(n, v) => Get(f', n) = v]_<<f, on>>
=============================================================================
