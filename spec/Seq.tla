-------------------------------- MODULE Seq --------------------------------
(* sequtil/sequtil.go - constant-free operators shared by the exhaustive models (MC_Seq.tla), the
   trace specification (Trace_Seq.tla) and other modules that need canonical k-mers (C17).

   Bytes are integers 0..255, byte strings are sequences of them.  Calls that may panic return a
   record [panic, out]; `Panic` is the one panicking result.

   Property-level layer (C12, C13): the statements' own words -
     Comp (aAcCgGtTnN, case preserving), RevComp, PRevComp (append, panic outside the alphabet),
     Canon(s, k) (lexicographically smaller of each window and its reverse complement),
     Pack / Unpack by integer arithmetic (first base in the most significant bits), Ntoi / Iton.
   Implementation-shaped layer: transcriptions of the Go loops and tables -
     CompTable + IRevComp (backwards loop appending complementByte), ICanon (one reverse complement,
     windows seq[i:i+k] and rc[len-i-k:len-i], bytes.Compare == 1), ITo2Bit (di, shift, |=),
     From2BitTable + IFrom2Bit, NtoiTable, ItonSwitch. *)
EXTENDS Integers, Sequences, FiniteSets, Bitwise

\* ASCII codes of the ten letters
UA == 65   UC == 67   UG == 71   UT == 84   UN == 78
LA == 97   LC == 99   LG == 103  LT == 116  LN == 110

Bases   == {UA, UC, UG, UT, LA, LC, LG, LT}        \* "aAcCgGtT"
Letters == Bases \cup {UN, LN}                     \* "aAcCgGtTnN"
Byte    == 0..255

Over(s, S) == \A i \in 1..Len(s) : s[i] \in S      \* every byte of s is in S

Res(o) == [panic |-> FALSE, out |-> o]
Panic  == [panic |-> TRUE,  out |-> <<>>]

Rev(s)   == [i \in 1..Len(s) |-> s[Len(s) + 1 - i]]
Upper(s) == [i \in 1..Len(s) |-> IF s[i] >= 97 /\ s[i] <= 122 THEN s[i] - 32 ELSE s[i]]
IsUpperByte(b) == b >= 65 /\ b <= 90

---------------------------------------------------------------------------
(* Property-level layer, C12 *)

Comp == [b \in Letters |->
           CASE b = LA -> LT [] b = UA -> UT
             [] b = LC -> LG [] b = UC -> UG
             [] b = LG -> LC [] b = UG -> UC
             [] b = LT -> LA [] b = UT -> UA
             [] b = LN -> LN [] b = UN -> UN]

\* reversed, base-wise complemented, case-preserving copy (tbl = Comp everywhere except in the
\* deliberately broken model variants)
RevCompWith(tbl, s) == [i \in 1..Len(s) |-> tbl[s[Len(s) + 1 - i]]]
RevComp(s) == RevCompWith(Comp, s)

\* ReverseComplement(dst, src): dst followed by RevComp(src); any other byte causes a panic
PRevComp(dst, src) == IF Over(src, Letters) THEN Res(dst \o RevComp(src)) ELSE Panic

\* lexicographic order on byte strings of equal length
LexLess(a, b) == \E i \in 1..Len(a) : a[i] < b[i] /\ \A j \in 1..(i - 1) : a[j] = b[j]
LexMin(a, b)  == IF LexLess(b, a) THEN b ELSE a

Window(s, i, k) == SubSeq(s, i, i + k - 1)         \* seq[i-1 : i-1+k] in Go terms

\* CanonicalSubsequences(s, k), k >= 1, s over Letters: Len(s)-k+1 items, none if k > Len(s)
CanonWith(tbl, s, k) ==
  [i \in 1..(Len(s) - k + 1) |-> LexMin(Window(s, i, k), RevCompWith(tbl, Window(s, i, k)))]
Canon(s, k) == CanonWith(Comp, s, k)

---------------------------------------------------------------------------
(* Property-level layer, C13 *)

Code(b) == CASE b = UA \/ b = LA -> 0
             [] b = UC \/ b = LC -> 1
             [] b = UG \/ b = LG -> 2
             [] b = UT \/ b = LT -> 3
Base(i) == <<UA, UC, UG, UT>>[i + 1]

Ntoi(b) == IF b \in Bases THEN Code(b) ELSE -1
Iton(i) == IF i \in 0..3 THEN Base(i) ELSE UN

\* ceil(Len(s)/4) bytes; byte j holds bases 4j-3..4j, the first one in bits 7-6, missing ones as 0
Pack(s) ==
  [j \in 1..((Len(s) + 3) \div 4) |->
     LET D(t) == IF 4 * (j - 1) + t <= Len(s) THEN Code(s[4 * (j - 1) + t]) ELSE 0
     IN  64 * D(1) + 16 * D(2) + 4 * D(3) + D(4)]

Pow4 == <<1, 4, 16, 64>>
Unpack(p) ==
  [i \in 1..(4 * Len(p)) |-> Base((p[(i - 1) \div 4 + 1] \div Pow4[4 - ((i - 1) % 4)]) % 4)]

APad(n) == [i \in 1..((4 - (n % 4)) % 4) |-> UA]     \* 'A' padding up to a multiple of four

PTo2Bit(dst, src)   == IF Over(src, Bases) THEN Res(dst \o Pack(src)) ELSE Panic
PFrom2Bit(dst, src) == dst \o Unpack(src)

---------------------------------------------------------------------------
(* Implementation-shaped layer *)

\* var complementBytes []byte (256 entries, zero = panic)
CompTable == [b \in Byte |->
                CASE b = LA -> LT [] b = UA -> UT
                  [] b = LC -> LG [] b = UC -> UG
                  [] b = LG -> LC [] b = UG -> UC
                  [] b = LT -> LA [] b = UT -> UA
                  [] b = LN -> LN [] b = UN -> UN
                  [] OTHER -> 0]

\* for i := len(src)-1; i >= 0; i-- { dst = append(dst, complementByte(src[i])) }
RECURSIVE IRevCompLoop(_, _, _, _)
IRevCompLoop(tbl, dst, src, i) ==
  IF i < 0 THEN Res(dst)
  ELSE IF tbl[src[i + 1]] = 0 THEN Panic
  ELSE IRevCompLoop(tbl, Append(dst, tbl[src[i + 1]]), src, i - 1)
IRevCompWith(tbl, dst, src) == IRevCompLoop(tbl, dst, src, Len(src) - 1)
IRevComp(dst, src) == IRevCompWith(CompTable, dst, src)

\* bytes.Compare
SetMin(S) == CHOOSE x \in S : \A y \in S : x <= y
Compare(a, b) ==
  LET m == IF Len(a) < Len(b) THEN Len(a) ELSE Len(b)
      D == { i \in 1..m : a[i] # b[i] }
  IN  IF D = {} THEN (IF Len(a) < Len(b) THEN -1 ELSE IF Len(a) > Len(b) THEN 1 ELSE 0)
      ELSE IF a[SetMin(D)] < b[SetMin(D)] THEN -1 ELSE 1

\* rc := ReverseComplement(make([]byte,0,len(seq)), seq); nk := len(seq)-k+1
\* for i := range nk { kmer := seq[i:i+k]; kmerRC := rc[len(rc)-i-k : len(rc)-i]; if Compare == 1 {kmer = kmerRC} }
ICanon(seq, k) ==
  LET r == IRevComp(<<>>, seq)
  IN  IF r.panic THEN Panic
      ELSE LET rc == r.out
               n  == Len(rc)
               nk == Len(seq) - k + 1
               Item(i) == LET kmer   == SubSeq(seq, i + 1, i + k)
                              kmerRC == SubSeq(rc, n - i - k + 1, n - i)
                          IN  IF Compare(kmer, kmerRC) = 1 THEN kmerRC ELSE kmer
           IN  Res([j \in 1..nk |-> Item(j - 1)])

\* var ntoi []int
NtoiTable == [b \in Byte |->
                CASE b = LA \/ b = UA -> 0
                  [] b = LC \/ b = UC -> 1
                  [] b = LG \/ b = UG -> 2
                  [] b = LT \/ b = UT -> 3
                  [] OTHER -> -1]

ItonSwitch(num) == CASE num = 0 -> UA [] num = 1 -> UC [] num = 2 -> UG [] num = 3 -> UT [] OTHER -> UN

\* dn := len(dst); for i, b := range src { di := dn + i/4; shift := 6 - i%4*2;
\*   if shift == 6 { dst = append(dst, 0) }; ...panic if Ntoi(b) == -1...; dst[di] |= byte(dbInt) << shift }
RECURSIVE ITo2BitLoop(_, _, _, _)
ITo2BitLoop(dst, src, dn, i) ==
  IF i >= Len(src) THEN Res(dst)
  ELSE LET b     == src[i + 1]
           di    == dn + i \div 4
           shift == 6 - (i % 4) * 2
           d1    == IF shift = 6 THEN Append(dst, 0) ELSE dst
           dbInt == NtoiTable[b]
       IN  IF dbInt = -1 THEN Panic
           ELSE ITo2BitLoop([d1 EXCEPT ![di + 1] = d1[di + 1] | ((dbInt * 2 ^ shift) % 256)], src, dn, i + 1)
ITo2Bit(dst, src) == ITo2BitLoop(dst, src, Len(dst), 0)

\* var dnaFrom2bit [][4]byte: val[3-j] = Iton((i >> (2*j)) & 3), j = 0..3
From2BitTable == [i \in Byte |-> [idx \in 1..4 |-> ItonSwitch(shiftR(i, 2 * (4 - idx)) & 3)]]

\* for i := 0; i < len(src); i++ { dst = append(dst, dnaFrom2bit[src[i]][:]...) }
RECURSIVE IFrom2BitLoop(_, _, _)
IFrom2BitLoop(dst, src, i) ==
  IF i >= Len(src) THEN dst
  ELSE IFrom2BitLoop(dst \o From2BitTable[src[i + 1]], src, i + 1)
IFrom2Bit(dst, src) == IFrom2BitLoop(dst, src, 0)
=============================================================================
