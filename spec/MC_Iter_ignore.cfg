CONSTANTS
  ErrItem = 0
  Items <- MCItems
  MaxItems = 4
  NLayers = 3
  AllowIgnore = TRUE
INIT PInit
NEXT PNext
INVARIANTS PrefixOfFullRun AtEnd
PROPERTY NoCallbackAfterStop
CHECK_DEADLOCK FALSE
