CONSTANTS
  MaxLines = 2
INIT FInit
NEXT FNext
INVARIANTS FileOK EmitFile
CHECK_DEADLOCK FALSE
