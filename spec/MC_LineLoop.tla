---------------------------- MODULE MC_LineLoop ----------------------------
(* Instances of LineLoop: pools of real SAM / BED files built from complete records, blank lines, comments / headers,
   CRLF, a malformed line in the middle, a last line without LF.  EmitCase prints, for every (input, fault, stop), the
   items an un-stopped run delivers cut at the stop position - leg R runs them on the real readers. *)
EXTENDS LineLoop, Json

T == <<9>>
NL == <<10>>
CRNL == <<13, 10>>
\* q 0 r 1 0 * * 0 0 A *
SamRec(q) == <<q>> \o T \o <<48>> \o T \o <<114>> \o T \o <<49>> \o T \o <<48>> \o T \o <<42>> \o T \o <<42>> \o T \o <<48>> \o T
             \o <<48>> \o T \o <<65>> \o T \o <<42>>
SamHdr == <<64, 72>>                     \* @H
SamBad == <<120, 9, 121>>                \* x TAB y: too few columns
SamBadInt == <<113>> \o T \o <<122>> \o T \o <<114>> \o T \o <<49>> \o T \o <<48>> \o T \o <<42>> \o T \o <<42>> \o T \o <<48>> \o T
             \o <<48>> \o T \o <<65>> \o T \o <<42>>       \* FLAG is not a number

MCSamPool == <<
  SamHdr \o NL \o SamRec(97) \o NL \o NL \o SamRec(98) \o CRNL \o SamBad \o NL \o SamRec(99),
  SamRec(97) \o NL \o SamHdr \o CRNL \o SamBadInt \o NL,
  SamRec(97),
  NL \o CRNL,
  <<>> >>

BedRec(c, a, b) == <<c>> \o T \o <<a>> \o T \o <<b>>
MCBedPool == <<
  <<35, 99>> \o NL \o BedRec(99, 49, 50) \o NL \o NL \o BedRec(100, 51, 52) \o CRNL \o BedRec(101, 53, 54),
  BedRec(99, 49, 50) \o NL \o BedRec(99, 120, 50) \o NL \o BedRec(99, 51, 52) \o NL,
  BedRec(99, 49, 50) \o NL \o BedRec(99, 49, 50) \o T \o <<46>> \o NL \o BedRec(99, 51, 52) \o NL,
  BedRec(99, 49, 50) \o T \o <<110>> \o T \o <<55>> \o T \o <<43>> \o NL \o <<35>> \o NL \o BedRec(100, 49, 50) \o T \o <<110>> \o T \o <<56>> \o T \o <<45>>,
  NL \o <<35>> \o NL,
  <<>> >>

\* terminal states stutter, so that TLC's deadlock check means: a run that is not over can always take a step
Finished == done /\ UNCHANGED vars
MCNext == Next \/ Finished

EmitNext == Choose
EmitCase == Ready => PrintT(<<"CASE", ToJson([fmt |-> Fmt, text |-> data, at |-> fault.at, mode |-> fault.mode, stop |-> stopAt,
                                               items |-> [i \in 1..Len(Take(Full, stopAt)) |-> G(Take(Full, stopAt)[i])]])>>)
=============================================================================
