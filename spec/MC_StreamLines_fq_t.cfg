CONSTANTS
  MaxLen = 8
  ByteClasses <- MCFq
  NoLenCheck = FALSE
  Kind = "scanner"
INIT Init
NEXT Next
INVARIANTS LemmaScanner LemmaReadString FqSchedFree FqFaultOK
CHECK_DEADLOCK FALSE
