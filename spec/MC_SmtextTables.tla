-------------------------- MODULE MC_SmtextTables --------------------------
(* Leg M of C20, part 2: tables, their layouts and their single-token corruptions.
   Init chooses the row and column labels (injective sequences over Labels, '*' among them); the
   first step chooses the cells (all assignments of Pool tokens), a row order, a column order, one of
   the layout Styles and one corruption (or none).
     LayoutFree       : every layout of a valid table is well formed, is a layout of it (IsLayoutOf), and
                        both PRead and the transcription of ReadNCBI on the rendered text yield DenoteTable
     StarIsGap        : the label '*' appears as 255 and never as 42
     CorruptRejected  : a row with the wrong number of values, a non-numeric score, a multi-character
                        label  =>  error and no matrix (on the rendered text, by the transcription)
     MachineIsPRead   : on every generated text, corrupted or not, both layers agree *)
EXTENDS Smtext

CONSTANTS Labels, Pool, MaxR, MaxC, Perms
VARIABLES rows, cols, cells, rp, cp, style, cor, ph
vars == <<rows, cols, cells, rp, cp, style, cor, ph>>

\* constant values for the cfg files (tuples cannot be written there)
LabelsACStar == { <<65>>, <<67>>, <<42>> }                     \* A, C, *
Pool1 == { <<45, 50>> }                                         \* "-2"
Pool2 == { <<45, 50>>, <<49, 46, 53>> }                         \* "-2", "1.5"
Pool3 == { <<45, 50>>, <<48>>, <<49, 46, 53>> }                 \* "-2", "0", "1.5"

NumT(tok) == IF tok \in Pool THEN [ok |-> TRUE, a |-> tok] ELSE [ok |-> FALSE, a |-> <<>>]

InjSeqs(S, lo, hi) == { s \in UNION { [1..n -> S] : n \in lo..hi } : \A i, j \in 1..Len(s) : s[i] = s[j] => i = j }

\* row / column orders: "all" = every permutation, "some" = identity, reversal, rotation
Orders(n) ==
  LET all == { p \in [1..n -> 1..n] : \A i, j \in 1..n : p[i] = p[j] => i = j }
  IN IF Perms = "all" THEN all
     ELSE { p \in all : \/ \A i \in 1..n : p[i] = i
                        \/ \A i \in 1..n : p[i] = n + 1 - i
                        \/ \A i \in 1..n : p[i] = (i % n) + 1 }

SP == <<32>>
TB == <<9>>
\* [sep1, sep2 (alternating), pre of the header, pre of rows, post, decor, eol, final]
Styles == <<
  [s1 |-> SP,          s2 |-> SP,        hpre |-> <<>>,           rpre |-> <<>>, post |-> <<>>,     decor |-> 0, eol |-> <<10>>,     final |-> TRUE],
  [s1 |-> TB,          s2 |-> TB,        hpre |-> TB,             rpre |-> <<>>, post |-> SP,       decor |-> 1, eol |-> <<10>>,     final |-> FALSE],
  [s1 |-> <<32, 32>>,  s2 |-> <<32, 9>>, hpre |-> <<32, 32, 32>>, rpre |-> SP,   post |-> <<>>,     decor |-> 2, eol |-> <<13, 10>>, final |-> TRUE],
  [s1 |-> SP,          s2 |-> <<9, 32>>, hpre |-> <<>>,           rpre |-> TB,   post |-> <<9, 9>>, decor |-> 2, eol |-> <<10>>,     final |-> FALSE] >>

T == [rows |-> rows, cols |-> cols, cells |-> cells]

TLine(pre, toks, st) ==
  [k |-> "t", body |-> <<>>, pre |-> pre, toks |-> toks,
   seps |-> [j \in 1..(Len(toks) - 1) |-> IF j % 2 = 1 THEN st.s1 ELSE st.s2], post |-> st.post]
CLine(b) == [k |-> "c", body |-> b, pre |-> <<>>, toks |-> <<>>, seps |-> <<>>, post |-> <<>>]
ELine == [k |-> "e", body |-> <<>>, pre |-> <<>>, toks |-> <<>>, seps |-> <<>>, post |-> <<>>]

Layout(st) ==
  LET hdr == TLine(st.hpre, [j \in 1..Len(cols) |-> cols[cp[j]]], st)
      row(i) == TLine(st.rpre, <<rows[rp[i]]>> \o [j \in 1..Len(cols) |-> cells[rp[i]][cp[j]]], st)
      body == [i \in 1..Len(rows) |-> row(i)]
  IN CASE st.decor = 0 -> <<hdr>> \o body
       [] st.decor = 1 -> <<CLine(<<35, 32, 65, 32, 49>>), hdr, ELine>> \o body                 \* "# A 1" looks like data
       [] OTHER        -> <<ELine, CLine(<<35>>), hdr, CLine(<<35, 65>>)>> \o
                          Concat([i \in 1..Len(rows) |-> <<body[i], ELine>>]) \o <<CLine(<<35, 42, 9>>)>>

\* corruptions of one token of the data lines: cor = <<kind, data line, token>>
DataIdx(lines) == SelectSeq([i \in 1..Len(lines) |-> i], LAMBDA i : lines[i].k = "t")
DropAt(s, i) == SubSeq(s, 1, i - 1) \o SubSeq(s, i + 1, Len(s))
PutAfter(s, i, x) == SubSeq(s, 1, i) \o <<x>> \o SubSeq(s, i + 1, Len(s))          \* after position i
Corrupt(lines, c) ==
  IF c[1] = "none" THEN lines
  ELSE LET li == DataIdx(lines)[c[2]]
           ln == lines[li]
           ti == c[3]
           new == CASE c[1] = "del" -> [ln EXCEPT !.toks = DropAt(ln.toks, ti),
                                                   !.seps = DropAt(ln.seps, IF ti > Len(ln.seps) THEN Len(ln.seps) ELSE ti)]
                    [] c[1] = "dup" -> [ln EXCEPT !.toks = PutAfter(ln.toks, ti, ln.toks[ti]),
                                                   !.seps = PutAfter(ln.seps, ti - 1, SP)]
                    [] c[1] = "x"   -> [ln EXCEPT !.toks[ti] = <<120>>]
                    [] OTHER        -> [ln EXCEPT !.toks[ti] = <<65, 67>>]
       IN [lines EXCEPT ![li] = new]
Corruptions ==
  {<<"none", 0, 0>>} \cup
  { <<kd, d, t>> : kd \in {"del", "dup", "x", "ac"}, d \in 1..(Len(rows) + 1), t \in 1..(Len(cols) + 1) }
CorOK(c) == c[1] = "none" \/ ( /\ c[3] <= (IF c[2] = 1 THEN Len(cols) ELSE Len(cols) + 1)
                               /\ (c[1] = "del" => (IF c[2] = 1 THEN Len(cols) ELSE Len(cols) + 1) >= 2) )
\* the three kinds of corruption the property names
Named(c) == \/ c[1] = "ac"
            \/ c[1] = "x" /\ c[2] >= 2 /\ c[3] >= 2
            \/ c[1] \in {"del", "dup"} /\ (c[2] >= 2 \/ Len(rows) >= 1)

Init == /\ rows \in InjSeqs(Labels, 0, MaxR) /\ cols \in InjSeqs(Labels, 1, MaxC)
        /\ cells = <<>> /\ rp = <<>> /\ cp = <<>> /\ style = 1 /\ cor = <<"none", 0, 0>> /\ ph = 0

Pick(f, r, c, s, k) ==
  /\ ph = 0 /\ ph' = 1
  /\ cells' = [i \in 1..Len(rows) |-> [j \in 1..Len(cols) |-> f[<<i, j>>]]]
  /\ rp' = r /\ cp' = c /\ style' = s /\ cor' = k
  /\ UNCHANGED <<rows, cols>>
\* layouts are explored uncorrupted; corruptions are applied to the plain style with the identity orders
Ident(n) == [i \in 1..n |-> i]
Next == ph = 0 /\
        \/ \E f \in [(1..Len(rows)) \X (1..Len(cols)) -> Pool], r \in Orders(Len(rows)), c \in Orders(Len(cols)),
              s \in 1..Len(Styles) : Pick(f, r, c, s, <<"none", 0, 0>>)
        \/ \E f \in [(1..Len(rows)) \X (1..Len(cols)) -> Pool], k \in Corruptions \ {<<"none", 0, 0>>} :
              CorOK(k) /\ Pick(f, Ident(Len(rows)), Ident(Len(cols)), 1, k)

Lines == Corrupt(Layout(Styles[style]), cor)
Text == Render(Lines, Styles[style].eol, Styles[style].final)

\* the named formulas, over the layout L, the table's denotation D, the transcription's result on the
\* rendered text (mach) and the property-level reading of L (pread)
LayoutFreeP(L, D, mach, pread) ==
  cor[1] = "none" =>
     /\ ValidTable(T, NumT) /\ WellFormed(L) /\ IsLayoutOf(L, T)
     /\ pread = Ok(D)
     /\ mach = Ok(D)
     /\ IsFunctional(D)
     /\ Cardinality(D) = Len(rows) * Len(cols)
StarIsGapP(mach) ==
  cor[1] = "none" =>
     /\ \A t \in mach.m : t[1] # STAR /\ t[2] # STAR
     /\ (\E i \in 1..Len(rows) : rows[i] = <<STAR>>) => \E t \in mach.m : t[1] = Gap
     /\ ((\E j \in 1..Len(cols) : cols[j] = <<STAR>>) /\ rows # <<>>) => \E t \in mach.m : t[2] = Gap
CorruptRejectedP(L, mach) ==
  Named(cor) => /\ WellFormed(L)
                /\ Malformed(L, NumT)
                /\ mach = Err
MachineIsPReadP(L, mach, pread) == WellFormed(L) /\ mach = pread

\* one invariant, so that the layout is generated, rendered and read once per state
TablesOK ==
  ph = 1 =>
    LET L == Lines
        D == DenoteTable(T, NumT)
        mach == Machine(Render(L, Styles[style].eol, Styles[style].final), NumT)
        pread == PRead(L, NumT)
    IN /\ LayoutFreeP(L, D, mach, pread)
       /\ StarIsGapP(mach)
       /\ CorruptRejectedP(L, mach)
       /\ MachineIsPReadP(L, mach, pread)

\* the same formulas as separate invariants (for diagnosis; the cfg files check TablesOK)
LayoutFree      == ph = 1 => LayoutFreeP(Lines, DenoteTable(T, NumT), Machine(Text, NumT), PRead(Lines, NumT))
StarIsGap       == ph = 1 => StarIsGapP(Machine(Text, NumT))
CorruptRejected == ph = 1 => CorruptRejectedP(Lines, Machine(Text, NumT))
MachineIsPRead  == ph = 1 => MachineIsPReadP(Lines, Machine(Text, NumT), PRead(Lines, NumT))

\* deliberately broken variant (non-vacuity): a reader that does not map '*' to the gap symbol
LayoutFreeNoStar ==
  (ph = 1 /\ cor[1] = "none") => MachineL(Text, NumT, LabNoStar) = Ok(DenoteTable(T, NumT))
=============================================================================
