CONSTANTS
  MaxN = 3
  MaxC = 5
  SkipEmpty = TRUE
INIT Init
NEXT Next
INVARIANTS TypeOK SweepInv AtIsCovering Ascending NoEmptyReported OutsideNothing MismatchPanics
PROPERTIES ReadOnly
CHECK_DEADLOCK FALSE
