------------------------------- MODULE Stream -------------------------------
(* The environment of a decoder (DESIGN.md 3.3): an io.Reader that delivers `data` in arbitrary chunks, possibly
   data together with EOF, and possibly fails with a non-EOF error at offset fault.at (mode "once": the error once,
   then EOF; "forever": the error on every later Read) - composed with bufio.Reader (fill / ReadByte: a pending
   error is handed out after the buffered bytes and cleared once returned), the byte state machine of
   fasta.read(), the iter()/Reader layers and a consumer that may stop at any item.

   One Read of the underlying reader (Fill), one ReadByte that returns a byte (Byte) and one ReadByte that returns
   the pending error (Err) are separate actions, so TLC explores every read schedule, every fault placement and
   every stop position of every input.  This is leg M of C06 / C07 / C18 for the byte-level reader; the
   line-oriented readers are covered by the function-level fault models of MC_Fault. *)
EXTENDS Fasta, Integers, TLC

CONSTANTS MaxLen, ByteClasses, PartialOnError     \* PartialOnError = TRUE: deliberately broken reader (non-vacuity)

VARIABLES data, fault, stopAt,        \* environment: input, fault [at, mode] (at = -1: none), consumer stops at item stopAt (0: never)
          off, fired,                 \* underlying reader: bytes handed out, error results returned so far
          rpos, perr,                 \* bufio: bytes consumed through ReadByte, pending error "none" | "eof" | "err"
          st,                         \* locals of read(): Fasta!M0-shaped [mode, name, seq, any, out]
          items, done                 \* what the consumer has received; the iterator has returned

vars == <<data, fault, stopAt, off, fired, rpos, perr, st, items, done>>

ERR == [k |-> "err"]
Limit == IF fault.at >= 0 THEN fault.at ELSE Len(data)
Recs(its) == SelectSeq(its, LAMBDA x : x # ERR)

Init == /\ data \in StringsUpTo(ByteClasses, MaxLen)
        /\ fault = [at |-> 0 - 1, mode |-> "none"] /\ stopAt = 0
        /\ off = 0 /\ fired = 0 /\ rpos = 0 /\ perr = "none" /\ st = M0 /\ items = <<>> /\ done = FALSE
        /\ fault \in {[at |-> 0 - 1, mode |-> "none"]}

\* the environment commits to a fault and a stop position before the first Read (a first, parallel step)
Choose == /\ off = 0 /\ rpos = 0 /\ perr = "none" /\ items = <<>> /\ ~done /\ fault.mode = "none" /\ stopAt = 0 /\ fired = 0
          /\ \/ \E k \in 0..Len(data), m \in {"once", "forever"} : fault' = [at |-> k, mode |-> m] /\ stopAt' = 0
             \/ \E s \in 1..(Len(data) + 1) : stopAt' = s /\ fault' = [at |-> 0 - 1, mode |-> "set"]
             \/ fault' = [at |-> 0 - 1, mode |-> "set"] /\ stopAt' = 0
          /\ UNCHANGED <<data, off, fired, rpos, perr, st, items, done>>

Ready == fault.mode # "none"

Yield(it) == /\ items' = Append(items, it)
             /\ done' = (it = ERR \/ (stopAt > 0 /\ Len(items) + 1 = stopAt))

\* one Read() of the underlying reader, called by bufio.fill when the buffer is empty and no error is pending
Fill == /\ Ready /\ ~done /\ rpos = off /\ perr = "none"
        /\ \/ \E n \in 1..(Limit - off) :                                   \* n bytes, no error
                off' = off + n /\ perr' = "none" /\ fired' = fired
           \/ /\ off < Limit /\ off' = Limit                                 \* the rest together with EOF / with the error
              /\ IF fault.at < 0 THEN perr' = "eof" /\ fired' = fired
                 ELSE perr' = "err" /\ fired' = fired + 1
           \/ /\ off = Limit /\ off' = off                                   \* nothing left
              /\ IF fault.at < 0 \/ (fault.mode = "once" /\ fired >= 1)
                 THEN perr' = "eof" /\ fired' = fired
                 ELSE perr' = "err" /\ fired' = fired + 1
        /\ UNCHANGED <<data, fault, stopAt, rpos, st, items, done>>

\* ReadByte returns data[rpos + 1]
Byte == /\ Ready /\ ~done /\ rpos < off
        /\ LET s2 == Step(st, data[rpos + 1]) IN
             IF Len(s2.out) > 0                                              \* '>' at a line start: UnreadByte, read() returns, iter yields
             THEN /\ Yield(s2.out[1])
                  /\ st' = [s2 EXCEPT !.out = <<>>]                          \* the next read() consumes the '>' in state start
             ELSE st' = s2 /\ UNCHANGED <<items, done>>
        /\ rpos' = rpos + 1
        /\ UNCHANGED <<data, fault, stopAt, off, fired, perr>>

\* ReadByte returns the pending error (once), the loop of read() ends
Err == /\ Ready /\ ~done /\ rpos = off /\ perr # "none"
       /\ perr' = "none"
       /\ IF ~st.any
          THEN IF perr = "eof" THEN done' = TRUE /\ UNCHANGED items            \* read() = (nil, EOF): iter ends silently
               ELSE Yield(ERR)
          ELSE IF perr = "err" /\ ~PartialOnError THEN Yield(ERR)             \* read() = (nil, err): the partial record is dropped
               ELSE Yield(Rec(st.name, st.seq))                                \* EOF after data: the last record
       /\ st' = M0
       /\ UNCHANGED <<data, fault, stopAt, off, fired, rpos>>

Next == Choose \/ Fill \/ Byte \/ Err
Spec == Init /\ [][Next]_vars

---------------------------------------------------------------------------
IsPrefixOf(a, b) == Len(a) <= Len(b) /\ SubSeq(b, 1, Len(a)) = a

\* C06: the items do not depend on how the stream was cut into reads
SchedFree == (done /\ fault.at < 0 /\ stopAt = 0) => items = DenoteQ(data)

\* C07: only leading records of the fault-free decode, then exactly one error, last
FaultOK == (done /\ fault.at >= 0) =>
             /\ IsPrefixOf(Recs(items), DenoteQ(data))
             /\ items # <<>> /\ items[Len(items)] = ERR
             /\ Len(items) = Len(Recs(items)) + 1

\* C18: stopped after stopAt items: exactly the leading items of the uninterrupted run
StopOK == (done /\ stopAt > 0) => /\ Len(items) <= stopAt
                                   /\ items = SubSeq(DenoteQ(data), 1, Len(items))
NoCallbackAfterDone == [][done => items' = items]_vars
Terminates == <>done
=============================================================================
