CONSTANTS
  MaxLen = 7
  ByteClasses <- MCFq
  NoLenCheck = FALSE
  Kind = "scanner"
INIT InitFixed
NEXT Next
INVARIANTS LemmaScanner FqSchedFree FqFaultOK
CHECK_DEADLOCK FALSE
