CONSTANTS
  MaxLines = 2
  MaxIn = 0
  MaxTags = 0
INIT FInit
NEXT FNext
INVARIANTS FileOK EmitFile
CHECK_DEADLOCK FALSE
