------------------------------- MODULE Trie -------------------------------
(* The trie as a state machine over every history of Add / Delete (leg M of C15).
   TLC checks that the implementation-shaped layer (`nodes`) refines the property-level layer
   (`m`) in every reachable state.  The graph is complete for the alphabet and length bound, so
   the invariants hold for histories of any length over them. *)
EXTENDS TrieOps

CONSTANTS Alphabet,   \* set of byte values
          MaxLen      \* maximal length of an added / deleted sequence

VARIABLES nodes, m
vars == <<nodes, m>>

RECURSIVE SeqsUpTo(_, _)
SeqsUpTo(S, n) == IF n = 0 THEN { <<>> }
                  ELSE LET P == SeqsUpTo(S, n - 1)
                       IN P \cup { Append(p, a) : p \in { q \in P : Len(q) = n - 1 }, a \in S }

Strings == SeqsUpTo(Alphabet, MaxLen) \ { <<>> }

Init == nodes = {} /\ m = {}

Add(b) == nodes' = IAdd(nodes, b) /\ m' = PAdd(m, b)

Delete(b, r) == /\ r = IDeleteRet(nodes, b)
                /\ nodes' = IDelete(nodes, b)
                /\ m' = PDelete(m, b)

Next == \/ \E b \in Strings : Add(b)
        \/ \E b \in Strings, r \in BOOLEAN : Delete(b, r)

Spec == Init /\ [][Next]_vars

---------------------------------------------------------------------------
(* Invariants *)
PrefixClosed == \A p \in nodes : \A k \in 1..Len(p) : SubSeq(p, 1, k) \in nodes
Refines      == Leaves(nodes) = m                                   \* ForEachAgrees
Maximal      == \A x, y \in m : ~IsProperPrefix(x, y)
HasAgrees    == \A x \in SeqsUpTo(Alphabet, MaxLen + 1) : IHas(nodes, x) = PHas(m, x)
DeleteRetAgrees == \A b \in Strings : IDeleteRet(nodes, b) = PDeleteRet(m, b)
JsonImage    == Decode(Img(nodes, <<>>), <<>>) = nodes
NoEmptyMember == <<>> \notin m /\ <<>> \notin nodes

\* action properties: Add never removes reachability of what it adds; Delete(b) leaves every
\* sequence that does not have prefix b untouched
AddPost    == [][\A b \in Strings : Add(b) => PHas(m', b)]_vars
DeletePost == [][\A b \in Strings : (\E r \in BOOLEAN : Delete(b, r)) =>
                    /\ ~PHas(m', b)
                    /\ \A x \in m : ~IsPrefix(b, x) => x \in m']_vars

\* deliberately broken variant (non-vacuity of Refines): Delete without pruning
NoPruneDelete(b, r) == /\ r = IDeleteRet(nodes, b)
                       /\ nodes' = { q \in nodes : ~IsPrefix(b, q) }
                       /\ m' = PDelete(m, b)
NextNoPrune == \/ \E b \in Strings : Add(b)
               \/ \E b \in Strings, r \in BOOLEAN : NoPruneDelete(b, r)
=============================================================================
