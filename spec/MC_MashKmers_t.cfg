CONSTANTS
  Alphabet = {65, 67, 71, 84, 97, 99, 103, 116}
  MaxLen = 4
  MaxLen2 = 2
  MaxK = 3
  MaxN = 3
INIT Init
NEXT Next
INVARIANTS CanonRefines StrandCaseFree HashInjective SequencesIsSketch
CHECK_DEADLOCK FALSE
