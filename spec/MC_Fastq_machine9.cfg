CONSTANTS
  MaxIn = 9
  MaxRecs = 0
INIT MInit
NEXT MNext
INVARIANTS MachineIsDenote
CHECK_DEADLOCK FALSE
