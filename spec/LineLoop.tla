------------------------------ MODULE LineLoop ------------------------------
(* The line-oriented record readers as they are built: sam.ReaderHeader / sam.Reader and bed's reader.read() + Reader,
   i.e. a loop around bufio.Reader.ReadString('\n'), composed with

     - the environment of Stream.tla / StreamLines.tla: the underlying io.Reader hands out the bytes in arbitrary chunks,
       may return data together with the error, fails at offset `at` once (then EOF) or forever;
     - the line source at buffer level (Fill / Line / End as in StreamLines, Kind = "readstring");
     - the real line grammars: Sam!LineItem and Bed!ParseLine on real bytes (the inputs are a small pool of files made of
       complete records, so that every step below runs the same parser the codec properties C03 / C04 are stated with);
     - a consumer that returns false at its stop-th callback (0: never).

   One action per step of the code:  Fill = one Read of the underlying reader;  Line = one ReadString that found LF in
   the buffer, followed by the loop body (trim, skip, parse, yield);  End = the ReadString that returned with an error
   (io.EOF: the unterminated rest is a last line; anything else: one error item, nothing parsed).

   What is checked (every schedule, every fault placement, every stop position, every pool input):
     Exact      when the iteration is over, the delivered items are Take(Full(data, fault), stop), where Full is given
                denotationally from (data, fault) alone - this is schedule freedom (C06), the exact behaviour under a
                fault, and "exactly the leading items, no callback after false" (C18) in one statement;
     FaultLaw   Full(data, fault) obeys C07's law against the fault-free decode Denote(data);
     CleanIsDenote   without a fault Full is the codec's Denote (the binding to C03 / C04's layer).
   Leg R replays Full on the real readers (harness: lineloop-replay). *)
EXTENDS Bytes, Integers, TLC

S == INSTANCE Sam
B == INSTANCE Bed

CONSTANTS Fmt,         \* "samh" (sam.ReaderHeader) | "sam" (sam.Reader on top of it) | "bed"
          Pool,        \* the inputs: a sequence of byte strings
          MaxStop,     \* stop positions 0..MaxStop (0 = the consumer never stops)
          Broken       \* "none" | "parse-rest-on-fault": the incomplete line of a failing stream is parsed (non-vacuity)

VARIABLES pi, fault, stopAt,     \* environment: pool index, fault, where the consumer stops
          off, fired,            \* underlying reader
          buf, perr,             \* bufio.Reader: bytes read but not yet delivered; pending read error
          items, done,           \* what the consumer was given; the iteration is over
          n1                     \* bed: field count of the first record line (reader.n), 0 = none yet
vars == <<pi, fault, stopAt, off, fired, buf, perr, items, done, n1>>

data == Pool[pi]
Limit == IF fault.at >= 0 THEN fault.at ELSE Len(data)
NoFloat(t) == FALSE                 \* the pool has no float tags
NoU8 == {}                          \* ... and no itemRgb

ERRI == [k |-> "err"]
\* items in the harness's projection (formats.go: gSam / gSamH / gBed)
G(it) == CASE it.k = "err" -> [k |-> "err", f |-> <<>>]
           [] it.k = "hdr" -> [k |-> "hdr", f |-> <<it.text>>]
           [] Fmt = "bed"  -> [k |-> "rec", f |-> <<B!DecText(it.n)>> \o it.f]
           [] OTHER        -> [k |-> "rec", f |-> it.f]

Init == /\ pi \in 1..Len(Pool)
        /\ fault = [at |-> 0 - 1, mode |-> "none"] /\ stopAt = 0
        /\ off = 0 /\ fired = 0 /\ buf = <<>> /\ perr = "none" /\ items = <<>> /\ done = FALSE /\ n1 = 0

Choose == /\ fault.mode = "none"
          /\ \/ \E k \in 0..Len(data), m \in {"once", "forever"} : fault' = [at |-> k, mode |-> m]
             \/ fault' = [at |-> 0 - 1, mode |-> "set"]
          /\ stopAt' \in 0..MaxStop
          /\ UNCHANGED <<pi, off, fired, buf, perr, items, done, n1>>
Ready == fault.mode # "none"

HasLF(s) == \E i \in 1..Len(s) : s[i] = LF
FirstLF(s) == CHOOSE i \in 1..Len(s) : s[i] = LF /\ \A j \in 1..(i - 1) : s[j] # LF

Fill == /\ Ready /\ ~done /\ ~HasLF(buf) /\ perr = "none"
        /\ \/ \E n \in 1..(Limit - off) :
                /\ buf' = buf \o SubSeq(data, off + 1, off + n) /\ off' = off + n /\ perr' = "none" /\ fired' = fired
           \/ /\ off < Limit /\ buf' = buf \o SubSeq(data, off + 1, Limit) /\ off' = Limit
              /\ IF fault.at < 0 THEN perr' = "eof" /\ fired' = fired ELSE perr' = "err" /\ fired' = fired + 1
           \/ /\ off = Limit /\ buf' = buf /\ off' = off
              /\ IF fault.at < 0 \/ (fault.mode = "once" /\ fired >= 1)
                 THEN perr' = "eof" /\ fired' = fired
                 ELSE perr' = "err" /\ fired' = fired + 1
        /\ UNCHANGED <<pi, fault, stopAt, items, done, n1>>

Trim(t) == LET a == IF t # <<>> /\ t[Len(t)] = LF THEN SubSeq(t, 1, Len(t) - 1) ELSE t
           IN IF a # <<>> /\ a[Len(a)] = CR THEN SubSeq(a, 1, Len(a) - 1) ELSE a

\* the loop body on one line text: what is yielded (<<>>: nothing), whether the loop ends by itself afterwards, the new n1
Body(t, n) ==
  LET ln == Trim(t) IN
  IF Fmt = "bed" THEN
       IF ln = <<>> \/ ln[1] = HASH THEN [y |-> <<>>, end |-> FALSE, n |-> n]
       ELSE LET fs == SplitOn(ln, TAB)
                m  == IF n = 0 THEN Len(fs) ELSE n
            IN IF Len(fs) # m THEN [y |-> <<ERRI>>, end |-> TRUE, n |-> m]
               ELSE LET it == B!ParseLine(fs, NoU8)
                    IN IF it.k = "err" THEN [y |-> <<ERRI>>, end |-> TRUE, n |-> m]
                       ELSE [y |-> <<it>>, end |-> FALSE, n |-> m]
  ELSE IF ln = <<>> THEN [y |-> <<>>, end |-> FALSE, n |-> n]
       ELSE LET it == S!LineItem(ln, NoFloat)
            IN IF Fmt = "sam" /\ it.k = "hdr" THEN [y |-> <<>>, end |-> FALSE, n |-> n]     \* Reader drops headers
               ELSE [y |-> <<it>>, end |-> FALSE, n |-> n]

\* yield: the consumer's answer ends the iteration at its stop-th callback
Yield(ys, ends) ==
  /\ items' = items \o ys
  /\ done' = (ends \/ (ys # <<>> /\ stopAt > 0 /\ Len(items) + Len(ys) >= stopAt))

Line == /\ Ready /\ ~done /\ HasLF(buf)
        /\ LET i == FirstLF(buf)
               b == Body(SubSeq(buf, 1, i), n1)
           IN /\ Yield(b.y, b.end) /\ n1' = b.n
              /\ buf' = SubSeq(buf, i + 1, Len(buf))
        /\ UNCHANGED <<pi, fault, stopAt, off, fired, perr>>

End == /\ Ready /\ ~done /\ ~HasLF(buf) /\ perr # "none"
       /\ IF perr = "err" /\ Broken # "parse-rest-on-fault"
          THEN Yield(<<ERRI>>, TRUE) /\ n1' = n1                     \* a failed read: one error item, the incomplete line is dropped
          ELSE LET b == Body(buf, n1)                                \* io.EOF: the rest is the last line
               IN IF perr = "err"
                  THEN Yield(b.y \o <<ERRI>>, TRUE) /\ n1' = b.n     \* (broken variant)
                  ELSE Yield(b.y, TRUE) /\ n1' = b.n
       /\ buf' = <<>> /\ perr' = "none"
       /\ UNCHANGED <<pi, fault, stopAt, off, fired>>

Next == Choose \/ Fill \/ Line \/ End
Spec == Init /\ [][Next]_vars

---------------------------------------------------------------------------
(* the denotation of an un-stopped run, from (data, fault) alone *)
Take(s, k) == IF k = 0 THEN s ELSE SubSeq(s, 1, IF k <= Len(s) THEN k ELSE Len(s))

Denote(d) == IF Fmt = "bed" THEN B!Denote(d, NoU8)
             ELSE S!Denote(d, IF Fmt = "samh" THEN "header" ELSE "records", NoFloat)

LFs(d) == Positions(d, LAMBDA b : b = LF)
\* the part of the delivered prefix that consists of complete lines
CompletePart(d) == LET ps == LFs(d) IN IF ps = <<>> THEN <<>> ELSE SubSeq(d, 1, ps[Len(ps)])

Full ==
  IF fault.at < 0 THEN Denote(data)
  ELSE LET its == Denote(CompletePart(SubSeq(data, 1, Limit)))
       IN IF Fmt = "bed" /\ its # <<>> /\ its[Len(its)].k = "err" THEN its     \* bed ends at its first malformed line
          ELSE Append(its, ERRI)

Exact == done => items = Take(Full, stopAt)
NoOverrun == stopAt > 0 => Len(items) <= stopAt

RecsOf(its) == SelectSeq(its, LAMBDA x : x.k # "err")
IsPrefixOf(a, b) == Len(a) <= Len(b) /\ SubSeq(b, 1, Len(a)) = a
FaultLaw == fault.at >= 0 =>
               /\ IsPrefixOf(RecsOf(Full), RecsOf(Denote(data)))
               /\ Full # <<>> /\ Full[Len(Full)].k = "err"
\* for BED an error item is always the last one (C18's clause)
BedErrorLast == (Fmt = "bed" /\ Ready) => \A i \in 1..(Len(Full) - 1) : Full[i].k # "err"

\* progress: from every reachable state that is not done some action is enabled (checked as an invariant)
NeverStuck == (Ready /\ ~done) => (ENABLED Fill \/ ENABLED Line \/ ENABLED End)
=============================================================================
