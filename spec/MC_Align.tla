------------------------------ MODULE MC_Align ------------------------------
(* Leg M of C08 / C09 / C10: every pair of sequences up to MaxLen over Alphabet x a parametric family
   of integer matrices.  Init chooses the matrix (a small seed), the first step the pair (parallel).
   r holds what the implementation-shaped layer (SingleGlobal / SingleLocal = global.go / local.go)
   returns and the property-level optimum (Gotoh); the invariants relate the two layers. *)
EXTENDS Align

CONSTANTS Alphabet,     \* set of letters (small positive integers)
          MaxLen,       \* bound on Len(a), Len(b)
          BruteLen,     \* brute force (GotohIsBrute) for pairs up to this length
          FreeGaps,     \* TRUE: deletion and insertion gap scores vary independently
          GapVals       \* the per-character gap scores of the family ({-2, -1, 0}: the domain of Local in C08 / C10; C09 also with positive ones)

MCGapNeg == {-2, -1, 0}
MCGapAny == {-1, 0, 1, 2}

VARIABLES ph, p, a, b, r
vars == <<ph, p, a, b, r>>

RECURSIVE SeqsUpTo(_, _)
SeqsUpTo(S, n) == IF n = 0 THEN { <<>> }
                  ELSE LET P == SeqsUpTo(S, n - 1)
                       IN P \cup { Append(q, x) : q \in { q \in P : Len(q) = n - 1 }, x \in S }
Strings == SeqsUpTo(Alphabet, MaxLen)

\* the matrix family: match, mismatch above / below the diagonal (asymmetric variants), per-character
\* gap score of a deletion / insertion (GapVals), gap-open.
LevP   == [mt |-> 0, up |-> -1, lo |-> -1, gd |-> -1, gi |-> -1, op |-> 0]
Family == { [mt |-> mt, up |-> up, lo |-> lo, gd |-> gd, gi |-> gi, op |-> op] :
              mt \in {1, 2}, up \in {-1, 0}, lo \in {-1, 0}, gd \in GapVals,
              gi \in GapVals, op \in {-3, -2, -1, 0} }
Params == { q \in Family : FreeGaps \/ q.gd = q.gi } \cup { LevP }

Keys == { <<x, y>> : x \in Alphabet \cup {GAP}, y \in Alphabet \cup {GAP} }
MatOf(q) == [k \in Keys |-> IF k[1] = GAP /\ k[2] = GAP THEN q.op
                            ELSE IF k[2] = GAP THEN q.gd
                            ELSE IF k[1] = GAP THEN q.gi
                            ELSE IF k[1] = k[2] THEN q.mt
                            ELSE IF k[1] < k[2] THEN q.up ELSE q.lo]
SymP(q) == q.up = q.lo /\ q.gd = q.gi

\* AllAl[i + 1][j + 1] = AllAlignments(i, j): a constant, evaluated once
AllAl == [i \in 1..(BruteLen + 1) |-> [j \in 1..(BruteLen + 1) |-> AllAlignments(i - 1, j - 1)]]

Results(x, y, m) == [g  |-> SingleGlobal(x, y, m), l  |-> SingleLocal(x, y, m),
                     og |-> Opt(x, y, m),          ol |-> LocalOpt(x, y, m)]

Init == /\ ph = "seed" /\ p \in Params /\ a = <<>> /\ b = <<>>
        /\ r = Results(<<>>, <<>>, MatOf(p))
Next == /\ ph = "seed" /\ ph' = "case" /\ p' = p
        /\ \E x \in Strings, y \in Strings : a' = x /\ b' = y /\ r' = Results(x, y, MatOf(p))
Spec == Init /\ [][Next]_vars

M == MatOf(p)
---------------------------------------------------------------------------
(* C08: the implementation layer returns valid alignments that score what they claim *)
ValidGlobalOK == ValidGlobal(r.g.steps, a, b) /\ ~r.g.panic
ValidLocalOK  == /\ ~r.l.panic
                 /\ r.l.steps # <<>> => ValidLocal(r.l.steps, r.l.ai, r.l.bi, a, b)
ScoreConsistent ==
  /\ r.g.score = Score(r.g.steps, a, b, M)
  /\ r.l.steps = <<>> => r.l.score = 0
  /\ r.l.steps # <<>> => r.l.score = ScoreFrom(r.l.steps, r.l.ai, r.l.bi, a, b, M)
NoPositiveOK  == NoPositive(a, b, M) => (r.l.steps = <<>> /\ r.l.score = 0)
NoPositiveIsLocalOptZero == NoPositive(a, b, M) <=> (r.ol = 0)         \* the cheap form is exact in Local's domain
RowwiseAgrees == /\ SingleGlobalScore(a, b, M) = r.g.score             \* the linear-memory form used on traces
                 /\ SingleLocalScore(a, b, M) = r.l.score
NeverAbove    == r.g.score <= r.og /\ r.l.score <= r.ol
LocalStartsWithMatch == r.l.steps # <<>> => r.l.steps[1] = MATCH       \* why the offset conversion is right

(* C09 *)
GotohIsBrute  == (Len(a) <= BruteLen /\ Len(b) <= BruteLen) =>
                    /\ r.og = BruteOptOver(AllAl[Len(a) + 1][Len(b) + 1], a, b, M)
                    /\ r.ol = BruteLocalOptWith(AllAl, a, b, M)
ZeroOpenOptimal == p.op = 0 => (r.g.score = r.og /\ r.l.score = r.ol)
LevIsEdit     == p = LevP => (-r.g.score = EditDistance(a, b) /\ -r.og = EditDistance(a, b) /\ IsLevenshteinOver(M, Alphabet \cup {GAP}))
SwapSymmetric == SymP(p) => (Symmetric(M) /\ Opt(b, a, M) = r.og /\ LocalOpt(b, a, M) = r.ol)

\* C09 with gap scores of either sign (MC_Align_C09_pos): the same statements for the zero-gap-open members of the family
GotohIsBrute0 == p.op = 0 => GotohIsBrute
NeverAbove0   == p.op = 0 => NeverAbove

(* C10: refuted by TLC; MC_Align_C10.cfg does not assert it - the state dump carries r for every case
   and the orchestrator enumerates Bad = { (a, b, p) : p.op # 0 /\ (r.g.score < r.og \/ r.l.score < r.ol) } *)
AffineOptimal == p.op # 0 => (r.g.score = r.og /\ r.l.score = r.ol)
=============================================================================
