CONSTANTS
  MaxIn = 0
  MaxRecs = 2
INIT CInit
NEXT CNext
INVARIANTS RoundTrip Reject Emit
CHECK_DEADLOCK FALSE
