CONSTANTS
  MaxLines = 0
  MaxIn = 0
  MaxTags = 2
INIT RInit
NEXT RNext
INVARIANTS RoundTrip
CHECK_DEADLOCK FALSE
