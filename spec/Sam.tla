-------------------------------- MODULE Sam --------------------------------
(* formats/sam (sam.go, tags.go, iter.go).
   A record is [f |-> <<11 byte strings>>, tags |-> sequence of [key, ty, val]] with tags ascending by key.
   Integer fields (2, 4, 5, 8, 9) and `i` tag values are canonical decimal texts (Go ints travel as text:
   TLC integers are 32-bit, and int <-> text is strconv's job).  Tag values: A one byte, i canonical int
   text, f the float's token text (opaque; atoms are compared by the harness projection), Z raw bytes,
   H the decoded bytes (text = lower-case hex pairs).
   SAM has no quoting: a line is split on TAB and nothing else (property-level layer; C03 says records
   round-trip "whatever other characters the fields contain, including double quotes").

     writer            : WriteRec(r)  (11 fields TAB-joined, tags sorted, LF)
     reader, lines     : ParseLine(fields), ItemsOfLines(lines, mode)   (per-line error isolation)
     reader, bytes     : LineMachine(in) - one Step per byte: collects a line up to LF, drops one trailing CR,
                         skips empty lines, handles the last unterminated line at EOF
   Items: [k |-> "hdr", text] | [k |-> "rec", f, tags] | [k |-> "err"]. *)
EXTENDS Bytes, Integers

IntFields == {2, 4, 5, 8, 9}
HexDigit(n) == IF n < 10 THEN 48 + n ELSE 87 + n                   \* lower case
HexEncode(bs) == FlattenSeq([i \in 1..Len(bs) |-> <<HexDigit(bs[i] \div 16), HexDigit(bs[i] % 16)>>])
HexVal(c) == IF c \in 48..57 THEN c - 48 ELSE IF c \in 97..102 THEN c - 87 ELSE IF c \in 65..70 THEN c - 55 ELSE 0 - 1
HexOK(s) == Len(s) % 2 = 0 /\ \A i \in 1..Len(s) : HexVal(s[i]) >= 0
HexDecode(s) == [i \in 1..(Len(s) \div 2) |-> 16 * HexVal(s[2 * i - 1]) + HexVal(s[2 * i])]

---------------------------------------------------------------------------
(* writer *)
Tag(k, ty, v) == [key |-> k, ty |-> ty, val |-> v]
TagText(t) == t.key \o <<COLON>> \o t.ty \o <<COLON>> \o (IF t.ty = <<72>> THEN HexEncode(t.val) ELSE t.val)

SortedTexts(ts) == SetToSortSeq({ TagText(ts[i]) : i \in 1..Len(ts) }, LexLess)

WriteRec(r) == Join(r.f \o SortedTexts(r.tags), <<TAB>>) \o <<LF>>

---------------------------------------------------------------------------
(* reader: one line *)
ERR == [k |-> "err"]
HdrItem(text) == [k |-> "hdr", text |-> text]
RecItem(r) == [k |-> "rec", f |-> r.f, tags |-> r.tags]

Colons(s) == Positions(s, LAMBDA b : b = COLON)

TyA == <<65>>
Tyi == <<105>>
Tyf == <<102>>
TyZ == <<90>>
TyH == <<72>>
TyB == <<66>>

\* a tag field -> [ok, tag]; FloatOK(text) is a parameter of the context (strconv.ParseFloat accepts it)
ParseTag(s, FloatOK(_)) ==
  LET cs == Colons(s) IN
  IF Len(cs) < 2 THEN [ok |-> FALSE]
  ELSE LET k  == SubSeq(s, 1, cs[1] - 1)
           ty == SubSeq(s, cs[1] + 1, cs[2] - 1)
           v  == SubSeq(s, cs[2] + 1, Len(s))
       IN CASE ty = TyA -> IF Len(v) = 1 THEN [ok |-> TRUE, tag |-> Tag(k, ty, v)] ELSE [ok |-> FALSE]
            [] ty = Tyi -> IF AtoiOK(v) THEN [ok |-> TRUE, tag |-> Tag(k, ty, CanonInt(v))] ELSE [ok |-> FALSE]
            [] ty = Tyf -> IF FloatOK(v) THEN [ok |-> TRUE, tag |-> Tag(k, ty, v)] ELSE [ok |-> FALSE]
            [] ty = TyZ -> [ok |-> TRUE, tag |-> Tag(k, ty, v)]
            [] ty = TyB -> [ok |-> TRUE, tag |-> Tag(k, TyZ, v)]          \* "treated like string for now"
            [] ty = TyH -> IF HexOK(v) THEN [ok |-> TRUE, tag |-> Tag(k, ty, HexDecode(v))] ELSE [ok |-> FALSE]
            [] OTHER -> [ok |-> FALSE]

\* tags land in a map: a later duplicate key replaces an earlier one; the projection lists them ascending by key
TagsOf(parsed) ==
  LET keys == { parsed[i].tag.key : i \in 1..Len(parsed) }
      last(k) == LET I == { i \in 1..Len(parsed) : parsed[i].tag.key = k } IN parsed[CHOOSE i \in I : \A j \in I : j <= i].tag
      ks == SetToSortSeq(keys, LexLess)
  IN [i \in 1..Len(ks) |-> last(ks[i])]

ParseLine(fields, FloatOK(_)) ==
  IF Len(fields) < 11 THEN ERR
  ELSE IF \E i \in IntFields : ~AtoiOK(fields[i]) THEN ERR
  ELSE LET parsed == [i \in 1..(Len(fields) - 11) |-> ParseTag(fields[11 + i], FloatOK)]
       IN IF \E i \in 1..Len(parsed) : ~parsed[i].ok THEN ERR
          ELSE RecItem([f |-> [i \in 1..11 |-> IF i \in IntFields THEN CanonInt(fields[i]) ELSE fields[i]],
                        tags |-> TagsOf(parsed)])

LineItem(line, FloatOK(_)) ==
  IF line[1] = AT THEN HdrItem(line) ELSE ParseLine(SplitOn(line, TAB), FloatOK)

\* mode "header": ReaderHeader (headers, records and errors line for line); mode "records": Reader (headers dropped)
ItemsOfLines(lines, mode, FloatOK(_)) ==
  LET all == [i \in 1..Len(lines) |-> LineItem(lines[i], FloatOK)]
  IN IF mode = "header" THEN all ELSE SelectSeq(all, LAMBDA it : it.k # "hdr")

\* lines of a byte stream: LF terminated, one trailing CR dropped, empty lines skipped
NonEmptyLines(in) == SelectSeq(ScanLines(in), LAMBDA ln : ln # <<>>)

Denote(in, mode, FloatOK(_)) == ItemsOfLines(NonEmptyLines(in), mode, FloatOK)

---------------------------------------------------------------------------
(* reader, implementation-shaped: the ReadString('\n') loop, one Step per byte *)
L0 == [cur |-> <<>>, lines |-> <<>>]
DropCR(ln) == IF ln # <<>> /\ ln[Len(ln)] = CR THEN SubSeq(ln, 1, Len(ln) - 1) ELSE ln
EndLine(st) == LET ln == DropCR(st.cur)
               IN [cur |-> <<>>, lines |-> IF ln = <<>> THEN st.lines ELSE Append(st.lines, ln)]
LStep(st, b) == IF b = LF THEN EndLine(st) ELSE [st EXCEPT !.cur = Append(@, b)]
LineMachine(in) == EndLine(FoldLeft(LStep, L0, in)).lines

---------------------------------------------------------------------------
(* property-level predicates on a written line (C03) *)
OneLine(text) == text # <<>> /\ text[Len(text)] = LF /\ \A i \in 1..(Len(text) - 1) : text[i] # LF

LineFields(text) == SplitOn(SubSeq(text, 1, Len(text) - 1), TAB)

\* keys of the tag fields ascend strictly
TagFieldsSorted(fields) ==
  \A i \in 12..(Len(fields) - 1) : LexLess(fields[i], fields[i + 1])

RecInDomain(r) ==
  /\ Len(r.f) = 11
  /\ \A i \in 1..11 : IF i \in IntFields THEN IsCanonInt(r.f[i]) ELSE NoByte(r.f[i], {TAB, CR, LF})
  /\ (r.f[1] = <<>> \/ r.f[1][1] # AT)
  /\ \A i \in 1..Len(r.tags) :
       LET t == r.tags[i] IN
       /\ Len(t.key) >= 1 /\ Len(t.key) = Len(r.tags[1].key) /\ NoByte(t.key, {TAB, CR, LF, COLON})   \* keys of one length: "sorted" is unambiguous
       /\ (i < Len(r.tags) => LexLess(t.key, r.tags[i + 1].key))
       /\ CASE t.ty = TyA -> Len(t.val) = 1 /\ t.val[1] \in 32..126
            [] t.ty = Tyi -> IsCanonInt(t.val)
            [] t.ty = Tyf -> t.val # <<>> /\ NoByte(t.val, {TAB, CR, LF})
            [] t.ty = TyZ -> NoByte(t.val, {TAB, CR, LF})
            [] t.ty = TyH -> TRUE
            [] OTHER -> FALSE
=============================================================================
