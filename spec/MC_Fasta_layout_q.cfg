CONSTANTS
  MaxIn = 0
  W = 2
  MaxSeq = 3
  MaxSeq2 = 1
  Mode = "layout"
INIT LInit
NEXT LNext
INVARIANTS LayoutFree WriterRefines
CHECK_DEADLOCK FALSE
