------------------------------ MODULE Regions ------------------------------
(* regions/regions.go - the interval index (property C16).  Constant-free operators shared by the
   exhaustive model (MC_Regions.tla: one action per sweep event) and the trace specification
   (Trace_Regions.tla).

   Interval x (a 0-based serial number, as in the Go API) is the pair starts[x+1], ends[x+1];
   the end is exclusive.

   Property-level layer: Covering - the statement's own words: At(i) reports, in ascending order,
   exactly the x with starts[x] <= i < ends[x].

   Implementation-shaped layer: a transcription of NewIndex / At after the repair of defect D10
   (intervals with start >= end create no events; `skip` = FALSE is the unrepaired code and is kept
   as the deliberately broken variant that TLC must refute):
     events   - one start and one end event per interval, sorted by position, at equal positions
                ends before starts, then by serial number                       (eventLess)
     sweep    - walks the events with the set of active intervals; whenever the position changes
                the finished position is recorded as a breakpoint (pos, sorted active list);
                the last position is flushed after the loop
     At(i)    - binary search for the first breakpoint with pos > i; the answer is the list of
                the breakpoint before it, nothing if there is none. *)
EXTENDS Integers, Sequences, FiniteSets, SequencesExt

Ids(starts) == 0 .. (Len(starts) - 1)

IsAscending(s) == \A j \in 1 .. (Len(s) - 1) : s[j] < s[j + 1]            \* strictly: no duplicates either
SortedSeq(S) == SetToSortSeq(S, LAMBDA a, b : a < b)

---------------------------------------------------------------------------
(* Property-level layer *)

CoveringSet(starts, ends, i) == { x \in Ids(starts) : starts[x + 1] <= i /\ i < ends[x + 1] }
Covering(starts, ends, i)    == SortedSeq(CoveringSet(starts, ends, i))

\* NewIndex panics exactly for lists of different lengths
Panics(starts, ends) == Len(starts) # Len(ends)

---------------------------------------------------------------------------
(* Implementation-shaped layer *)

Ev(x, p, s) == [idx |-> x, pos |-> p, start |-> s]

EventLess(a, b) == IF a.pos # b.pos THEN a.pos < b.pos
                   ELSE IF a.start # b.start THEN ~a.start            \* end comes before start
                   ELSE a.idx < b.idx

Indexed(starts, ends, skip) == { x \in Ids(starts) : ~skip \/ starts[x + 1] < ends[x + 1] }

EventSet(starts, ends, skip) ==
  UNION { { Ev(x, starts[x + 1], TRUE), Ev(x, ends[x + 1], FALSE) } : x \in Indexed(starts, ends, skip) }

Events(starts, ends, skip) == SetToSortSeq(EventSet(starts, ends, skip), EventLess)

Brk(p, S) == [pos |-> p, idxs |-> SortedSeq(S)]                        \* interval{pos, keys(idxs)}

SweepStart == [k |-> 0, pos |-> 0, active |-> {}, breaks |-> <<>>]

\* one iteration of `for i, e := range events`
SweepStep(st, e) ==
  LET pos0 == IF st.k = 0 THEN e.pos ELSE st.pos
  IN [ k      |-> st.k + 1,
       pos    |-> e.pos,
       breaks |-> IF e.pos # pos0 THEN Append(st.breaks, Brk(pos0, st.active)) ELSE st.breaks,
       active |-> IF e.start THEN st.active \cup {e.idx} ELSE st.active \ {e.idx} ]

\* the append after the loop
SweepFlush(st) == [st EXCEPT !.breaks = Append(st.breaks, Brk(st.pos, st.active))]

Breaks(starts, ends, skip) == SweepFlush(FoldLeft(SweepStep, SweepStart, Events(starts, ends, skip))).breaks

\* sort.Search(len(idx), func(j) bool { return idx[j].start > i }); at == 0 -> nil
At(breaks, i) ==
  LET G  == { j \in 1 .. Len(breaks) : breaks[j].pos > i }
      at == IF G = {} THEN Len(breaks) + 1 ELSE CHOOSE j \in G : \A g \in G : j <= g
  IN IF at = 1 THEN <<>> ELSE breaks[at - 1].idxs

\* what the binary search relies on
BreaksSorted(breaks) == \A j \in 1 .. (Len(breaks) - 1) : breaks[j].pos < breaks[j + 1].pos
=============================================================================
