CONSTANTS
  Alphabet = {35, 10, 32, 9, 65, 42, 49}
  L1 = 4
  L2 = 4
INIT Init
NEXT Next
INVARIANTS MachineIsDenote StarIsGap
CHECK_DEADLOCK FALSE
