CONSTANTS
  Alphabet <- AlphaRC
  MaxLen = 4
  Variant = "ok"
INIT Init
NEXT Next
INVARIANTS RCLayer AppendOnly Involution CasePreserving Count CanonIsMin StrandSymmetry CanonLayer
CHECK_DEADLOCK FALSE
