CONSTANTS
  MaxIn = 8
  MaxRecs = 0
INIT MInit
NEXT MNext
INVARIANTS MachineIsDenote
CHECK_DEADLOCK FALSE
