---------------------------- MODULE Trace_Fasta ----------------------------
(* Leg T of C01: events recorded from the real fasta.Write / MarshalText / Reader (harness: vh fasta-drive).
   Every event is judged on its own by the property-level operators of Fasta.tla with the real constant
   MaxLine = 80.  "CERT-…" reasons mean the *driver* produced an input that the specification does not
   certify as a layout of the wanted records (machinery failure, never a verdict about the code). *)
EXTENDS Fasta, TLC, Json

Trace == ndJsonDeserialize("trace.ndjson")
MaxLine == 80

VARIABLES l, bad
tvars == <<l, bad>>

ToRecs(js) == [k \in 1..Len(js) |-> Rec(js[k].name, js[k].seq)]

WriteReason(e) ==
  LET r == Rec(e.name, e.seq) IN
  IF ~RecInDomain(r) THEN "CERT-record-outside-domain"
  ELSE IF e.werr \/ e.mpanic \/ e.panic THEN "writer-error-or-panic"
  ELSE IF e.bw # e.bm THEN "marshal-differs-from-write"
  ELSE IF ~WriterContract(r, e.bw, MaxLine) THEN "writer-contract"
  ELSE "ok"

ReadReason(e) ==
  LET want == ToRecs(e.want) IN
  IF e.kind = "spec-writer" /\ e.bytes # WriteAll(want, MaxLine) THEN "CERT-not-the-spec-writer-text"
  ELSE IF DenoteIdx(e.bytes) # want
       THEN (IF e.kind = "own-writer" THEN "writer-output-not-decoded-by-spec-reader" ELSE "CERT-not-a-layout")
  ELSE IF e.err \/ e.panic THEN "reader-error-or-panic"
  ELSE IF ToRecs(e.items) # want THEN "reader-items"
  ELSE "ok"

Reason(e) == IF e.op = "write" THEN WriteReason(e) ELSE ReadReason(e)

TInit == l = 1 /\ bad = <<>>
TNext == /\ l <= Len(Trace)
         /\ LET why == Reason(Trace[l])
            IN bad' = IF why = "ok" THEN bad ELSE Append(bad, <<l, why>>)
         /\ l' = l + 1
Done == (l = Len(Trace) + 1) => PrintT(<<"VERDICT", l - 1, bad>>)
=============================================================================
