------------------------------ MODULE MC_Mash ------------------------------
(* Leg M of C17, part 1: the bounded min-hash under every history of Push / Sort.
   TLC explores all push orders of every multiset of <= MaxPush values over Vals for every sketch
   size n <= MaxN.  `pushed` is the set of all values ever pushed, `base` the sketch at the last
   Sort (= end of the last mash.Add) and `since` the values pushed after it.
     OrderFree   : the contents are a function of the *set* pushed (confluence), namely its n smallest
     Incremental : Add on an existing sketch = one Add of old and new values together, although only
                   the old sketch (not the old values) is available
     TailLaw     : a smaller sketch is the tail of the (descending) larger one *)
EXTENDS Mash

CONSTANTS Vals, MaxPush, MaxN
VARIABLES n, S, pushed, base, since, cnt
vars == <<n, S, pushed, base, since, cnt>>

Init == /\ n \in 1..MaxN
        /\ S = {} /\ pushed = {} /\ base = {} /\ since = {} /\ cnt = 0

Push(x) == /\ cnt < MaxPush
           /\ S' = IPush(S, n, x)
           /\ pushed' = pushed \cup {x}
           /\ since' = since \cup {x}
           /\ cnt' = cnt + 1
           /\ UNCHANGED <<n, base>>

Sort == /\ since # {}
        /\ base' = S /\ since' = {}
        /\ UNCHANGED <<n, S, pushed, cnt>>

Next == (\E x \in Vals : Push(x)) \/ Sort

OrderFree   == S = Bottom(pushed, n)
Incremental == S = Bottom(base \cup since, n)
ViewOK      == IView(S) = SketchView(pushed, n) /\ IsDesc(IView(S)) /\ Len(IView(S)) = Min2(n, Cardinality(pushed))
TailLaw     == \A c \in 1..n : SketchView(pushed, c) = LastN(IView(S), Min2(c, Len(IView(S))))
Bounded     == Cardinality(S) <= n /\ S \subseteq pushed

\* deliberately broken variant (non-vacuity): a full collection evicts its smallest element
BadPush(x) == /\ cnt < MaxPush
              /\ S' = IF x \in S THEN S
                      ELSE IF Cardinality(S) = n THEN (S \ {CHOOSE y \in S : \A z \in S : y <= z}) \cup {x}
                      ELSE S \cup {x}
              /\ pushed' = pushed \cup {x}
              /\ since' = since \cup {x}
              /\ cnt' = cnt + 1
              /\ UNCHANGED <<n, base>>
NextBad == (\E x \in Vals : BadPush(x)) \/ Sort
=============================================================================
