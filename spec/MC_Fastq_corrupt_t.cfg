CONSTANTS
  MaxIn = 0
  MaxRecs = 3
INIT CInit
NEXT CNext
INVARIANTS RoundTrip Reject
CHECK_DEADLOCK FALSE
