// Command vh is the Go side of /verif: drivers that record traces of the real library (leg T)
// and replayers that execute model behaviours against it (leg R).
package main

import (
	"fmt"
	"os"
)

type command func(args []string) error

var commands = map[string]command{}

func register(name string, c command) { commands[name] = c }

func main() {
	if len(os.Args) < 2 {
		fmt.Fprintln(os.Stderr, "usage: vh <command> [args]")
		os.Exit(2)
	}
	c, ok := commands[os.Args[1]]
	if !ok {
		fmt.Fprintln(os.Stderr, "unknown command", os.Args[1])
		os.Exit(2)
	}
	if err := c(os.Args[2:]); err != nil {
		fmt.Fprintln(os.Stderr, "vh:", err)
		os.Exit(3)
	}
}
