package main

// C08 / C09 / C10: drivers for align.Global / align.Local (leg T, and leg R of C10).
// A run is described by a plan (tables + cases); `align-drive` builds the seeded plan of a
// property, `align-replay` executes a plan given as JSON (replay files, the model's Bad set).
// Every call is recorded with its arguments and everything it returned; nothing is judged here.

import (
	"bytes"
	"fmt"
	"math"
	"math/rand"
	"sort"

	"github.com/fluhus/biostuff/align"
)

func init() {
	register("align-drive", alignDrive)
	register("align-replay", alignReplay)
}

const alProteinLetters = "ARNDCQEGHILKMFPSTWYVBZX"

// alTable describes a substitution matrix.
// kind "seeded": Es is the matrix.  kind "shipped": Name is a package variable; Es is read from it.
// kind "lev": align.Levenshtein, Es = its entries over Alpha x Alpha (read from the real map).
type alTable struct {
	Name  string  `json:"name"`
	Kind  string  `json:"kind"`
	Alpha []int   `json:"alpha"` // sorted, includes 255 (Gap)
	Es    [][]int `json:"es"`    // [x, y, score], sorted by (x, y)
	// EditOf > 0: this table is table EditOf-1 EDITED IN PLACE (the same Go map object with some values overwritten),
	// at the moment the first call that uses it is made: a caller may tune a matrix between calls
	EditOf int `json:"editof"`
	// Shift: the real matrix holds e * 2^Shift for every entry e of Es (exact in binary floating point: scaling by a power of two
	// commutes with +, max and comparison as long as nothing over- or underflows); scores are recorded divided by 2^Shift
	Shift int `json:"shift"`
}

type alCase struct {
	Op string `json:"op"` // "global" | "local"
	T  int    `json:"t"`  // index into Tables
	A  []int  `json:"a"`
	B  []int  `json:"b"`
	// Wit: an alignment of A with B written down by the driver (a lower bound of the optimum that costs nothing to check);
	// Big: the table is too large for the specification's own optimum to be computed per event - judged by C08's rule and Wit
	Wit []int `json:"wit"`
	Big bool  `json:"big"`
}

type alPlan struct {
	Tables   []alTable `json:"tables"`
	Cases    []alCase  `json:"cases"`
	LevTable bool      `json:"levtable"` // dump all entries of align.Levenshtein
}

type alEvent struct {
	Op       string `json:"op"`
	M        int    `json:"m"` // line number of the table event
	A        []int  `json:"a"`
	B        []int  `json:"b"`
	Steps    []int  `json:"steps"`
	Ai       int    `json:"ai"`
	Bi       int    `json:"bi"`
	Score    int    `json:"score"`
	Frac     bool   `json:"frac"` // a returned score was not integral (matrices are integer valued)
	Panic    bool   `json:"panic"`
	PanicMsg string `json:"panic_msg"`
	AAfter   []int  `json:"a_after"`
	BAfter   []int  `json:"b_after"`
	MSame    bool   `json:"m_same"`
	SwScore  int    `json:"sw_score"`
	SwPanic  bool   `json:"sw_panic"`
	Wit      []int  `json:"wit"`
	Big      bool   `json:"big"`
}

func alShippedMatrix(name string) (align.SubstitutionMatrix, bool) {
	switch name {
	case "PAM120":
		return align.PAM120, true
	case "PAM160":
		return align.PAM160, true
	case "PAM250":
		return align.PAM250, true
	case "BLOSUM45":
		return align.BLOSUM45, true
	case "BLOSUM62":
		return align.BLOSUM62, true
	case "BLOSUM80":
		return align.BLOSUM80, true
	case "Levenshtein":
		return align.Levenshtein, true
	}
	return nil, false
}

var alShippedNames = []string{"PAM120", "PAM160", "PAM250", "BLOSUM45", "BLOSUM62", "BLOSUM80"}

func alToInt(f float64, what string) (int, error) {
	if f != math.Trunc(f) || math.IsInf(f, 0) || math.IsNaN(f) || math.Abs(f) > 1e9 {
		return 0, fmt.Errorf("%s: %v is not a (small) integer; the projection to ints would not be exact", what, f)
	}
	return int(f), nil
}

// alDumpMatrix lists the entries of the real map (restricted to keys over `only` if non-nil), sorted.
func alDumpMatrix(m align.SubstitutionMatrix, only map[byte]bool, what string) ([][]int, error) {
	es := make([][]int, 0, len(m))
	for k, v := range m {
		if only != nil && !(only[k[0]] && only[k[1]]) {
			continue
		}
		s, err := alToInt(v, fmt.Sprintf("%s[%d,%d]", what, k[0], k[1]))
		if err != nil {
			return nil, err
		}
		es = append(es, []int{int(k[0]), int(k[1]), s})
	}
	sort.Slice(es, func(i, j int) bool {
		if es[i][0] != es[j][0] {
			return es[i][0] < es[j][0]
		}
		return es[i][1] < es[j][1]
	})
	return es, nil
}

func alProteinAlpha() []int {
	a := sints(alProteinLetters)
	a = append(a, align.Gap)
	sort.Ints(a)
	return a
}

// alMaterialize returns the matrix to align with and completes the table description from the real data.
func alMaterialize(t *alTable) (align.SubstitutionMatrix, error) {
	switch t.Kind {
	case "seeded":
		m := align.SubstitutionMatrix{}
		for _, e := range t.Es {
			m[[2]byte{byte(e[0]), byte(e[1])}] = math.Ldexp(float64(e[2]), t.Shift)
		}
		return m, nil
	case "shipped":
		m, ok := alShippedMatrix(t.Name)
		if !ok {
			return nil, fmt.Errorf("no shipped matrix %q", t.Name)
		}
		t.Alpha = alProteinAlpha()
		es, err := alDumpMatrix(m, nil, t.Name)
		t.Es = es
		return m, err
	case "lev":
		only := map[byte]bool{}
		for _, x := range t.Alpha {
			only[byte(x)] = true
		}
		es, err := alDumpMatrix(align.Levenshtein, only, "Levenshtein")
		t.Es = es
		return align.Levenshtein, err
	}
	return nil, fmt.Errorf("bad table kind %q", t.Kind)
}

func alSameMatrix(m, snap align.SubstitutionMatrix) bool {
	if len(m) != len(snap) {
		return false
	}
	for k, v := range snap {
		if w, ok := m[k]; !ok || w != v {
			return false
		}
	}
	return true
}

func alStepsToInts(s []align.Step) []int {
	out := make([]int, len(s))
	for i, x := range s {
		out[i] = int(x)
	}
	return out
}

// alignCall performs one recorded call (and the same call with swapped arguments).
func alignCall(op string, a, b []byte, m, snap align.SubstitutionMatrix, line, shift int) alEvent {
	ev := alEvent{Op: op, M: line, A: ints(a), B: ints(b), Steps: []int{}, Wit: []int{}}
	ac, bc := append([]byte{}, a...), append([]byte{}, b...)
	if len(a) > 0 && bytes.Equal(a, b) && line%2 == 0 { // a sequence against itself: one slice passed twice
		bc = ac
	}
	var score float64
	ev.Panic, ev.PanicMsg = catch(func() {
		if op == "global" {
			s, sc := align.Global(ac, bc, m)
			ev.Steps, score = alStepsToInts(s), sc
		} else {
			s, ai, bi, sc := align.Local(ac, bc, m)
			ev.Steps, ev.Ai, ev.Bi, score = alStepsToInts(s), ai, bi, sc
		}
	})
	if ev.Panic {
		ev.Steps, ev.Ai, ev.Bi, score = []int{}, 0, 0, 0
	}
	score = math.Ldexp(score, -shift)
	if score != math.Trunc(score) || math.Abs(score) > 1e9 || math.IsNaN(score) {
		ev.Frac = true
		score = 0
	}
	ev.Score = int(score)
	ev.AAfter, ev.BAfter = ints(ac), ints(bc)
	ev.MSame = alSameMatrix(m, snap)
	var sw float64
	ev.SwPanic, _ = catch(func() {
		if op == "global" {
			_, sw = align.Global(append([]byte{}, b...), append([]byte{}, a...), m)
		} else {
			_, _, _, sw = align.Local(append([]byte{}, b...), append([]byte{}, a...), m)
		}
	})
	if ev.SwPanic {
		sw = 0
	}
	sw = math.Ldexp(sw, -shift)
	if sw != math.Trunc(sw) || math.Abs(sw) > 1e9 || math.IsNaN(sw) {
		ev.Frac = true
		sw = 0
	}
	ev.SwScore = int(sw)
	return ev
}

func runAlignPlan(p *alPlan, out string) error {
	tw, err := newTrace(out)
	if err != nil {
		return err
	}
	tw.emit(map[string]any{"op": "header", "ntab": len(p.Tables)})
	ms := make([]align.SubstitutionMatrix, len(p.Tables))
	snaps := make([]align.SubstitutionMatrix, len(p.Tables))
	for i := range p.Tables {
		t := &p.Tables[i]
		if t.EditOf > 0 { // materialised lazily, in place, when its first call comes (below)
			tw.emit(map[string]any{"op": "table", "name": t.Name, "kind": t.Kind, "alpha": t.Alpha, "es": t.Es})
			continue
		}
		m, err := alMaterialize(t)
		if err != nil {
			return err
		}
		ms[i] = m
		snap := make(align.SubstitutionMatrix, len(m))
		for k, v := range m {
			snap[k] = v
		}
		snaps[i] = snap
		if t.Es == nil {
			t.Es = [][]int{}
		}
		tw.emit(map[string]any{"op": "table", "name": t.Name, "kind": t.Kind, "alpha": t.Alpha, "es": t.Es})
	}
	if p.LevTable {
		es, err := alDumpMatrix(align.Levenshtein, nil, "Levenshtein")
		if err != nil {
			return err
		}
		tw.emit(map[string]any{"op": "levtable", "es": es})
	}
	for _, c := range p.Cases {
		if c.T < 0 || c.T >= len(ms) || (c.Op != "global" && c.Op != "local") {
			return fmt.Errorf("bad case %+v", c)
		}
		if t := &p.Tables[c.T]; t.EditOf > 0 && ms[c.T] == nil {
			m := ms[t.EditOf-1]
			if m == nil {
				return fmt.Errorf("table %d edits table %d before it exists", c.T, t.EditOf-1)
			}
			for _, e := range t.Es {
				m[[2]byte{byte(e[0]), byte(e[1])}] = math.Ldexp(float64(e[2]), t.Shift)
			}
			ms[c.T] = m
			snap := make(align.SubstitutionMatrix, len(m))
			for k, v := range m {
				snap[k] = v
			}
			snaps[c.T] = snap
		}
		ev := alignCall(c.Op, unints(c.A), unints(c.B), ms[c.T], snaps[c.T], c.T+2, p.Tables[c.T].Shift)
		if c.Wit != nil {
			ev.Wit = c.Wit
		}
		ev.Big = c.Big
		tw.emit(ev)
	}
	return tw.close()
}

func alignReplay(args []string) error {
	if err := need(args, 2, "align-replay <plan.json> <out.ndjson>"); err != nil {
		return err
	}
	var p alPlan
	if err := readJSON(args[0], &p); err != nil {
		return err
	}
	return runAlignPlan(&p, args[1])
}

// ---------------------------------------------------------------- seeded plans

type alMatOpts struct {
	sym     bool
	open    int
	anyGaps bool // gap scores may be positive (outside Local's domain: Global only)
	harsh   bool // a mismatch costs more than a deletion plus an insertion: optimal alignments put gaps of both kinds side by side
	badSelf bool // one letter scores worse against itself than a deletion plus an insertion (a masked base): the diagonal is not always best
}

func alGenMatrix(r *rand.Rand, name string, letters []byte, o alMatOpts) alTable {
	alpha := append(ints(letters), align.Gap)
	sort.Ints(alpha)
	sc := map[[2]int]int{}
	gap := func() int {
		if o.anyGaps {
			return r.Intn(5) - 2
		}
		return -r.Intn(4)
	}
	for _, x := range letters {
		for _, y := range letters {
			if x == y {
				sc[[2]int{int(x), int(y)}] = []int{1, 1, 2, 2, 3, 0}[r.Intn(6)]
			} else {
				sc[[2]int{int(x), int(y)}] = []int{-3, -2, -1, -1, 0, 1}[r.Intn(6)]
				if o.harsh {
					sc[[2]int{int(x), int(y)}] = -7 - r.Intn(4)
				}
			}
		}
		sc[[2]int{int(x), align.Gap}] = gap()
		sc[[2]int{align.Gap, int(x)}] = gap()
		if o.harsh {
			sc[[2]int{int(x), align.Gap}], sc[[2]int{align.Gap, int(x)}] = -r.Intn(2), -1
		}
	}
	if o.badSelf {
		x := int(letters[0])
		sc[[2]int{x, x}] = -6 - r.Intn(4)
		sc[[2]int{x, align.Gap}], sc[[2]int{align.Gap, x}] = -r.Intn(2), -1
	}
	if o.sym {
		for _, x := range letters {
			for _, y := range letters {
				if x < y {
					sc[[2]int{int(y), int(x)}] = sc[[2]int{int(x), int(y)}]
				}
			}
			sc[[2]int{align.Gap, int(x)}] = sc[[2]int{int(x), align.Gap}]
		}
	}
	if o.anyGaps { // make sure the matrix is outside Local's domain
		sc[[2]int{int(letters[0]), align.Gap}] = 1
		if o.sym {
			sc[[2]int{align.Gap, int(letters[0])}] = 1
		}
	}
	sc[[2]int{align.Gap, align.Gap}] = o.open
	t := alTable{Name: name, Kind: "seeded", Alpha: alpha}
	for _, x := range alpha {
		for _, y := range alpha {
			t.Es = append(t.Es, []int{x, y, sc[[2]int{x, y}]})
		}
	}
	return t
}

func alLocalDomain(t *alTable) bool {
	for _, e := range t.Es {
		if (e[0] == align.Gap || e[1] == align.Gap) && e[2] > 0 {
			return false
		}
	}
	return true
}

var alLetterPool = []byte{'a', 'b', 'c', 'A', 'C', 'G', 'T', 0, 1, 254, ' ', '\n', 0x80, '-', '*'}

func alPickLetters(r *rand.Rand, n int) []byte {
	perm := r.Perm(len(alLetterPool))
	out := make([]byte, n)
	for i := range out {
		out[i] = alLetterPool[perm[i]]
	}
	return out
}

func alAllStrings(letters []byte, maxLen int) [][]byte {
	out := [][]byte{{}}
	frontier := [][]byte{{}}
	for n := 1; n <= maxLen; n++ {
		var next [][]byte
		for _, p := range frontier {
			for _, x := range letters {
				next = append(next, append(append([]byte{}, p...), x))
			}
		}
		out = append(out, next...)
		frontier = next
	}
	return out
}

func alRandSeq(r *rand.Rand, letters []byte, n int) []byte {
	b := make([]byte, n)
	for i := range b {
		b[i] = letters[r.Intn(len(letters))]
	}
	return b
}

// alMutate returns a with substitutions, deleted runs and inserted runs.
func alMutate(r *rand.Rand, a, letters []byte, maxLen int) []byte {
	rate := 1 + r.Intn(4)
	b := []byte{}
	for i := 0; i < len(a); i++ {
		switch k := r.Intn(40); {
		case k < rate:
			b = append(b, letters[r.Intn(len(letters))])
		case k < 2*rate:
			i += r.Intn(3) // a deleted run of 1..3 characters
		case k < 3*rate:
			b = append(b, a[i])
			for n := 1 + r.Intn(3); n > 0; n-- {
				b = append(b, letters[r.Intn(len(letters))])
			}
		default:
			b = append(b, a[i])
		}
	}
	if len(b) > maxLen {
		b = b[:maxLen]
	}
	return b
}

// alRelatedPair: two sequences up to maxLen that are related by edits (or, one time in four, independent).
func alRelatedPair(r *rand.Rand, letters []byte, maxLen int) ([]byte, []byte) {
	a := alRandSeq(r, letters, r.Intn(maxLen+1))
	if r.Intn(4) == 0 {
		return a, alRandSeq(r, letters, r.Intn(maxLen+1))
	}
	b := alMutate(r, a, letters, maxLen)
	if r.Intn(2) == 0 {
		return b, a
	}
	return a, b
}

type alPlanBuilder struct {
	p    alPlan
	prop string
}

func (pb *alPlanBuilder) table(t alTable) int {
	pb.p.Tables = append(pb.p.Tables, t)
	return len(pb.p.Tables) - 1
}

// call adds Global and (inside Local's domain) Local on the pair.
func (pb *alPlanBuilder) call(t int, a, b []byte) {
	pb.p.Cases = append(pb.p.Cases, alCase{Op: "global", T: t, A: ints(a), B: ints(b)})
	tb := &pb.p.Tables[t]
	if tb.Kind != "seeded" || alLocalDomain(tb) || pb.prop == "C09" { // (C09: zero gap-open, gap scores of either sign)
		pb.p.Cases = append(pb.p.Cases, alCase{Op: "local", T: t, A: ints(a), B: ints(b)})
	}
}

// wantsOpen tells whether matrices with this gap-open belong to the property's domain.
func (pb *alPlanBuilder) wantsOpen(open int) bool {
	switch pb.prop {
	case "C09":
		return open == 0
	case "C10":
		return open != 0
	}
	return true
}

func buildAlignPlan(prop string) (*alPlan, error) {
	if prop != "C08" && prop != "C09" && prop != "C10" {
		return nil, fmt.Errorf("unknown property %q", prop)
	}
	pb := &alPlanBuilder{prop: prop}
	salt := map[string]int64{"C08": 8000, "C09": 9000, "C10": 10000}[prop]
	r := newRand(salt)
	big := thorough()
	mult := 1
	if big {
		mult = 4
	}
	opens := func(n int) []int { // n gap-open values of the property's domain
		var out []int
		for len(out) < n {
			o := []int{0, -1, -2, -3, -4, 0, -5}[r.Intn(7)]
			if prop == "C08" && len(out)%2 == 0 {
				o = 0
			}
			if pb.wantsOpen(o) {
				out = append(out, o)
			}
		}
		return out
	}

	// F1: every pair up to length 4 over 2 letters
	l2 := alPickLetters(r, 2)
	s2 := alAllStrings(l2, 4)
	n1 := 4 * mult
	if prop == "C08" { // no optimum to compute: events are cheap to judge
		n1 = 6 * mult
	}
	for i, o := range opens(n1) {
		t := pb.table(alGenMatrix(r, fmt.Sprintf("seeded-2-%d", i), l2, alMatOpts{sym: i%2 == 0, open: o}))
		for _, a := range s2 {
			for _, b := range s2 {
				pb.call(t, a, b)
			}
		}
	}
	// F1h: mismatches dearer than a deletion plus an insertion (gaps of both kinds end up adjacent): every pair up to length 4
	// (gap-open values fixed, not drawn: zero, small and large ones of the property's domain, both symmetries)
	var harshOpens []int
	for _, o := range []int{0, -2, -5, -1} {
		if pb.wantsOpen(o) {
			harshOpens = append(harshOpens, o)
		}
	}
	harshOpens = append(harshOpens, opens(2*mult-2)...)
	for i, o := range harshOpens {
		t := pb.table(alGenMatrix(r, fmt.Sprintf("harsh-2-%d", i), l2, alMatOpts{sym: i%2 == 0, open: o, harsh: true}))
		for _, a := range s2 {
			for _, b := range s2 {
				pb.call(t, a, b)
			}
		}
	}
	// ... and over three letters: one substitution between two matching flanks of a third letter (3, 8, 16 letters each): the flanks
	// pay for a deletion right next to an insertion inside a local alignment
	h3 := alPickLetters(r, 3)
	for i, o := range harshOpens[:min(len(harshOpens), 3)] {
		t := pb.table(alGenMatrix(r, fmt.Sprintf("harsh-3-%d", i), h3, alMatOpts{sym: i%2 == 1, open: o, harsh: true}))
		for _, fl := range []int{3, 8, 16} {
			for _, p := range [][3]int{{0, 1, 2}, {1, 2, 0}, {2, 0, 1}, {1, 0, 2}} {
				left, right := bytes.Repeat(h3[p[2]:p[2]+1], fl), bytes.Repeat(h3[p[2]:p[2]+1], fl+1-fl%2)
				a := append(append(append([]byte{}, left...), h3[p[0]]), right...)
				b := append(append(append([]byte{}, left...), h3[p[1]]), right...)
				pb.call(t, a, b)
			}
		}
	}
	// F1n: a letter that scores worse against itself than a deletion plus an insertion: every pair up to length 4
	for i, o := range opens(2) {
		t := pb.table(alGenMatrix(r, fmt.Sprintf("badself-2-%d", i), l2, alMatOpts{sym: i%2 == 0, open: o, badSelf: true}))
		for _, a := range s2 {
			for _, b := range s2 {
				pb.call(t, a, b)
			}
		}
	}
	// F1b: the same matrix object tuned in place between calls (a gap-cost sweep): every pair up to length 3 over 2 letters,
	// the second of which is the NUL byte (zero values of anything keyed by a byte)
	lz := []byte{alPickLetters(r, 1)[0], 0}
	if lz[0] == 0 {
		lz[0] = 'z'
	}
	sz := alAllStrings(lz, 3)
	for i, o := range opens(2 * mult) {
		base := alGenMatrix(r, fmt.Sprintf("tuned-%d-a", i), lz, alMatOpts{sym: i%2 == 0, open: o})
		t := pb.table(base)
		for _, a := range sz {
			for _, b := range sz {
				pb.call(t, a, b)
			}
		}
		// same keys, other scores (gap-open stays inside the property's domain), written into the same map object
		edited := alGenMatrix(r, fmt.Sprintf("tuned-%d-b", i), lz, alMatOpts{sym: i%2 == 0, open: o})
		edited.EditOf = t + 1
		t2 := pb.table(edited)
		for _, a := range sz {
			for _, b := range sz {
				pb.call(t2, a, b)
			}
		}
	}
	// F2: every pair up to length 3 (thorough: 4) over 3 letters
	l3 := alPickLetters(r, 3)
	n3 := 3
	if big {
		n3 = 4
	}
	s3 := alAllStrings(l3, n3)
	for i, o := range opens(2) {
		t := pb.table(alGenMatrix(r, fmt.Sprintf("seeded-3-%d", i), l3, alMatOpts{sym: i%2 == 1, open: o}))
		for _, a := range s3 {
			for _, b := range s3 {
				pb.call(t, a, b)
			}
		}
	}
	// F3 (Global only): gap scores and gap-open of either sign, every pair up to length 3 over 2 letters
	s2s := alAllStrings(l2, 3)
	for i := 0; i < 2*mult; i++ {
		o := []int{2, 1, -1, 0, -2, 3}[r.Intn(6)]
		if !pb.wantsOpen(o) {
			o = map[string]int{"C09": 0, "C10": 1 + r.Intn(2)}[prop]
		}
		tb := alGenMatrix(r, fmt.Sprintf("seeded-anygap-%d", i), l2, alMatOpts{sym: i%2 == 0, open: o, anyGaps: true})
		t := pb.table(tb)
		for _, a := range s2s {
			for _, b := range s2s {
				pb.call(t, a, b)
			}
		}
	}
	// F4: random related pairs up to length 60 over 4 and 23 letters; a few at 200
	l4 := alPickLetters(r, 4)
	l23 := []byte(alProteinLetters)
	rmult := 1 // random families: the thorough tier has room for many more
	if big {
		rmult = 12
	}
	nr := 24 * rmult
	if prop != "C09" {
		nr = 40 * rmult
	}
	for i, o := range opens(2) {
		t4 := pb.table(alGenMatrix(r, fmt.Sprintf("seeded-4-%d", i), l4, alMatOpts{sym: i%2 == 0, open: o}))
		t23 := pb.table(alGenMatrix(r, fmt.Sprintf("seeded-23-%d", i), l23, alMatOpts{sym: i%2 == 1, open: o}))
		for k := 0; k < nr; k++ {
			a, b := alRelatedPair(r, l4, 60)
			pb.call(t4, a, b)
			a, b = alRelatedPair(r, l23, 60)
			pb.call(t23, a, b)
		}
		// indels: b = a with a block of 1-6 letters inserted or removed after a short (1-4) common prefix, long common
		// suffix: the optimal alignment opens one gap early, while the running score is still low, and extends it
		for k := 0; k < nr; k++ {
			ls, t := l4, t4
			if k%3 == 2 {
				ls, t = l23, t23
			}
			x, y := alRandSeq(r, ls, 1+r.Intn(4)), alRandSeq(r, ls, 3+r.Intn(12))
			g := alRandSeq(r, ls, 1+r.Intn(6))
			a := append(append([]byte{}, x...), y...)
			b := append(append(append([]byte{}, x...), g...), y...)
			if k%2 == 0 {
				a, b = b, a
			}
			pb.call(t, a, b)
		}
		for k := 0; k < (rmult+1)/2; k++ { // a few long ones
			if (i+k)%2 == 0 {
				a := alRandSeq(r, l4, 150+r.Intn(51))
				pb.call(t4, a, alMutate(r, a, l4, 200))
			} else {
				a := alRandSeq(r, l23, 150+r.Intn(51))
				pb.call(t23, alMutate(r, a, l23, 200), a)
			}
		}
		// empty sequences
		for _, t := range []int{t4, t23} {
			ls := l4
			if t == t23 {
				ls = l23
			}
			x := alRandSeq(r, ls, 1+r.Intn(30))
			pb.call(t, []byte{}, []byte{})
			pb.call(t, x, []byte{})
			pb.call(t, []byte{}, x)
			pb.call(t, x, x)
		}
	}
	// F6: magnitudes. Scores are float64: the same matrices in other units - every entry times 1000003 (partial sums beyond 2^24 that
	// are not multiples of anything convenient), times 2^-40 and times 2^20 (recorded scaled back, see alTable.Shift)
	for i, o := range opens(3) {
		tb := alGenMatrix(r, fmt.Sprintf("units-%d", i), l4, alMatOpts{sym: i%2 == 0, open: o})
		n, maxLen := 12*rmult, 40
		switch i {
		case 0:
			for _, e := range tb.Es {
				e[2] *= 1000003
			}
			maxLen = 24
		case 1:
			tb.Shift = -40
		default:
			tb.Shift = 20
		}
		t := pb.table(tb)
		x := alRandSeq(r, l4, 20)
		pb.call(t, x, x)
		pb.call(t, x, []byte{})
		for k := 0; k < n; k++ {
			a, b := alRelatedPair(r, l4, maxLen)
			pb.call(t, a, b)
		}
	}
	// F7: the same matrix object tuned in place between calls on tables of more than 1024 and more than 4096 cells
	for i, o := range opens(2) {
		base := alGenMatrix(r, fmt.Sprintf("tuned-large-%d-a", i), l4, alMatOpts{sym: i%2 == 0, open: o})
		t := pb.table(base)
		var pairs [][2][]byte
		for k := 0; k < 3; k++ {
			a := alRandSeq(r, l4, []int{40, 70, 33}[k])
			pairs = append(pairs, [2][]byte{a, alMutate(r, a, l4, 80)})
		}
		for _, pr := range pairs {
			pb.call(t, pr[0], pr[1])
		}
		edited := alGenMatrix(r, fmt.Sprintf("tuned-large-%d-b", i), l4, alMatOpts{sym: i%2 == 0, open: o})
		edited.EditOf = t + 1
		t2 := pb.table(edited)
		for _, pr := range pairs {
			pb.call(t2, pr[0], pr[1])
		}
	}
	// F7b: tables of more than 65536 cells in every run (judged by C08's rule and a witness, see F8): a Global, then Locals of other
	// widths on the same and on a shifted pair; symmetric and asymmetric matrices
	for i, o := range opens(2) {
		t := pb.table(alGenMatrix(r, fmt.Sprintf("large-%d", i), l4, alMatOpts{sym: i%2 == 1, open: o}))
		x := alRandSeq(r, l4, 300)
		y := alMutate(r, x, l4, 330)
		allMatch := func(n int) []int {
			w := make([]int, n)
			for k := range w {
				w[k] = 1
			}
			return w
		}
		pb.p.Cases = append(pb.p.Cases, alCase{Op: "global", T: t, A: ints(x), B: ints(y), Big: true})
		if tb := &pb.p.Tables[t]; alLocalDomain(tb) || prop == "C09" {
			pb.p.Cases = append(pb.p.Cases,
				alCase{Op: "local", T: t, A: ints(x), B: ints(x[:280]), Wit: allMatch(280), Big: true},
				alCase{Op: "local", T: t, A: ints(y[:260]), B: ints(y), Wit: allMatch(260), Big: true},
				alCase{Op: "local", T: t, A: ints(x), B: ints(y), Big: true})
		}
		pb.p.Cases = append(pb.p.Cases, alCase{Op: "global", T: t, A: ints(x), B: ints(x), Wit: allMatch(300), Big: true})
	}
	// F8: flanks. a = x^n core, b = core y^n: the best alignment deletes one flank, matches the core and inserts the other flank -
	// as far from the main diagonal as the table allows. The alignment is written down as a witness; beyond 300 x 300 the event is
	// judged by the witness and C08's rule only (Big)
	flanks := []int{30, 120}
	if big {
		flanks = append(flanks, 1100, 2100)
	}
	for i, o := range opens(2) {
		tb := alGenMatrix(r, fmt.Sprintf("flank-%d", i), l4, alMatOpts{sym: true, open: o})
		for _, e := range tb.Es { // dear mismatches, cheap gaps, matches worth having
			switch {
			case e[0] == align.Gap && e[1] == align.Gap:
			case e[0] == align.Gap || e[1] == align.Gap:
				e[2] = -1
			case e[0] == e[1]:
				e[2] = 2
			default:
				e[2] = -5
			}
		}
		t := pb.table(tb)
		for _, n := range flanks {
			core := 20 + n/6
			a := append(bytes.Repeat(l4[0:1], n), bytes.Repeat(l4[1:2], core)...)
			b := append(bytes.Repeat(l4[1:2], core), bytes.Repeat(l4[2:3], n)...)
			var wit []int
			for k := 0; k < n; k++ {
				wit = append(wit, 2)
			}
			for k := 0; k < core; k++ {
				wit = append(wit, 1)
			}
			for k := 0; k < n; k++ {
				wit = append(wit, 3)
			}
			pb.p.Cases = append(pb.p.Cases, alCase{Op: "global", T: t, A: ints(a), B: ints(b), Wit: wit, Big: n > 300})
		}
	}
	// F5: every shipped matrix and Levenshtein (gap-open 0: C08 and C09)
	if pb.wantsOpen(0) {
		np := 6 * rmult
		if prop == "C09" {
			np = 10 * rmult
		}
		for _, name := range alShippedNames {
			t := pb.table(alTable{Name: name, Kind: "shipped"})
			x := alRandSeq(r, l23, 1+r.Intn(40))
			pb.call(t, []byte{}, []byte{})
			pb.call(t, x, []byte{})
			pb.call(t, []byte{}, x)
			pb.call(t, []byte(alProteinLetters), []byte(alProteinLetters)) // every letter against every letter
			for k := 0; k < np; k++ {
				a, b := alRelatedPair(r, l23, 60)
				pb.call(t, a, b)
			}
			if big {
				a, b := alRelatedPair(r, l23, 200)
				pb.call(t, a, b)
			}
		}
		var anyBytes []byte
		for len(anyBytes) < 12 {
			anyBytes = append(anyBytes, byte(r.Intn(255)))
		}
		for i, ls := range [][]byte{l4, l23, anyBytes, l2} {
			alpha := map[int]bool{align.Gap: true}
			for _, x := range ls {
				alpha[int(x)] = true
			}
			var al []int
			for x := range alpha {
				al = append(al, x)
			}
			sort.Ints(al)
			t := pb.table(alTable{Name: fmt.Sprintf("Levenshtein-%d", i), Kind: "lev", Alpha: al})
			pb.call(t, []byte{}, []byte{})
			pb.call(t, alRandSeq(r, ls, 5), []byte{})
			pb.call(t, []byte{}, alRandSeq(r, ls, 5))
			n := 8 * rmult
			maxLen := 40
			if i == 3 {
				n, maxLen = 40*rmult, 8
			}
			for k := 0; k < n; k++ {
				a, b := alRelatedPair(r, ls, maxLen)
				pb.call(t, a, b)
			}
		}
		// a complete 256 x 256 matrix that is not Levenshtein: unit costs, but the two cases of a letter are the same letter and a
		// few substitutions are dearer
		{
			var al []int
			for x := 0; x < 256; x++ {
				al = append(al, x)
			}
			tb := alTable{Name: "caseless-edit-distance", Kind: "seeded", Alpha: al}
			lw := []byte("acgtn")
			for x := 0; x < 256; x++ {
				for y := 0; y < 256; y++ {
					v := -1
					switch {
					case x == y:
						v = 0
					case x|0x20 == y|0x20 && bytes.IndexByte(lw, byte(x|0x20)) >= 0:
						v = 0
					case x == 'a' && y == 'g', x == 'g' && y == 'a':
						v = -2
					}
					tb.Es = append(tb.Es, []int{x, y, v})
				}
			}
			t := pb.table(tb)
			// every byte value a sequence may hold (0..254; 255 is the gap), twice each, against itself shifted and against a shuffle
			{
				var all []byte
				for x := 0; x < 255; x++ {
					all = append(all, byte(x), byte(x))
				}
				sh := append([]byte{}, all...)
				r.Shuffle(len(sh), func(i, j int) { sh[i], sh[j] = sh[j], sh[i] })
				pb.call(t, all, append(append([]byte{}, all[3:]...), all[:3]...))
				pb.call(t, all[:300], sh[:280])
			}
			// sequences with exactly n distinct byte values, n around the sizes a small table or a bit set would be built for
			for _, n := range []int{15, 16, 17, 31, 32, 33, 63, 64, 65, 128} {
				perm := r.Perm(255)[:n]
				var x, y []byte
				for _, v := range perm {
					x = append(x, byte(v), byte(v))
				}
				y = append(y, x[1:]...)
				r.Shuffle(len(y)/2, func(i, j int) { y[i], y[j] = y[j], y[i] })
				pb.call(t, x, y)
				pb.call(t, y[:len(y)/2], x)
			}
			ls := []byte("acgtACGTn-")
			for k := 0; k < 10*rmult; k++ {
				a, b := alRelatedPair(r, ls, 30)
				pb.call(t, a, b)
				pb.call(t, a, bytes.ToUpper(b))
			}
		}
		if prop == "C09" {
			pb.p.LevTable = true
		}
	}
	return &pb.p, nil
}

func alignDrive(args []string) error {
	if err := need(args, 2, "align-drive <out.ndjson> <C08|C09|C10>"); err != nil {
		return err
	}
	p, err := buildAlignPlan(args[1])
	if err != nil {
		return err
	}
	return runAlignPlan(p, args[0])
}
