package main

// C11: totality of the decoders on arbitrary bytes and the fixed-point law on accepted records.

import (
	"bytes"
	"strconv"
	"strings"
	"time"

	"github.com/fluhus/biostuff/formats/bed"
	"github.com/fluhus/biostuff/formats/fasta"
	"github.com/fluhus/biostuff/formats/fastq"
	"github.com/fluhus/biostuff/formats/newick"
	"github.com/fluhus/biostuff/formats/sam"
	"github.com/fluhus/biostuff/formats/smtext"
)

func init() { register("total-drive", totalDrive) }

type totalEvent struct {
	Sid      int     `json:"sid"`
	Fmt      string  `json:"fmt"`
	Op       string  `json:"op"` // decode | fixpoint | ncbi
	Bytes    []int   `json:"bytes"`
	Items    []gItem `json:"items"`
	Rec      gItem   `json:"rec"`
	Back     []gItem `json:"back"`
	WErr     bool    `json:"werr"`
	Panic    bool    `json:"panic"`
	Capped   bool    `json:"capped"`
	TimedOut bool    `json:"timedout"`
	Err      bool    `json:"err"`
	HasMat   bool    `json:"hasmat"`
	// tables of strconv's verdicts on the tokens of the input (number syntax is strconv's job, DESIGN.md section 8)
	Floats [][]int `json:"floats"` // tokens ParseFloat(tok, 64) accepts
	FZero  [][]int `json:"fzero"`  // ... of which those that denote zero
	U8     [][]any `json:"u8"`     // tokens ParseUint(tok, 0, 8) accepts, with their value
	Full   bool    `json:"full"`   // bytes holds the whole input (drift comparison possible)
}

// numberTables: every maximal run of bytes between the structural separators of the text formats, classified by strconv.
func numberTables(data []byte) (floats, fzero [][]int, u8 [][]any) {
	floats, fzero, u8 = [][]int{}, [][]int{}, [][]any{}
	seen := map[string]bool{}
	add := func(tok []byte) {
		if len(tok) == 0 || len(tok) > 40 || seen[string(tok)] {
			return
		}
		seen[string(tok)] = true
		if x, err := strconv.ParseFloat(string(tok), 64); err == nil {
			floats = append(floats, ints(tok))
			if x == 0 {
				fzero = append(fzero, ints(tok))
			}
		}
		if v, err := strconv.ParseUint(string(tok), 0, 8); err == nil {
			u8 = append(u8, []any{ints(tok), int(v)})
		}
	}
	for _, seps := range []string{"\t\n\r", "\t\n\r,", "\t\n\r:", "(),:; \t\n\r"} {
		start := 0
		for i := 0; i <= len(data); i++ {
			if i == len(data) || bytes.IndexByte([]byte(seps), data[i]) >= 0 {
				add(data[start:i])
				start = i + 1
			}
		}
	}
	// tag values: everything after the second colon of a tab-separated field
	for _, line := range bytes.Split(data, []byte("\n")) {
		for _, f := range bytes.Split(bytes.TrimSuffix(line, []byte("\r")), []byte("\t")) {
			if c1 := bytes.IndexByte(f, ':'); c1 >= 0 {
				if c2 := bytes.IndexByte(f[c1+1:], ':'); c2 >= 0 {
					add(f[c1+1+c2+1:])
				}
			}
		}
	}
	return
}

type fixCase struct {
	rec   gItem
	back  []gItem
	werr  bool
	panic bool
}

// decodeFix decodes data with the real reader and, for every accepted record (up to limit), writes it with the
// matching real writer and reads that text back.
func decodeFix(fmtName string, data []byte, limit int) (items []gItem, capped, panicked bool, fixes []fixCase) {
	fd := formatByName(fmtName)
	reread := func(txt []byte, rec gItem, werr bool, wp bool) {
		back, _, p := collect(func(v func(gItem) bool) (int, bool) { return fd.reader(bytes.NewReader(txt), v) })
		fixes = append(fixes, fixCase{rec, back, werr, wp || p})
	}
	items = []gItem{}
	type held struct {
		it    gItem
		write func(buf *bytes.Buffer) error
	}
	var later []held // every other record is written only after the iteration is over: what the consumer holds must still be the record it was given
	nrec := 0
	visit := func(it gItem, write func(buf *bytes.Buffer) error) bool {
		items = append(items, it)
		if it.K == "rec" && write != nil {
			nrec++
			if nrec%2 == 0 && len(later) < limit {
				later = append(later, held{it, write})
			} else if len(fixes) < limit {
				buf := &bytes.Buffer{}
				var werr error
				wp, _ := catch(func() { werr = write(buf) })
				reread(buf.Bytes(), it, werr != nil, wp)
			}
		}
		if len(items) >= itemCap {
			capped = true
			return false
		}
		return true
	}
	panicked, _ = catch(func() {
		switch fmtName {
		case "fasta":
			fasta.Reader(bytes.NewReader(data))(func(f *fasta.Fasta, err error) bool {
				if err != nil {
					return visit(gErr, nil)
				}
				return visit(gFasta(f), func(b *bytes.Buffer) error { return f.Write(b) })
			})
		case "fastq":
			fastq.Reader(bytes.NewReader(data))(func(f *fastq.Fastq, err error) bool {
				if err != nil {
					return visit(gErr, nil)
				}
				return visit(gFastq(f), func(b *bytes.Buffer) error { return f.Write(b) })
			})
		case "sam":
			sam.Reader(bytes.NewReader(data))(func(s *sam.SAM, err error) bool {
				if err != nil {
					return visit(gErr, nil)
				}
				return visit(gSam(s), func(b *bytes.Buffer) error { return s.Write(b) })
			})
		case "samh":
			sam.ReaderHeader(bytes.NewReader(data))(func(sh sam.SAMOrHeader, err error) bool {
				if err != nil {
					return visit(gErr, nil)
				}
				if sh.S != nil {
					return visit(gSamH(sh), func(b *bytes.Buffer) error { return sh.S.Write(b) })
				}
				return visit(gSamH(sh), nil)
			})
		case "bed":
			bed.Reader(bytes.NewReader(data))(func(x *bed.BED, err error) bool {
				if err != nil {
					return visit(gErr, nil)
				}
				return visit(gBed(x), func(b *bytes.Buffer) error { return x.Write(b) })
			})
		case "newick":
			newick.Reader(bytes.NewReader(data))(func(n *newick.Node, err error) bool {
				if err != nil {
					return visit(gErr, nil)
				}
				return visit(gNewick(n), func(b *bytes.Buffer) error { return n.Write(b) })
			})
		}
	})
	for _, h := range later {
		buf := &bytes.Buffer{}
		var werr error
		wp, _ := catch(func() { werr = h.write(buf) })
		reread(buf.Bytes(), h.it, werr != nil, wp)
	}
	return
}

var totalAlphabets = map[string]string{
	"fasta": ">\n\rAB", "fastq": "@+\n\rA", "sam": "\t\n\r@A0:", "samh": "\t\n\r@A0:\"", "bed": "\t\n\r#A0,+\"", "newick": "(),:;' A1\n",
}

func totalInputs(fmtName string, salt int64, nNoise int) [][]byte {
	var out [][]byte
	alpha := []byte(totalAlphabets[fmtName])
	// every string of length <= 3 over the class alphabet, and a sample of length 4..8
	var rec func(prefix []byte, n int)
	rec = func(prefix []byte, n int) {
		out = append(out, append([]byte{}, prefix...))
		if n == 0 {
			return
		}
		for _, c := range alpha {
			rec(append(prefix, c), n-1)
		}
	}
	rec(nil, 3)
	r := newRand(salt)
	for i := 0; i < nNoise; i++ {
		d := make([]byte, 4+r.Intn(5))
		for j := range d {
			d[j] = alpha[r.Intn(len(alpha))]
		}
		out = append(out, d)
	}
	well := corpusFor(fmtName, salt+1, 12, 5)
	// two inputs of many records (beyond 4 KiB and beyond 64 KiB of text): a reader refills its buffers while the consumer holds records
	out = append(out, corpusFor(fmtName, salt+5, 1, 150)[0].Data, corpusFor(fmtName, salt+6, 1, 2500)[0].Data)
	for i := 0; i < nNoise; i++ {
		switch i % 4 {
		case 0:
			d := make([]byte, r.Intn(80))
			r.Read(d)
			out = append(out, d)
		default:
			out = append(out, mutateInput(r, well[r.Intn(len(well))].Data))
		}
	}
	for _, w := range well {
		out = append(out, w.Data)
	}
	// texts that were NOT produced by the writer under test (a lossy writer is invisible in its own output):
	// numbers with many significant digits, extreme magnitudes, alternative spellings
	floats := []string{"0.0123456789012", "16777217", "1e40", "1e-50", "3.141592653589793", "-2.2250738585072014e-308",
		"0x1.fffffffffffffp+1023", "1.7976931348623157e308", "4.9e-324", "123456789.123456789", "0.1", "-0.30000000000000004"}
	switch fmtName {
	case "fasta":
		// layouts the writer would not produce: long unwrapped lines over bytes that could mean something at a line start
		for i := 0; i < 40+nNoise/10; i++ {
			alpha := []byte("ACGT;>#@+*-!%\t \\'\"")
			b := []byte(">s\n")
			for j := 81 + r.Intn(320); j > 0; j-- {
				b = append(b, alpha[r.Intn(len(alpha))])
			}
			out = append(out, append(b, '\n'))
		}
	case "newick":
		for i := 0; i < 12+nNoise/10; i++ {
			f := func() string { return floats[r.Intn(len(floats))] }
			out = append(out, []byte("(a:"+f()+",'b c':"+f()+",(d:"+f()+")e)'it''s':"+f()+";\n"))
		}
		// nesting far deeper than any writer-side buffer is likely to be sized for, with branching on every level
		for _, d := range []int{70, 300, 1100} {
			out = append(out, []byte(strings.Repeat("(", d)+"a"+strings.Repeat(",l:1)n", d)+";\n"),
				[]byte(strings.Repeat("(l,", d)+"a"+strings.Repeat(")n:2", d)+";\n"),
				[]byte(strings.Repeat("(l,(", d)+"a"+strings.Repeat(")n,r)m", d)+";\n"))
		}
	case "sam", "samh":
		for i := 0; i < 12+nNoise/10; i++ {
			f := func() string { return floats[r.Intn(len(floats))] }
			out = append(out, []byte("q\t+4\tr\t007\t-0\t*\t=\t9223372036854775807\t-9223372036854775808\tAC\t!!\tXA:f:"+f()+
				"\tXB:f:"+f()+"\tXC:i:+12\tXD:H:0aFf\tXE:B:c,1,2\tXF:A:~\n"))
		}
	case "bed":
		for i := 0; i < 6; i++ {
			out = append(out, []byte("c\t+1\t007\tn\t-0\t.\t0\t00\t0x10,017,0b11\t2\t1,+2\t-3,04\n"))
		}
		// full-width lines whose optional trailing columns are present but empty (block count 0), and every width from 3 to 12
		full := []string{"c", "1", "2", "n", "0", "+", "1", "2", "0,0,0", "0", "", ""}
		for w := 3; w <= 12; w++ {
			out = append(out, []byte(strings.Join(full[:w], "\t")+"\n"))
		}
		out = append(out, []byte("c\t1\t2\tn\t0\t+\t1\t2\t0,0,0\t1\t5\t0\n"), []byte("c\t1\t2\tn\t0\t+\t1\t2\t0,0,0\t1\t5,\t0,\n"),
			[]byte("c\t1\t2\t\t\t\t\t\t\t\t\t\n"))
	}
	return out
}

func totalDrive(args []string) error {
	if err := need(args, 2, "total-drive <out.ndjson> <noise inputs per format> [only-sid]"); err != nil {
		return err
	}
	nNoise, _ := strconv.Atoi(args[1])
	only := -1
	if len(args) > 2 {
		only, _ = strconv.Atoi(args[2])
	}
	tw, err := newTrace(args[0])
	if err != nil {
		return err
	}
	none := gItem{"none", [][]int{}}
	sid := 0
	for fi, fd := range formatDefs {
		for _, data := range totalInputs(fd.name, int64(11000+100*fi), nNoise) {
			sid++
			if only >= 0 && sid != only {
				continue
			}
			type result struct {
				items            []gItem
				capped, panicked bool
				fixes            []fixCase
			}
			ch := make(chan result, 1)
			go func() {
				var r result
				r.items, r.capped, r.panicked, r.fixes = decodeFix(fd.name, data, 4)
				ch <- r
			}()
			var res result
			timedOut := false
			select {
			case res = <-ch:
			case <-time.After(20 * time.Second):
				timedOut = true
				res.items = []gItem{}
			}
			dev := totalEvent{Sid: sid, Fmt: fd.name, Op: "decode", Bytes: ints(data[:min(len(data), 2000)]), Items: res.items, Rec: none, Back: []gItem{},
				Panic: res.panicked, Capped: res.capped, TimedOut: timedOut, Full: len(data) <= 2000}
			dev.Floats, dev.FZero, dev.U8 = numberTables(data[:min(len(data), 2000)])
			tw.emit(dev)
			for _, f := range res.fixes {
				tw.emit(totalEvent{Sid: sid, Fmt: fd.name, Op: "fixpoint", Bytes: ints(data[:min(len(data), 2000)]), Items: []gItem{}, Rec: f.rec, Back: f.back,
					WErr: f.werr, Panic: f.panic, Floats: [][]int{}, FZero: [][]int{}, U8: [][]any{}})
			}
		}
	}
	// the NCBI matrix reader: arbitrary and near-valid tables
	r := newRand(11900)
	valid := "# c\n   A  C  *\nA  1 -2 0.5\nC -2  1 1e1\n*  0  0 1\n"
	for i := 0; i < 300+nNoise; i++ {
		sid++
		if only >= 0 && sid != only {
			continue
		}
		var d []byte
		switch i % 3 {
		case 0:
			d = mutateInput(r, []byte(valid))
		case 1:
			alpha := []byte("A*# \t\n\r1-.e")
			d = make([]byte, r.Intn(14))
			for j := range d {
				d[j] = alpha[r.Intn(len(alpha))]
			}
		default:
			d = make([]byte, r.Intn(50))
			r.Read(d)
		}
		ev := totalEvent{Sid: sid, Fmt: "ncbi", Op: "ncbi", Bytes: ints(d), Items: []gItem{}, Rec: none, Back: []gItem{}, Floats: [][]int{}, FZero: [][]int{}, U8: [][]any{}}
		ev.Panic, _ = catch(func() {
			m, err := smtext.ReadNCBI(bytes.NewReader(d))
			ev.Err, ev.HasMat = err != nil, m != nil
		})
		tw.emit(ev)
	}
	return tw.close()
}
