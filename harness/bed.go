package main

import (
	"bytes"
	"io"
	"math"
	"math/rand"
	"strconv"
	"strings"

	"github.com/fluhus/biostuff/formats/bed"
)

func init() {
	register("bed-drive", bedDrive)
	register("bed-replay", bedReplay)
}

type bedItem struct {
	K string  `json:"k"` // rec | err
	N int     `json:"n"`
	F [][]int `json:"f"` // 12 canonical field texts
}

var bedErrItem = bedItem{K: "err", F: [][]int{}}

func joinInts(a []int) string {
	s := make([]string, len(a))
	for i, x := range a {
		s[i] = strconv.Itoa(x)
	}
	return strings.Join(s, ",")
}

func bedProject(b *bed.BED) bedItem {
	rgb := strconv.Itoa(int(b.ItemRGB[0])) + "," + strconv.Itoa(int(b.ItemRGB[1])) + "," + strconv.Itoa(int(b.ItemRGB[2]))
	return bedItem{"rec", b.N, [][]int{sints(b.Chrom), sints(strconv.Itoa(b.ChromStart)), sints(strconv.Itoa(b.ChromEnd)),
		sints(b.Name), sints(strconv.Itoa(b.Score)), sints(b.Strand), sints(strconv.Itoa(b.ThickStart)),
		sints(strconv.Itoa(b.ThickEnd)), sints(rgb), sints(strconv.Itoa(b.BlockCount)), sints(joinInts(b.BlockSizes)),
		sints(joinInts(b.BlockStarts))}}
}

// bedTruncate: the record as the property expects it back: first N fields, zero elsewhere.
func bedTruncate(it bedItem) bedItem {
	zero := []string{"", "0", "0", "", "0", "", "0", "0", "0,0,0", "0", "", ""}
	out := bedItem{it.K, it.N, make([][]int, 12)}
	for i := range out.F {
		if i < it.N {
			out.F[i] = it.F[i]
		} else {
			out.F[i] = sints(zero[i])
		}
	}
	return out
}

func bedRead(data []byte) (items []bedItem, panicked bool) {
	items = []bedItem{}
	panicked, _ = catch(func() {
		if failedReadsFirst { // (one malformed text before each recorded read, in turn: a pool hands back what was put last)
			ts := malformedTexts["bed"]
			t := ts[malformedNext%len(ts)]
			malformedNext++
			for range bed.Reader(strings.NewReader(t)) {
			}
		}
		for b, err := range bed.Reader(deliver(data)) {
			if err != nil {
				items = append(items, bedErrItem)
			} else {
				items = append(items, bedProject(b))
				// the consumer edits what it was given: nothing of that may show in a later record
				for i := range b.BlockSizes {
					b.BlockSizes[i] = -77
				}
				for i := range b.BlockStarts {
					b.BlockStarts[i] = -78
				}
				b.BlockSizes, b.BlockStarts = append(b.BlockSizes, 1), append(b.BlockStarts, 2)
			}
			if len(items) > 5000 {
				break
			}
		}
	})
	return
}

func bedEq(a, b []bedItem) bool {
	if len(a) != len(b) {
		return false
	}
	for i := range a {
		if a[i].K != b[i].K || a[i].N != b[i].N || len(a[i].F) != len(b[i].F) {
			return false
		}
		for j := range a[i].F {
			if !bytes.Equal(unints(a[i].F[j]), unints(b[i].F[j])) {
				return false
			}
		}
	}
	return true
}

// bedU8: every comma-separated part of every field that strconv.ParseUint(tok, 0, 8) accepts, with its value.
func bedU8(data []byte) [][]any {
	seen := map[string]bool{}
	out := [][]any{}
	for _, line := range bytes.Split(data, []byte("\n")) {
		line = bytes.TrimSuffix(line, []byte("\r"))
		for _, f := range bytes.Split(line, []byte("\t")) {
			for _, p := range bytes.Split(f, []byte(",")) {
				if seen[string(p)] || len(p) > 12 {
					continue
				}
				seen[string(p)] = true
				if v, err := strconv.ParseUint(string(p), 0, 8); err == nil {
					out = append(out, []any{ints(p), int(v)})
				}
			}
		}
	}
	return out
}

// ---------------------------------------------------------------- leg R
type bedCase struct {
	Text  []int     `json:"text"`
	Items []bedItem `json:"items"`
}

func bedReplay(args []string) error {
	if err := need(args, 2, "bed-replay <cases.json> <out.json>"); err != nil {
		return err
	}
	var cases []bedCase
	if err := readJSON(args[0], &cases); err != nil {
		return err
	}
	var mm []mismatch
	for i, c := range cases {
		for j := range c.Items {
			if c.Items[j].K == "err" {
				c.Items[j] = bedErrItem
			}
		}
		got, panicked := bedRead(unints(c.Text))
		if panicked || !bedEq(got, c.Items) {
			mm = append(mm, mismatch{i, "reader", "items-differ", map[string]any{"items": got, "panic": panicked}, c.Items})
		}
	}
	return writeJSON(args[1], map[string]any{"executed": len(cases), "mismatches": mm})
}

// ---------------------------------------------------------------- leg T
type bedEvent struct {
	Sid     int       `json:"sid"`
	Op      string    `json:"op"` // write | read
	Rec     bedItem   `json:"rec"`
	BW      []int     `json:"bw"`
	BM      []int     `json:"bm"`
	WErr    bool      `json:"werr"`
	MErr    bool      `json:"merr"`
	Bytes   []int     `json:"bytes"`
	U8      [][]any   `json:"u8"`
	HasWant bool      `json:"haswant"`
	Want    []bedItem `json:"want"`
	Items   []bedItem `json:"items"`
	Panic   bool      `json:"panic"`
}

// words that mean something in files of this format family (UCSC header lines, placeholders): as field VALUES they
// are ordinary text
var bedWords = []string{"track", "browser", "track name=a", "browser position chr1:1-2", "trackhub", ".", "*", "chr1", "NA", "0", "-1", "+", "chrom"}

func bedText(r *rand.Rand, chrom bool) string {
	if r.Intn(5) == 0 {
		return bedWords[r.Intn(len(bedWords))]
	}
	s := samText(r, true)
	if chrom && strings.HasPrefix(s, "#") {
		s = "c" + s
	}
	return s
}

func bedRecord(r *rand.Rand, n int) *bed.BED {
	b := &bed.BED{N: n, Chrom: bedText(r, true), ChromStart: samInt(r), ChromEnd: samInt(r), Name: bedText(r, false), Score: samInt(r),
		Strand: []string{"+", "-", ".", ""}[r.Intn(4)], ThickStart: samInt(r), ThickEnd: samInt(r),
		ItemRGB: [3]byte{byte(r.Intn(256)), byte(r.Intn(256)), byte(r.Intn(256))}}
	if r.Intn(4) == 0 {
		b.ItemRGB = [3]byte{[]byte{0, 255, 8, 10, 100}[r.Intn(5)], 0, 255}
	}
	switch {
	case n == 12:
		b.BlockCount = r.Intn(5)
		if r.Intn(10) == 0 {
			b.BlockCount = 40
		}
		for i := 0; i < b.BlockCount; i++ {
			b.BlockSizes = append(b.BlockSizes, samInt(r))
			b.BlockStarts = append(b.BlockStarts, samInt(r))
		}
	case n < 10:
		// fields that are not written may hold anything
		if r.Intn(2) == 0 {
			b.BlockCount = r.Intn(3)
			b.BlockSizes = []int{1, 2}[:r.Intn(3)]
		}
	}
	return b
}

func bedDrive(args []string) error {
	if err := need(args, 2, "bed-drive <out.ndjson> <sessions> [only-sid]"); err != nil {
		return err
	}
	sessions, _ := strconv.Atoi(args[1])
	only := -1
	if len(args) > 2 {
		only, _ = strconv.Atoi(args[2])
	}
	tw, err := newTrace(args[0])
	if err != nil {
		return err
	}
	none := bedItem{K: "none", F: [][]int{}}
	badN := []int{-1, 0, 1, 2, 13, 14, 100, math.MinInt32}
	for sid := 0; sid < sessions; sid++ {
		if only >= 0 && sid != only {
			continue
		}
		r := newRand(int64(sid) + 4000)
		readDelivery = []int{0, 0, 1, 0, 2, 3}[sid%6]
		failedReadsFirst = sid%3 == 2
		n := 3 + sid%10
		nrec := 1 + r.Intn(20)
		if sid%5 == 0 {
			nrec = 1 + r.Intn(3)
		}
		var file []byte
		want := []bedItem{}
		crlf := r.Intn(4) == 0
		type held struct {
			ev bedEvent
			bm []byte
		}
		var hs []held // MarshalText results are looked at only after all records were marshalled and written
		write := func(b *bed.BED, keep bool) {
			before := bedProject(b)
			ev := bedEvent{Sid: sid, Op: "write", Rec: before, Bytes: []int{}, U8: [][]any{}, Want: []bedItem{}, Items: []bedItem{}}
			buf := &bytes.Buffer{}
			if sid%4 == 1 {
				failedWriteFirst(b.Write)
			}
			ev.Panic, _ = catch(func() { ev.WErr = b.Write(buf) != nil })
			var bm []byte
			p2, _ := catch(func() {
				var err error
				if bm, err = b.MarshalText(); err != nil {
					ev.MErr = true
				}
			})
			if p2 || !bedEq([]bedItem{before}, []bedItem{bedProject(b)}) {
				ev.Panic = true
			}
			ev.BW = ints(buf.Bytes())
			ev.U8 = bedU8(buf.Bytes())
			hs = append(hs, held{ev, bm})
			if keep {
				line := buf.Bytes()
				if crlf {
					line = []byte(strings.Replace(string(line), "\n", "\r\n", 1))
				}
				file = append(file, line...)
				want = append(want, bedTruncate(before))
			}
		}
		if sid == 5 { // every byte value next to a field separator - at the start and at the end of a text field that is not the last
			// one - at every position of the line modulo 8 (code that looks at several bytes at a time), six fields
			n = 6
			for v := 0; v < 256; v++ {
				if v == '\t' || v == '\n' || v == '\r' {
					continue
				}
				for _, pad := range []int{0, 2, 5} {
					b := bedRecord(r, n)
					b.ChromStart, b.ChromEnd = 1, 2
					b.Chrom, b.Name = strings.Repeat("c", 1+pad)+string([]byte{byte(v)}), string([]byte{byte(v)})+"n"
					if (v+pad)%2 == 1 {
						b.Name = string([]byte{byte(v)})
					}
					write(b, true)
				}
			}
			nrec = 0
		}
		if sid == 3 { // every small score (the BED range is 0..1000) and every small coordinate, five fields
			n = 5
			for v := 0; v <= 1100; v++ {
				b := bedRecord(r, n)
				b.Name, b.Chrom = "s", "c"
				b.Score, b.ChromStart, b.ChromEnd = v, v, 2*v+1
				write(b, true)
			}
			nrec = 0
		}
		for i := 0; i < nrec; i++ {
			if sid%9 == 2 && sid < 180 && i == 1 { // a comment line can be long, too (long lines only among the first 180 sessions: traces must fit in TLC's memory)
				file = append(file, ("#" + strings.Repeat("c", []int{4999, 4095, 65535, 69999}[(sid/9)%4]) + "\n")...)
			}
			if i > 0 && r.Intn(8) == 0 {
				file = append(file, "# a comment\t\"line\n"...)

			}
			if i > 0 && r.Intn(10) == 0 {
				file = append(file, '\n')
			}
			b := bedRecord(r, n)
			if sid%9 == 7 { // chromosome (and feature) names that collide under common string hashes, in turn
				cn := collidingNames()
				pr := cn[(sid/9)%len(cn)]
				b.Chrom = pr[i%2]
				if n >= 4 {
					b.Name = pr[(i/2)%2]
				}
			}
			if sid%9 == 6 && sid < 180 && i == nrec/2 && n >= 4 { // a line of exactly a power of two bytes (one less under CRLF)
				sizes := []int{4096, 65536, 131072}
				if thorough() {
					sizes = []int{4096, 8192, 32768, 65536, 131072, 262144}
				}
				want := sizes[(sid/9)%len(sizes)]
				if crlf {
					want--
				}
				b.Name = ""
				tmp := &bytes.Buffer{}
				b.Write(tmp)
				if pad := want - (tmp.Len() - 1); pad > 0 {
					b.Name = strings.Repeat("n", pad)
				}
			}
			if sid%9 == 2 && sid < 180 && i == nrec/2 { // a line longer than bufio's buffer / than 64 KiB
				if n >= 4 {
					b.Name = strings.Repeat("n\"a%me", []int{700, 6000, 12000}[(sid/9)%3])
				} else {
					b.Chrom = strings.Repeat("chr%", []int{1100, 9000, 17000}[(sid/9)%3])
				}
				if n == 12 && (sid/9)%2 == 0 {
					b.BlockCount = 9000
					b.BlockSizes, b.BlockStarts = make([]int, 9000), make([]int, 9000)
					for k := range b.BlockSizes {
						b.BlockSizes[k], b.BlockStarts[k] = r.Intn(1000), k*1000
					}
				}
			}
			write(b, true)
		}
		// Write must refuse field counts outside 3..12
		bad := bedRecord(r, 12)
		bad.N = badN[r.Intn(len(badN))]
		write(bad, false)
		catch(func() { x := bedRecord(newRand(int64(sid)+99991), 6); x.MarshalText(); x.Write(io.Discard) }) // one more call after the last record
		for _, h := range hs {
			h.ev.BM = ints(h.bm)
			tw.emit(h.ev)
		}
		ev := bedEvent{Sid: sid, Op: "read", Rec: none, BW: []int{}, BM: []int{}, Bytes: ints(file), U8: bedU8(file), HasWant: true, Want: want}
		ev.Items, ev.Panic = bedRead(file)
		tw.emit(ev)
	}
	return tw.close()
}
