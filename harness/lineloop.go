package main

// Leg R of LineLoop.tla (run by C06 / C07 / C18): the model's (input, fault, stop) -> delivered items, on the real sam.ReaderHeader /
// sam.Reader / bed.Reader under several read schedules (the model has shown that the schedule does not matter).

import (
	"bytes"
	"encoding/json"
	"io"
	"testing/iotest"
)

func init() { register("lineloop-replay", lineloopReplay) }

type llCase struct {
	Fmt   string  `json:"fmt"`
	Text  []int   `json:"text"`
	At    int     `json:"at"`
	Mode  string  `json:"mode"` // "once" | "forever" | "set" (no fault)
	Stop  int     `json:"stop"` // 0: never
	Items []gItem `json:"items"`
}

// dataErrFault: like faultReader, but the last bytes before the fault come together with the error
type dataErrFault struct {
	data    []byte
	at      int
	forever bool
	pos     int
	fired   int
}

func (f *dataErrFault) Read(p []byte) (int, error) {
	if f.pos >= f.at {
		if f.fired > 0 && !f.forever {
			return 0, io.EOF
		}
		f.fired++
		return 0, errInjected
	}
	n := min(len(p), f.at-f.pos)
	copy(p, f.data[f.pos:f.pos+n])
	f.pos += n
	if f.pos >= f.at {
		f.fired++
		return n, errInjected
	}
	return n, nil
}

func lineloopReplay(args []string) error {
	if err := need(args, 2, "lineloop-replay <cases.json> <out.json>"); err != nil {
		return err
	}
	var cases []llCase
	if err := readJSON(args[0], &cases); err != nil {
		return err
	}
	var mm []mismatch
	n := 0
	for i, c := range cases {
		fd := formatByName(c.Fmt)
		if fd == nil {
			mm = append(mm, mismatch{i, "", "unknown-format", c.Fmt, nil})
			continue
		}
		data := unints(c.Text)
		type sched struct {
			name string
			mk   func() io.Reader
		}
		var scheds []sched
		if c.Mode == "set" {
			scheds = []sched{
				{"whole", func() io.Reader { return bytes.NewReader(data) }},
				{"one-byte", func() io.Reader { return iotest.OneByteReader(bytes.NewReader(data)) }},
				{"data-err", func() io.Reader { return iotest.DataErrReader(bytes.NewReader(data)) }},
				{"chunk-3", func() io.Reader { return &chunkReader{data: data, next: func() int { return 3 }, withEOF: true} }},
			}
		} else {
			forever := c.Mode == "forever"
			for _, rs := range []int{1, 3, 4096} {
				rs := rs
				scheds = append(scheds, sched{"fault-rs" + string(rune('0'+rs%10)), func() io.Reader {
					return &faultReader{data: data, at: c.At, rs: rs, forever: forever}
				}})
			}
			scheds = append(scheds, sched{"fault-with-data", func() io.Reader { return &dataErrFault{data: data, at: c.At, forever: forever} }})
		}
		want, _ := json.Marshal(c.Items)
		for _, s := range scheds {
			n++
			got := []gItem{}
			after, panicked := fd.reader(s.mk(), func(it gItem) bool {
				got = append(got, it)
				return !(c.Stop > 0 && len(got) >= c.Stop) && len(got) < 64
			})
			g, _ := json.Marshal(got)
			switch {
			case panicked:
				mm = append(mm, mismatch{i, s.name, "panic", got, c.Items})
			case after != 0:
				mm = append(mm, mismatch{i, s.name, "callback-after-stop", after, 0})
			case !bytes.Equal(g, want):
				mm = append(mm, mismatch{i, s.name, "items-differ", got, c.Items})
			}
		}
	}
	return writeJSON(args[1], map[string]any{"executed": n, "mismatches": mm})
}
