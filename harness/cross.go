package main

// Drivers for the cross-cutting properties: C06 (delivery), C07 (faults), C18 (early stop).
// Items are interned per session: equal items <-> equal ids (an injective projection); the error item is id 0.

import (
	"bytes"
	"compress/gzip"
	"encoding/json"
	"errors"
	"fmt"
	"github.com/fluhus/gostuff/aio"
	"io"
	"math/rand"
	"os"
	"path/filepath"
	"sort"
	"strconv"
	"testing/iotest"

	"github.com/klauspost/compress/zstd"

	"github.com/fluhus/biostuff/formats/fasta"
	"github.com/fluhus/biostuff/formats/fastq"
	"github.com/fluhus/biostuff/formats/newick"
	"github.com/fluhus/biostuff/sequtil"
	"github.com/fluhus/biostuff/trie"
)

func init() {
	register("delivery-drive", deliveryDrive)
	register("fault-drive", faultDrive)
	register("stop-drive", stopDrive)
}

type interner struct{ m map[string]int }

func newInterner() *interner { return &interner{map[string]int{}} }
func (in *interner) ids(items []gItem) []int {
	out := make([]int, len(items))
	for i, it := range items {
		if it.K == "err" {
			out[i] = 0
			continue
		}
		b, _ := json.Marshal(it)
		id, ok := in.m[string(b)]
		if !ok {
			id = len(in.m) + 1
			in.m[string(b)] = id
		}
		out[i] = id
	}
	return out
}

type crossEvent struct {
	Sid    int    `json:"sid"`
	Fmt    string `json:"fmt"`
	Op     string `json:"op"`
	Cfg    string `json:"cfg"`
	WF     bool   `json:"wf"`
	Ids    []int  `json:"ids"`
	Capped bool   `json:"capped"`
	Panic  bool   `json:"panic"`
	After  int    `json:"after"` // callbacks after the consumer returned false
	K      int    `json:"k"`     // fault offset / stop position
	Mode   string `json:"mode"`
	RS     int    `json:"rs"`
	OutLen int    `json:"outlen"`
	Err    bool   `json:"err"`
	Input  []int  `json:"input"` // diagnostics only
	// long runs (op "stoplong"): ids = the last items seen (a window), n = number of items seen, pre = the items before the window are
	// the reference run's (compared in the harness, id by id)
	N   int  `json:"n"`
	Pre bool `json:"pre"`
}

// ---------------------------------------------------------------- readers with a schedule / a fault

// chunkReader delivers data in chunks of next() bytes; withEOF: the last chunk comes together with io.EOF.
type chunkReader struct {
	data    []byte
	next    func() int
	withEOF bool
}

func (c *chunkReader) Read(p []byte) (int, error) {
	if len(c.data) == 0 {
		return 0, io.EOF
	}
	n := min(max(c.next(), 1), len(p), len(c.data))
	copy(p, c.data[:n])
	c.data = c.data[n:]
	if len(c.data) == 0 && c.withEOF {
		return n, io.EOF
	}
	return n, nil
}

var errInjected = errors.New("injected read fault")

// faultReader delivers data[:at] in reads of at most rs bytes and then fails: once (then EOF) or forever.
// withData: the last bytes before the fault come in the same Read call as the error. wrapEOF: the error is a failure that wraps
// io.EOF (as a transport error does that ended with "unexpected EOF"): not a clean end of data.
type faultReader struct {
	data     []byte
	at, rs   int
	forever  bool
	pos      int
	fired    int
	withData bool
	wrapEOF  bool
}

var errInjectedEOF = fmt.Errorf("injected transport failure: %w", io.EOF)

func (f *faultReader) fail() error {
	f.fired++
	if f.wrapEOF {
		return errInjectedEOF
	}
	return errInjected
}

func (f *faultReader) Read(p []byte) (int, error) {
	if f.pos >= f.at {
		if f.fired > 0 && !f.forever {
			return 0, io.EOF
		}
		return 0, f.fail()
	}
	n := min(f.rs, len(p), f.at-f.pos)
	copy(p, f.data[f.pos:f.pos+n])
	f.pos += n
	if f.withData && f.pos >= f.at {
		return n, f.fail()
	}
	return n, nil
}

// limitWriter accepts k bytes and then fails.
type limitWriter struct{ left int }

func (w *limitWriter) Write(p []byte) (int, error) {
	if len(p) <= w.left {
		w.left -= len(p)
		return len(p), nil
	}
	n := w.left
	w.left = 0
	return n, errors.New("injected write fault")
}

// interleavedItems: another reader is first run to its end; then a reader over `a` and a reader over `other` advance in
// lockstep (one item each, alternately), the way paired files are consumed. Returns what the reader over `a` delivered.
func interleavedItems(fd *formatDef, a, other []byte) (items []gItem, capped, panicked bool) {
	return interleavedWith(fd, func() io.Reader { return bytes.NewReader(a) }, other)
}

// interleavedWith: the same with any stream (a failing one, say) in the place of `a`
func interleavedWith(fd *formatDef, mkA func() io.Reader, other []byte) (items []gItem, capped, panicked bool) {
	collect(func(v func(gItem) bool) (int, bool) { return fd.reader(bytes.NewReader(other), v) })
	type step struct {
		it   gItem
		done bool
	}
	start := func(mk func() io.Reader) (chan step, chan bool, *bool) {
		out, goOn, p := make(chan step), make(chan bool), new(bool)
		go func() {
			if !<-goOn {
				out <- step{done: true}
				return
			}
			_, *p = fd.reader(mk(), func(it gItem) bool {
				out <- step{it: it}
				return <-goOn
			})
			out <- step{done: true}
		}()
		return out, goOn, p
	}
	oa, ga, pa := start(mkA)
	ob, gb, pb := start(func() io.Reader { return bytes.NewReader(other) })
	items = []gItem{}
	doneA, doneB := false, false
	for !doneA || !doneB {
		if !doneA {
			ga <- len(items) < itemCap
			if s := <-oa; s.done {
				doneA = true
			} else {
				items = append(items, s.it)
			}
		}
		if !doneB {
			gb <- true
			if s := <-ob; s.done {
				doneB = true
			}
		}
	}
	return items, len(items) >= itemCap, *pa || *pb
}

func toCRLF(d []byte) []byte { return bytes.ReplaceAll(d, []byte("\n"), []byte("\r\n")) }

func crossInputs(fmtName string, salt int64, nWell, nNoise int) []corpusInput {
	ins := corpusFor(fmtName, salt, nWell, 6)
	if nWell >= 4 { // two inputs larger than bufio's 4096-byte buffer (one several times larger)
		ins[nWell-1] = corpusFor(fmtName, salt+1, 1, 120)[0]
		ins[nWell-2] = corpusFor(fmtName, salt+2, 1, 900)[0]
		ins[nWell-3] = longLineInput(fmtName, salt+3)
		// lines of exactly 2^p bytes, p = 12, 15, 16, 17, 18 (buffer sizes that line readers are built around)
		for i, p := range []int{12, 15, 16, 17, 18} {
			ins = append(ins, lineOfLength(fmtName, salt+10+int64(i), 1<<p, true))
			ins = append(ins, lineOfLength(fmtName, salt+20+int64(i), 1<<p-1, true)) // the CR of a CRLF copy is byte 2^p
		}
	}
	if fmtName == "fastq" && nWell >= 4 { // a file of many reads with a record boundary at 2^16 (thorough: 2^20): large buffers refilled mid-record
		b := 1 << 16
		if thorough() {
			b = 1 << 20
		}
		ins = append(ins, corpusInput{fmtName, fqAlignedFile(newRand(salt+31), b), true}, corpusInput{fmtName, fqAlignedFile(newRand(salt+32), b-1), true})
	}
	if fmtName == "newick" { // line breaks inside quoted names are content, not terminators: keep them out of the CRLF comparison
		for i := range ins {
			ins[i].Data = bytes.Map(func(r rune) rune {
				if r == '\n' || r == '\r' {
					return ' '
				}
				return r
			}, ins[i].Data)
		}
	}
	ins = append(ins, structuredCorruptions(fmtName, salt+77, (nNoise+1)/2)...)
	r := newRand(salt + 99)
	for i := 0; i < nNoise; i++ {
		var d []byte
		switch i % 3 {
		case 0: // grammar-aware mutation of a well-formed input
			d = mutateInput(r, ins[r.Intn(max(nWell, 1))].Data)
		case 1: // short strings over the structural bytes
			alpha := []byte(">@+\t\n\r;,():' \"#A1")
			d = make([]byte, r.Intn(12))
			for j := range d {
				d[j] = alpha[r.Intn(len(alpha))]
			}
		default:
			d = make([]byte, r.Intn(60))
			r.Read(d)
		}
		ins = append(ins, corpusInput{fmtName, d, false})
	}
	return ins
}

// ---------------------------------------------------------------- C06
func deliveryDrive(args []string) error {
	if err := need(args, 3, "delivery-drive <out.ndjson> <well-formed per format> <noise per format> <model-texts.json|-> [only-sid]"); err != nil {
		return err
	}
	nWell, _ := strconv.Atoi(args[1])
	nNoise, _ := strconv.Atoi(args[2])
	only := -1
	if len(args) > 4 {
		only, _ = strconv.Atoi(args[4])
	}
	// texts of the exhaustive models (every valid and corrupted text of the small pools), per format: each is decoded
	// whole, byte by byte and in chunks of 2, 3 and 7
	modelTexts := map[string][][]int{}
	if len(args) > 3 && args[3] != "-" {
		if err := readJSON(args[3], &modelTexts); err != nil {
			return err
		}
	}
	tw, err := newTrace(args[0])
	if err != nil {
		return err
	}
	tmp, err := os.MkdirTemp(".", "files")
	if err != nil {
		return err
	}
	defer os.RemoveAll(tmp)
	sid := 0
	for fi, fd := range formatDefs {
		ins := crossInputs(fd.name, int64(6000+100*fi), nWell, nNoise)
		for ii, in := range ins {
			sid++
			if only >= 0 && sid != only {
				continue
			}
			r := newRand(int64(sid) + 6500)
			tab := newInterner()
			emit := func(op, cfg string, run func(v func(gItem) bool) (int, bool)) {
				items, capped, panicked := collect(run)
				tw.emit(crossEvent{Sid: sid, Fmt: fd.name, Op: op, Cfg: cfg, WF: in.WellFormed, Ids: tab.ids(items), Capped: capped,
					Panic: panicked, Input: ints(in.Data[:min(len(in.Data), 300)])})
			}
			rd := func(mk func() io.Reader) func(v func(gItem) bool) (int, bool) {
				return func(v func(gItem) bool) (int, bool) { return fd.reader(mk(), v) }
			}
			emit("base", "mem", rd(func() io.Reader { return bytes.NewReader(in.Data) }))
			emit("cfg", "one-byte", rd(func() io.Reader { return iotest.OneByteReader(bytes.NewReader(in.Data)) }))
			emit("cfg", "data-err", rd(func() io.Reader { return iotest.DataErrReader(bytes.NewReader(in.Data)) }))
			emit("cfg", "half", rd(func() io.Reader { return iotest.HalfReader(bytes.NewReader(in.Data)) }))
			for _, sz := range []int{2, 3, 7, 4095, 4096, 4097} {
				sz := sz
				emit("cfg", "chunk-"+strconv.Itoa(sz), rd(func() io.Reader {
					return &chunkReader{data: in.Data, next: func() int { return sz }, withEOF: sz%2 == 1}
				}))
			}
			for v := 0; v < 3; v++ {
				rr := rand.New(rand.NewSource(r.Int63()))
				emit("cfg", "random-chunks", rd(func() io.Reader {
					return &chunkReader{data: in.Data, next: func() int { return 1 + rr.Intn(1+rr.Intn(40)) }, withEOF: v == 0}
				}))
			}
			if ii < 8 { // several readers alive at once, advancing alternately
				other := ins[(ii+1)%len(ins)].Data
				its, capd, pan := interleavedItems(&fd, in.Data, other)
				tw.emit(crossEvent{Sid: sid, Fmt: fd.name, Op: "cfg", Cfg: "interleaved-with-another-reader", WF: in.WellFormed, Ids: tab.ids(its),
					Capped: capd, Panic: pan, Input: ints(in.Data[:min(len(in.Data), 300)])})
			}
			if in.WellFormed {
				emit("crlf", "crlf", rd(func() io.Reader { return bytes.NewReader(toCRLF(in.Data)) }))
				emit("crlf", "crlf-one-byte", rd(func() io.Reader { return iotest.OneByteReader(bytes.NewReader(toCRLF(in.Data))) }))
			}
			// File on a plain file and on a gzip copy named *.gz
			plain := filepath.Join(tmp, "in"+strconv.Itoa(sid)+".txt")
			if err := os.WriteFile(plain, in.Data, 0o644); err != nil {
				return err
			}
			gz := filepath.Join(tmp, "in"+strconv.Itoa(sid)+".txt.gz")
			zb := &bytes.Buffer{}
			zw := gzip.NewWriter(zb)
			zw.Write(in.Data)
			zw.Close()
			if err := os.WriteFile(gz, zb.Bytes(), 0o644); err != nil {
				return err
			}
			emit("cfg", "file-plain", func(v func(gItem) bool) (int, bool) { return fd.file(plain, v) })
			emit("cfg", "file-gz", func(v func(gItem) bool) (int, bool) { return fd.file(gz, v) })
			emit("cfg", "file-plain-iterator-ranged-twice", func(v func(gItem) bool) (int, bool) { return fd.file2(plain, v) })
			emit("cfg", "file-gz-iterator-ranged-twice", func(v func(gItem) bool) (int, bool) { return fd.file2(gz, v) })
			// beyond the listed property: the other suffix the opener decompresses and that can be produced offline (.zst)
			zst := filepath.Join(tmp, "in"+strconv.Itoa(sid)+".txt.zst")
			zb2 := &bytes.Buffer{}
			if zw2, err := zstd.NewWriter(zb2); err == nil {
				zw2.Write(in.Data)
				zw2.Close()
				if err := os.WriteFile(zst, zb2.Bytes(), 0o644); err != nil {
					return err
				}
				emit("cfg", "file-zst", func(v func(gItem) bool) (int, bool) { return fd.file(zst, v) })
				os.Remove(zst)
			}
			if ii == 0 {
				emit("missing", "file-missing", func(v func(gItem) bool) (int, bool) { return fd.file(filepath.Join(tmp, "nope", "missing.txt"), v) })
			}
			// files that open and then fail to read: a gzip file cut in the middle / just before its trailer, a directory. File must
			// deliver what Reader delivers on the stream the opener hands out (this pair of events comes last: it has its own reference)
			if ii < 6 && len(in.Data) > 0 {
				for ci, cut := range []int{zb.Len() / 2, zb.Len() - 5} {
					if cut <= 4 {
						continue
					}
					tgz := filepath.Join(tmp, "cut"+strconv.Itoa(sid)+"_"+strconv.Itoa(ci)+".txt.gz")
					if err := os.WriteFile(tgz, zb.Bytes()[:cut], 0o644); err != nil {
						return err
					}
					emit("base", "reader-over-opened-truncated-gz", func(v func(gItem) bool) (int, bool) {
						f, err := aio.Open(tgz)
						if err != nil {
							v(gErr)
							return 0, false
						}
						defer f.Close()
						return fd.reader(f, v)
					})
					emit("cfg", "file-truncated-gz", func(v func(gItem) bool) (int, bool) { return fd.file(tgz, v) })
					os.Remove(tgz)
				}
			}
			if ii == 1 {
				emit("missing", "file-is-a-directory", func(v func(gItem) bool) (int, bool) { return fd.file(tmp, v) })
			}
			os.Remove(plain)
			os.Remove(gz)
		}
		for _, mt := range modelTexts[fd.name] {
			sid++
			if only >= 0 && sid != only {
				continue
			}
			data := unints(mt)
			tab := newInterner()
			emit := func(op, cfg string, mk func() io.Reader) {
				items, capped, panicked := collect(func(v func(gItem) bool) (int, bool) { return fd.reader(mk(), v) })
				tw.emit(crossEvent{Sid: sid, Fmt: fd.name, Op: op, Cfg: cfg, Ids: tab.ids(items), Capped: capped, Panic: panicked,
					Input: ints(data[:min(len(data), 300)])})
			}
			emit("base", "mem", func() io.Reader { return bytes.NewReader(data) })
			emit("cfg", "one-byte", func() io.Reader { return iotest.OneByteReader(bytes.NewReader(data)) })
			for _, sz := range []int{2, 3, 7} {
				sz := sz
				emit("cfg", "chunk-"+strconv.Itoa(sz), func() io.Reader {
					return &chunkReader{data: data, next: func() int { return sz }, withEOF: sz == 3}
				})
			}
		}
	}
	return tw.close()
}

// ---------------------------------------------------------------- C07
func faultDrive(args []string) error {
	if err := need(args, 3, "fault-drive <out.ndjson> <inputs per format> <max input bytes> [only-sid]"); err != nil {
		return err
	}
	nIn, _ := strconv.Atoi(args[1])
	maxBytes, _ := strconv.Atoi(args[2])
	only := -1
	if len(args) > 3 {
		only, _ = strconv.Atoi(args[3])
	}
	tw, err := newTrace(args[0])
	if err != nil {
		return err
	}
	ftmp, err := os.MkdirTemp(".", "files")
	if err != nil {
		return err
	}
	defer os.RemoveAll(ftmp)
	sid := 0
	for fi, fd := range formatDefs {
		ins := crossInputs(fd.name, int64(7000+100*fi), 3*nIn, 0)
		if maxBytes > 1000 { // thorough: also inputs of several KB (beyond bufio's buffer)
			ins = append(ins, corpusFor(fd.name, int64(7050+100*fi), nIn, 40)...)
		}
		limitIn := nIn
		// the other line-ending conventions: CRLF copies of the first well-formed inputs; for FASTA (where a lone CR ends a line) CR-only copies
		{
			var extra []corpusInput
			for _, in := range ins {
				if len(extra) >= 4 || !in.WellFormed || len(in.Data) < 8 || len(in.Data) > maxBytes {
					continue
				}
				extra = append(extra, corpusInput{fd.name, toCRLF(in.Data), true})
				if fd.name == "fasta" {
					extra = append(extra, corpusInput{fd.name, bytes.ReplaceAll(in.Data, []byte("\n"), []byte("\r")), true})
				}
			}
			ins = append(extra, ins...)
			limitIn = nIn + len(extra)
		}
		// one input with a line of more than two bufio buffers (faults at a sparse set of offsets), in the thorough tier also one
		// of more than 64 KiB
		longs := []corpusInput{lineOfLength(fd.name, int64(7070+100*fi), 9000, false), lineOfLength(fd.name, int64(7071+100*fi), 70000, false)}
		ins = append(ins, longs...)
		used := 0
		for ii, in := range ins {
			long := ii >= len(ins)-len(longs)
			if !long && (len(in.Data) == 0 || len(in.Data) > maxBytes || used >= limitIn) {
				continue
			}
			used++
			sid++
			if only >= 0 && sid != only {
				continue
			}
			tab := newInterner()
			clean, capped, panicked := collect(func(v func(gItem) bool) (int, bool) { return fd.reader(bytes.NewReader(in.Data), v) })
			tw.emit(crossEvent{Sid: sid, Fmt: fd.name, Op: "clean", Cfg: "mem", WF: true, Ids: tab.ids(clean), Capped: capped, Panic: panicked,
				Input: ints(in.Data[:min(len(in.Data), 300)])})
			limit := len(clean) + 64
			if in.WellFormed && len(in.Data) > 12 && !long { // the same law for File on a gzip copy cut in the middle / before its trailer
				zb := &bytes.Buffer{}
				zw := gzip.NewWriter(zb)
				zw.Write(in.Data)
				zw.Close()
				for ci, cut := range []int{zb.Len() / 2, zb.Len() - 5, zb.Len() - 1} {
					path := filepath.Join(ftmp, "f"+strconv.Itoa(sid)+"_"+strconv.Itoa(ci)+".gz")
					os.WriteFile(path, zb.Bytes()[:cut], 0o644)
					items := []gItem{}
					unbounded := false
					_, p := fd.file(path, func(it gItem) bool {
						items = append(items, it)
						if len(items) >= limit {
							unbounded = true
							return false
						}
						return true
					})
					os.Remove(path)
					tw.emit(crossEvent{Sid: sid, Fmt: fd.name, Op: "fault", Cfg: "file-truncated-gz", WF: true, Ids: tab.ids(items), Capped: unbounded,
						Panic: p, K: cut, Mode: "file", RS: 0, Input: []int{}})
				}
			}
			if !long { // the same faults while a second reader (over the whole input) is alive and advances in lockstep
				n := len(in.Data)
				for _, k := range []int{0, 1, n / 3, n / 2, n - 1, n} {
					for _, forever := range []bool{false, true} {
						if k < 0 || k > n {
							continue
						}
						k, forever := k, forever
						items, capped, p := interleavedWith(&fd, func() io.Reader { return &faultReader{data: in.Data, at: k, rs: 4096, forever: forever} }, in.Data)
						mode := "once"
						if forever {
							mode = "forever"
						}
						tw.emit(crossEvent{Sid: sid, Fmt: fd.name, Op: "fault", Cfg: "fault-with-another-reader-alive", WF: true, Ids: tab.ids(items),
							Capped: capped, Panic: p, K: k, Mode: mode, RS: 4096, Input: []int{}})
					}
				}
			}
			for k := 0; k <= len(in.Data); k++ {
				if n := len(in.Data); n > 20000 && maxBytes <= 1000 { // (quick tier: a few dozen offsets of the longest input)
					if !(k < 8 || k > n-8 || k%4099 == 7 || k%16384 == 16383) {
						continue
					}
				} else if long && !(k < 40 || k > n-40 || k%509 == 0 || (k+1)%4096 < 3 || k%4096 == 2222) {
					continue
				}
				for _, forever := range []bool{false, true} {
					for vi, rs := range []int{1, 4096, 4096, 7} {
						if long && rs == 1 && k%2 == 1 {
							continue
						}
						// variants 2 and 3: the error arrives in the same Read as the last data; the error wraps io.EOF
						withData, wrapEOF := vi == 2, vi == 3
						if (withData || wrapEOF) && long && k%3 != 0 {
							continue
						}
						items := []gItem{}
						unbounded := false
						_, p := fd.reader(&faultReader{data: in.Data, at: k, rs: rs, forever: forever, withData: withData, wrapEOF: wrapEOF}, func(it gItem) bool {
							items = append(items, it)
							if len(items) >= limit { // the consumer keeps iterating past errors; an honest iterator ends by itself
								unbounded = true
								return false
							}
							return true
						})
						mode := "once"
						if forever {
							mode = "forever"
						}
						cfgName := []string{"fault", "fault", "fault-in-the-same-read-as-the-last-data", "fault-that-wraps-io.EOF"}[vi]
						tw.emit(crossEvent{Sid: sid, Fmt: fd.name, Op: "fault", Cfg: cfgName, WF: true, Ids: tab.ids(items), Capped: unbounded,
							Panic: p, K: k, Mode: mode, RS: rs, Input: []int{}})
					}
				}
			}
		}
	}
	// writers: every record, every offset at which the destination starts failing
	type wcase struct {
		name  string
		write func(w io.Writer) error
	}
	r := newRand(7900)
	var ws []wcase
	for i := 0; i < nIn; i++ {
		// (lengths: around the line width, and multiples of line width x 64 - a writer that batches lines batches by such numbers)
		fa := &fasta.Fasta{Name: faRandBytes(r, r.Intn(10), "\r\n"), Sequence: faRandBytes(r, []int{0, 5, 80, 81, 170}[r.Intn(5)], "\r\n>")}
		n := r.Intn(40)
		fq := &fastq.Fastq{Name: fqBytes(r, r.Intn(10)), Sequence: fqBytes(r, n), Quals: fqBytes(r, n)}
		sm := samRecord(r)
		bd := bedRecord(r, 3+r.Intn(10))
		nw := nwRandTree(r, 1+r.Intn(6), false)
		ws = append(ws, wcase{"fasta", fa.Write}, wcase{"fastq", fq.Write}, wcase{"sam", sm.Write}, wcase{"bed", bd.Write}, wcase{"newick", nw.Write})
	}
	for _, n := range []int{80 * 64, 80 * 64 * 2, 80 * 256, 4096, 65536} {
		fa := &fasta.Fasta{Name: faRandBytes(r, 1+r.Intn(10), "\r\n"), Sequence: faRandBytes(r, n, "\r\n>")}
		ws = append(ws, wcase{"fasta", fa.Write})
	}
	for _, w := range ws {
		sid++
		if only >= 0 && sid != only {
			continue
		}
		full := &bytes.Buffer{}
		if err := w.write(full); err != nil {
			tw.emit(crossEvent{Sid: sid, Fmt: w.name, Op: "wfault", Cfg: "unlimited", K: 1 << 30, OutLen: full.Len(), Err: true, Ids: []int{}, Input: []int{}})
			continue
		}
		for k := 0; k <= full.Len()+1; k++ {
			// long outputs: the first and last bytes, the bytes around every 16th line break and around multiples of 4096, and every 53rd offset
			if n := full.Len(); n > 2000 && !(k < 200 || k > n-200 || k%53 == 0 || (k+1)%4096 < 3 || ((k+1)%81 < 3 && (k/81)%16 == 0)) {
				continue
			}
			var werr error
			p, _ := catch(func() { werr = w.write(&limitWriter{left: k}) })
			tw.emit(crossEvent{Sid: sid, Fmt: w.name, Op: "wfault", Cfg: "limit", K: k, OutLen: full.Len(), Err: werr != nil, Panic: p, Ids: []int{}, Input: []int{}})
		}
	}
	return tw.close()
}

// ---------------------------------------------------------------- C18

// stopLong: the reference run of a long iteration (all items), then stops at a sparse set of positions: the first and last ones, around
// every power of two, around multiples of 10000, the middle, a few random ones. A stopped run is recorded by its length, its last items
// and whether the items before those were the reference run's.
func stopLong(tw *traceWriter, sid int, tg *stopTarget, r *rand.Rand) {
	tab := newInterner()
	var full []gItem
	_, panicked := tg.run(func(it gItem) bool { full = append(full, it); return true })
	cfg := "ordered"
	if tg.unordered {
		cfg = "unordered"
	}
	fullIds := tab.ids(full)
	tw.emit(crossEvent{Sid: sid, Fmt: tg.name, Op: "full", Cfg: cfg, WF: tg.errLast, Ids: fullIds, Panic: panicked, Input: []int{}})
	n := len(full)
	stops := map[int]bool{}
	add := func(x int) {
		if x >= 1 && x <= n+1 {
			stops[x] = true
		}
	}
	for d := -1; d <= 4; d++ {
		add(1 + d)
		add(n - d)
		add(n/2 + d)
	}
	for p := 1; 1<<p <= n+1; p++ {
		add(1<<p - 1)
		add(1 << p)
		add(1<<p + 1)
	}
	for m := 10000; m <= n+1 && m <= 50000; m += 10000 {
		add(m - 1)
		add(m)
		add(m + 1)
	}
	for j := 0; j < 12; j++ {
		add(1 + r.Intn(n+1))
	}
	var order []int
	for x := range stops {
		order = append(order, x)
	}
	sort.Ints(order)
	const window = 8
	for _, stop := range order {
		cnt, pre := 0, true
		var tail []gItem
		after, p := tg.run(func(it gItem) bool {
			cnt++
			tail = append(tail, it)
			if len(tail) > window {
				if !tg.unordered && cnt-window <= n && !sameItem(tail[0], full[cnt-window-1]) {
					pre = false
				}
				tail = tail[1:]
			}
			return cnt < stop
		})
		rp := false
		if tg.rangeRun != nil {
			rp = tg.rangeRun(stop)
		}
		tw.emit(crossEvent{Sid: sid, Fmt: tg.name, Op: "stoplong", Cfg: cfg, WF: tg.errLast, Ids: tab.ids(tail), K: stop, N: cnt, Pre: pre,
			After: after, Panic: p || rp, Input: []int{}})
	}
}

func sameItem(a, b gItem) bool {
	if a.K != b.K || len(a.F) != len(b.F) {
		return false
	}
	for i := range a.F {
		if len(a.F[i]) != len(b.F[i]) {
			return false
		}
		for j := range a.F[i] {
			if a.F[i][j] != b.F[i][j] {
				return false
			}
		}
	}
	return true
}

type stopTarget struct {
	long      bool // a deliberately long iteration: reference run collected without a cap, sparse stop positions
	name      string
	unordered bool
	errLast   bool // for this iterator an error item is always the last one
	run       func(visit func(gItem) bool) (afterStop int, panicked bool)
	rangeRun  func(stop int) (panicked bool) // the same iteration through range + break
}

func run1[T any](seq func(yield func(T) bool), proj func(T) gItem, visit func(gItem) bool) (afterStop int, panicked bool) {
	stopped := false
	panicked, _ = catch(func() {
		seq(func(v T) bool {
			if stopped {
				afterStop++
				return false
			}
			if !visit(proj(v)) {
				stopped = true
				return false
			}
			return true
		})
	})
	return
}

func stopDrive(args []string) error {
	if err := need(args, 2, "stop-drive <out.ndjson> <inputs per iterator> [only-sid]"); err != nil {
		return err
	}
	nIn, _ := strconv.Atoi(args[1])
	only := -1
	if len(args) > 2 {
		only, _ = strconv.Atoi(args[2])
	}
	tw, err := newTrace(args[0])
	if err != nil {
		return err
	}
	tmp, err := os.MkdirTemp(".", "files")
	if err != nil {
		return err
	}
	defer os.RemoveAll(tmp)
	var targets []stopTarget
	// format readers and files, on valid and invalid inputs
	for fi, fd := range formatDefs {
		fd := fd
		ins := crossInputs(fd.name, int64(8000+100*fi), nIn, nIn)
		ncut := 0
		for ii, in := range ins {
			in := in
			errLast := fd.name != "sam" && fd.name != "samh"
			targets = append(targets, stopTarget{name: fd.name + "/Reader", errLast: errLast,
				run: func(v func(gItem) bool) (int, bool) { return fd.reader(bytes.NewReader(in.Data), v) }})
			path := filepath.Join(tmp, fd.name+strconv.Itoa(ii)+".txt")
			if ii%3 == 0 {
				path += ".gz"
				zb := &bytes.Buffer{}
				zw := gzip.NewWriter(zb)
				zw.Write(in.Data)
				zw.Close()
				os.WriteFile(path, zb.Bytes(), 0o644)
			} else {
				os.WriteFile(path, in.Data, 0o644)
			}
			targets = append(targets, stopTarget{name: fd.name + "/File", errLast: errLast,
				run: func(v func(gItem) bool) (int, bool) { return fd.file(path, v) }})
			if ncut < 3 && len(in.Data) > 12 { // a file that opens and then fails to read: a gzip copy cut in the middle
				ncut++
				zb := &bytes.Buffer{}
				zw := gzip.NewWriter(zb)
				zw.Write(in.Data)
				zw.Close()
				cut := filepath.Join(tmp, fd.name+strconv.Itoa(ii)+".cut.gz")
				os.WriteFile(cut, zb.Bytes()[:zb.Len()/2], 0o644)
				targets = append(targets, stopTarget{name: fd.name + "/File-on-truncated-gz", errLast: errLast,
					run: func(v func(gItem) bool) (int, bool) { return fd.file(cut, v) }})
			}
			// the same input on a stream that fails part-way: stopping on (or just before) the error item
			if in.WellFormed && len(in.Data) > 2 {
				rr := newRand(int64(8900 + 100*fi + ii))
				for j := 0; j < 5; j++ {
					at, forever := 1+rr.Intn(len(in.Data)-1), j%2 == 0
					// (j = 3: the error comes in the same Read as the last data, whole input in one Read; j = 4: right before a line break)
					withData, rs := j >= 3, 7
					if withData {
						rs = 1 << 20
					}
					if j == 4 {
						if k := bytes.LastIndexByte(in.Data[:at], '\n'); k > 0 {
							at = k
						}
					}
					targets = append(targets, stopTarget{name: fd.name + "/Reader-on-failing-stream", errLast: errLast,
						run: func(v func(gItem) bool) (int, bool) {
							return fd.reader(&faultReader{data: in.Data, at: at, rs: rs, forever: forever, withData: withData}, v)
						}})
				}
			}
		}
		targets = append(targets, stopTarget{name: fd.name + "/File-missing", errLast: true,
			run: func(v func(gItem) bool) (int, bool) { return fd.file(filepath.Join(tmp, "missing-"+fd.name), v) }})
	}
	// tree traversals: items are node ids from the harness's own walk
	r := newRand(8800)
	for i := 0; i < nIn*2; i++ {
		root := nwRandTree(r, 1+r.Intn(40), i%5 == 4)
		id := map[*newick.Node]int{}
		var walk func(n *newick.Node)
		walk = func(n *newick.Node) {
			id[n] = len(id) + 1
			for _, c := range n.Children {
				walk(c)
			}
		}
		walk(root)
		proj := func(n *newick.Node) gItem { return gItem{"rec", [][]int{{id[n]}}} }
		targets = append(targets,
			stopTarget{name: "newick/PreOrder", run: func(v func(gItem) bool) (int, bool) { return run1(root.PreOrder(), proj, v) },
				rangeRun: func(stop int) bool {
					p, _ := catch(func() {
						n := 0
						for range root.PreOrder() {
							if n++; n >= stop {
								break
							}
						}
					})
					return p
				}},
			stopTarget{name: "newick/PostOrder", run: func(v func(gItem) bool) (int, bool) { return run1(root.PostOrder(), proj, v) },
				rangeRun: func(stop int) bool {
					p, _ := catch(func() {
						n := 0
						for range root.PostOrder() {
							if n++; n >= stop {
								break
							}
						}
					})
					return p
				}})
	}
	// trie.ForEach (unordered)
	for i := 0; i < nIn*2; i++ {
		t := trie.New()
		maxLen := 1 + r.Intn(4)
		for j := r.Intn(1 + []int{3, 8, 25}[i%3]); j > 0; j-- {
			b := make([]byte, 1+r.Intn(maxLen))
			for k := range b {
				b[k] = "ab\x00\xff"[r.Intn(4)]
			}
			t.Add(b)
		}
		targets = append(targets, stopTarget{name: "trie/ForEach", unordered: true,
			run: func(v func(gItem) bool) (int, bool) {
				return run1(func(y func([]byte) bool) { t.ForEach(y) }, func(b []byte) gItem { return gItem{"rec", [][]int{ints(b)}} }, v)
			}})
	}
	// sequtil.CanonicalSubsequences
	for i := 0; i < nIn*2; i++ {
		seq := make([]byte, r.Intn(30))
		for j := range seq {
			seq[j] = "ACGTacgtNn"[r.Intn(10)]
		}
		k := 1 + r.Intn(6)
		pos := 0
		_ = pos
		targets = append(targets, stopTarget{name: "sequtil/CanonicalSubsequences",
			run: func(v func(gItem) bool) (int, bool) {
				n := 0
				return run1(sequtil.CanonicalSubsequences(seq, k), func(b []byte) gItem {
					n++
					return gItem{"rec", [][]int{{n}, ints(b)}} // position + content: items of one run are distinct
				}, v)
			},
			rangeRun: func(stop int) bool {
				p, _ := catch(func() {
					n := 0
					for range sequtil.CanonicalSubsequences(seq, k) {
						if n++; n >= stop {
							break
						}
					}
				})
				return p
			}})
	}
	// long iterations (stopped at a sparse set of positions): thousands of items in the quick tier; beyond 2^20 k-mers, beyond 10^4 and
	// 10^5 levels of nesting in the thorough tier
	mkTree := func(root *newick.Node, name string) {
		id := map[*newick.Node]int{}
		var walk func(n *newick.Node)
		walk = func(n *newick.Node) {
			id[n] = len(id) + 1
			for _, c := range n.Children {
				walk(c)
			}
		}
		walk(root)
		proj := func(n *newick.Node) gItem { return gItem{"rec", [][]int{{id[n]}}} }
		for _, pre := range []bool{true, false} {
			it, nm := root.PostOrder, "newick/PostOrder"
			if pre {
				it, nm = root.PreOrder, "newick/PreOrder"
			}
			targets = append(targets, stopTarget{name: nm + "(" + name + ")", long: true,
				run: func(v func(gItem) bool) (int, bool) { return run1(it(), proj, v) },
				rangeRun: func(stop int) bool {
					p, _ := catch(func() {
						n := 0
						for range it() {
							if n++; n >= stop {
								break
							}
						}
					})
					return p
				}})
		}
	}
	mkKmers := func(n, k int) {
		seq := make([]byte, n)
		for j := range seq {
			seq[j] = "ACGTacgtNn"[r.Intn(10)]
		}
		targets = append(targets, stopTarget{name: "sequtil/CanonicalSubsequences(" + strconv.Itoa(n) + ")", long: true,
			run: func(v func(gItem) bool) (int, bool) {
				n := 0
				return run1(sequtil.CanonicalSubsequences(seq, k), func(b []byte) gItem {
					n++
					return gItem{"rec", [][]int{{n}, ints(b)}}
				}, v)
			},
			rangeRun: func(stop int) bool {
				p, _ := catch(func() {
					n := 0
					for range sequtil.CanonicalSubsequences(seq, k) {
						if n++; n >= stop {
							break
						}
					}
				})
				return p
			}})
	}
	mkTree(nwComb(r, 1500, 1), "comb 1500")
	mkTree(nwRandTree(r, 5000, true), "chain 5000")
	mkTree(nwRandTree(r, 3000, false), "random 3000")
	mkKmers(5000, 1+r.Intn(6))
	mkKmers(70000, 3)
	{
		t := trie.New()
		for j := 0; j < 3000; j++ {
			b := make([]byte, 1+r.Intn(12))
			for k := range b {
				b[k] = "abc\x00\xff"[r.Intn(5)]
			}
			t.Add(b)
		}
		targets = append(targets, stopTarget{name: "trie/ForEach(3000)", unordered: true, long: true,
			run: func(v func(gItem) bool) (int, bool) {
				return run1(func(y func([]byte) bool) { t.ForEach(y) }, func(b []byte) gItem { return gItem{"rec", [][]int{ints(b)}} }, v)
			}})
	}
	if thorough() {
		mkTree(nwComb(r, 12000, 1), "comb 12000, leaf first")
		mkTree(nwComb(r, 12000, 0), "comb 12000, spine first")
		mkTree(nwRandTree(r, 100000, true), "chain 100000")
		mkKmers(1<<20+40, 4)
		mkKmers(1<<21+7, 2)
	}
	for sid, tg := range targets {
		sid++
		if only >= 0 && sid != only {
			continue
		}
		tab := newInterner()
		if tg.long {
			stopLong(tw, sid, &tg, newRand(int64(8990+sid)))
			continue
		}
		full, capped, panicked := collect(tg.run)
		if len(full) > 60 { // (a quadratic number of stop runs: long inputs are stopped at a sparse set of positions)
			if !capped && !panicked {
				stopLong(tw, sid, &tg, newRand(int64(8990+sid)))
			} else { // a run that was cut off at the item cap (or panicked): its first items are still evidence (an error item in the middle)
				tw.emit(crossEvent{Sid: sid, Fmt: tg.name, Op: "runaway", Cfg: "ordered", WF: tg.errLast, Ids: tab.ids(full[:min(len(full), 64)]),
					Capped: capped, Panic: panicked, Input: []int{}})
			}
			continue
		}
		cfg := "ordered"
		if tg.unordered {
			cfg = "unordered"
		}
		tw.emit(crossEvent{Sid: sid, Fmt: tg.name, Op: "full", Cfg: cfg, WF: tg.errLast, Ids: tab.ids(full), Capped: capped, Panic: panicked, Input: []int{}})
		for stop := 1; stop <= len(full)+1; stop++ {
			seen := []gItem{}
			after, p := tg.run(func(it gItem) bool {
				seen = append(seen, it)
				return len(seen) < stop
			})
			rp := false
			if tg.rangeRun != nil {
				rp = tg.rangeRun(stop)
			}
			tw.emit(crossEvent{Sid: sid, Fmt: tg.name, Op: "stop", Cfg: cfg, WF: tg.errLast, Ids: tab.ids(seen), K: stop, After: after, Panic: p || rp, Input: []int{}})
		}
	}
	return tw.close()
}
