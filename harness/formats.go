package main

// Generic view of the five codecs for the cross-cutting properties (C06 delivery, C07 faults, C11 totality,
// C18 early stop): every iterator is called directly as seq(func(..) bool) - never through range - so that a
// callback after `false` is observed and counted instead of being turned into a runtime panic.

import (
	"bytes"
	"encoding/json"
	"io"
	"iter"
	"strconv"
	"strings"

	"github.com/fluhus/biostuff/formats/bed"
	"github.com/fluhus/biostuff/formats/fasta"
	"github.com/fluhus/biostuff/formats/fastq"
	"github.com/fluhus/biostuff/formats/newick"
	"github.com/fluhus/biostuff/formats/sam"
)

// gItem is an injective projection of one yielded item: k in rec | hdr | err, f = its byte-string fields.
type gItem struct {
	K string  `json:"k"`
	F [][]int `json:"f"`
}

var gErr = gItem{"err", [][]int{}}

func gFasta(f *fasta.Fasta) gItem { return gItem{"rec", [][]int{ints(f.Name), ints(f.Sequence)}} }
func gFastq(f *fastq.Fastq) gItem {
	return gItem{"rec", [][]int{ints(f.Name), ints(f.Sequence), ints(f.Quals)}}
}
func gSam(s *sam.SAM) gItem {
	p := samProject(s)
	it := gItem{"rec", append([][]int{}, p.F...)}
	for _, t := range p.Tags {
		it.F = append(it.F, t.Key, t.Ty, t.Val, sints(t.Atom))
	}
	return it
}
func gSamH(sh sam.SAMOrHeader) gItem {
	if sh.H != nil && sh.S == nil {
		return gItem{"hdr", [][]int{sints(*sh.H)}}
	}
	if sh.S != nil && sh.H == nil {
		return gSam(sh.S)
	}
	return gItem{"neither", [][]int{}}
}
func gBed(b *bed.BED) gItem {
	p := bedProject(b)
	return gItem{"rec", append([][]int{sints(strconv.Itoa(p.N))}, p.F...)}
}
func gNewick(n *newick.Node) gItem {
	it := gItem{"rec", [][]int{}}
	for _, x := range nwFlatten(n) {
		it.F = append(it.F, sints(strconv.Itoa(x.D)), x.Name, sints(x.Dist))
	}
	return it
}

// run2 drives a Seq2[T, error] directly. visit returns whether to continue. Returns the number of callbacks
// made after visit returned false (must be 0) and whether the iterator panicked.
func run2[T any](seq iter.Seq2[T, error], proj func(T) gItem, visit func(gItem) bool) (afterStop int, panicked bool) {
	stopped := false
	var kept []T
	var first []gItem
	panicked, _ = catch(func() {
		seq(func(v T, err error) bool {
			if stopped {
				afterStop++
				return false
			}
			var it gItem
			if err != nil {
				it = gErr
			} else {
				it = proj(v)
				if len(kept) < 64 {
					kept, first = append(kept, v), append(first, it)
				}
			}
			if !visit(it) {
				stopped = true
				return false
			}
			return true
		})
	})
	// a delivered record must stay what it was when it was delivered (no aliasing of reader buffers)
	for i, v := range kept {
		a, _ := json.Marshal(proj(v))
		b, _ := json.Marshal(first[i])
		if !bytes.Equal(a, b) {
			panicked = true
		}
	}
	return
}

type formatDef struct {
	name   string
	reader func(r io.Reader, visit func(gItem) bool) (int, bool)
	file   func(path string, visit func(gItem) bool) (int, bool)
	// file2: the iterator value returned by File is ranged over twice: a first pass that is given up after one item, then the
	// recorded pass (an iter.Seq is a recipe, not a run)
	file2 func(path string, visit func(gItem) bool) (int, bool)
}

// again: one pass over seq given up after its first item, then seq itself
func again[T any](seq iter.Seq2[T, error]) iter.Seq2[T, error] {
	catch(func() {
		for range seq {
			break
		}
	})
	return seq
}

var formatDefs = []formatDef{
	{"fasta",
		func(r io.Reader, v func(gItem) bool) (int, bool) { return run2(fasta.Reader(r), gFasta, v) },
		func(p string, v func(gItem) bool) (int, bool) { return run2(fasta.File(p), gFasta, v) },
		func(p string, v func(gItem) bool) (int, bool) { return run2(again(fasta.File(p)), gFasta, v) }},
	{"fastq",
		func(r io.Reader, v func(gItem) bool) (int, bool) { return run2(fastq.Reader(r), gFastq, v) },
		func(p string, v func(gItem) bool) (int, bool) { return run2(fastq.File(p), gFastq, v) },
		func(p string, v func(gItem) bool) (int, bool) { return run2(again(fastq.File(p)), gFastq, v) }},
	{"sam",
		func(r io.Reader, v func(gItem) bool) (int, bool) { return run2(sam.Reader(r), gSam, v) },
		func(p string, v func(gItem) bool) (int, bool) { return run2(sam.File(p), gSam, v) },
		func(p string, v func(gItem) bool) (int, bool) { return run2(again(sam.File(p)), gSam, v) }},
	{"samh",
		func(r io.Reader, v func(gItem) bool) (int, bool) { return run2(sam.ReaderHeader(r), gSamH, v) },
		func(p string, v func(gItem) bool) (int, bool) { return run2(sam.FileHeader(p), gSamH, v) },
		func(p string, v func(gItem) bool) (int, bool) { return run2(again(sam.FileHeader(p)), gSamH, v) }},
	{"bed",
		func(r io.Reader, v func(gItem) bool) (int, bool) { return run2(bed.Reader(r), gBed, v) },
		func(p string, v func(gItem) bool) (int, bool) { return run2(bed.File(p), gBed, v) },
		func(p string, v func(gItem) bool) (int, bool) { return run2(again(bed.File(p)), gBed, v) }},
	{"newick",
		func(r io.Reader, v func(gItem) bool) (int, bool) { return run2(newick.Reader(r), gNewick, v) },
		func(p string, v func(gItem) bool) (int, bool) { return run2(newick.File(p), gNewick, v) },
		func(p string, v func(gItem) bool) (int, bool) { return run2(again(newick.File(p)), gNewick, v) }},
}

func formatByName(n string) *formatDef {
	for i := range formatDefs {
		if formatDefs[i].name == n {
			return &formatDefs[i]
		}
	}
	return nil
}

const itemCap = 20000

// collect runs a reader to the end (or to cap items) without ever stopping it.
func collect(run func(visit func(gItem) bool) (int, bool)) (items []gItem, capped bool, panicked bool) {
	items = []gItem{}
	_, panicked = run(func(it gItem) bool {
		items = append(items, it)
		if len(items) >= itemCap {
			capped = true
			return false
		}
		return true
	})
	return
}

// ---------------------------------------------------------------- corpora of well-formed inputs (written by the real writers)

type corpusInput struct {
	Fmt        string
	Data       []byte
	WellFormed bool
}

func corpusFor(fmtName string, salt int64, n int, maxRec int) []corpusInput {
	var out []corpusInput
	for i := 0; i < n; i++ {
		r := newRand(salt + int64(i)*7919)
		buf := &bytes.Buffer{}
		nrec := r.Intn(maxRec + 1)
		if maxRec > 50 {
			nrec = maxRec/2 + r.Intn(maxRec/2)
		}
		switch fmtName {
		case "fasta":
			for j := 0; j < nrec; j++ {
				f := &fasta.Fasta{Name: faRandBytes(r, r.Intn(12), "\r\n"), Sequence: faRandBytes(r, []int{0, 1, 79, 80, 81, 200, 30}[r.Intn(7)], "\r\n>")}
				f.Write(buf)
				if r.Intn(6) == 0 {
					buf.WriteString("\n") // a blank line between records
				}
			}
		case "fastq":
			for j := 0; j < nrec; j++ {
				n := r.Intn(60)
				f := &fastq.Fastq{Name: fqBytes(r, r.Intn(12)), Sequence: fqBytes(r, n), Quals: fqBytes(r, n)}
				if n > 0 && r.Intn(2) == 0 { // lines that begin with bytes which mean something elsewhere in the format family
					f.Quals[0], f.Sequence[0] = "*@+!~"[r.Intn(5)], "*@+N>"[r.Intn(5)]
				}
				f.Write(buf)
			}
		case "sam", "samh":
			for j := r.Intn(3); j > 0; j-- {
				buf.WriteString(samHeader(r) + "\n")
			}
			for j := 0; j < nrec; j++ {
				samRecord(r).Write(buf)
				if r.Intn(6) == 0 {
					buf.WriteString("\n") // empty lines are skipped
				}
			}
		case "bed":
			n := 3 + r.Intn(10)
			for j := 0; j < nrec; j++ {
				if r.Intn(6) == 0 {
					buf.WriteString("#comment\n")
				}
				bedRecord(r, n).Write(buf)
				if r.Intn(6) == 0 {
					buf.WriteString("\n") // empty lines are skipped
				}
			}
		case "newick":
			for j := 0; j < nrec; j++ {
				t := nwRandTree(r, 1+r.Intn(8), false)
				// distances that do not survive are excluded here: well-formed means the round trip is the identity anyway
				t.Write(buf)
				buf.WriteString(nwSeps[r.Intn(len(nwSeps))])
			}
		}
		out = append(out, corpusInput{fmtName, append([]byte{}, buf.Bytes()...), true})
	}
	return out
}

// longLineInput: a well-formed input with one line / token longer than 64 KiB (long reads, long names)
func longLineInput(fmtName string, salt int64) corpusInput {
	return lineOfLength(fmtName, salt, 70000, false)
}

// lineOfLength: a well-formed input whose middle record has one line of (about, exact = false) or exactly n bytes
func lineOfLength(fmtName string, salt int64, n int, exact bool) corpusInput {
	r := newRand(salt)
	buf := &bytes.Buffer{}
	if exact {
		switch fmtName {
		case "fasta":
			(&fasta.Fasta{Name: []byte("short"), Sequence: faRandBytes(r, 100, "\r\n>")}).Write(buf)
			buf.WriteString(">" + strings.Repeat("n", n-1) + "\n") // name line of exactly n bytes
			buf.Write(faRandBytes(r, n, "\r\n>"))                  // sequence line of exactly n bytes
			buf.WriteString("\n>after\nAC\n")
		case "fastq":
			(&fastq.Fastq{Name: []byte("short"), Sequence: fqBytes(r, 30), Quals: fqBytes(r, 30)}).Write(buf)
			(&fastq.Fastq{Name: fqBytes(r, n-1), Sequence: fqBytes(r, n), Quals: fqBytes(r, n)}).Write(buf)
			(&fastq.Fastq{Name: []byte("after"), Sequence: fqBytes(r, 20), Quals: fqBytes(r, 20)}).Write(buf)
		case "sam", "samh":
			buf.WriteString("@HD\tVN:1.6\n")
			samRecord(r).Write(buf)
			samExact(r, n).Write(buf)
			samRecord(r).Write(buf)
		case "bed":
			bedRecord(r, 4).Write(buf)
			b := bedRecord(r, 4)
			b.Name = ""
			tmp := &bytes.Buffer{}
			b.Write(tmp)
			b.Name = strings.Repeat("n", max(0, n-(tmp.Len()-1)))
			b.Write(buf)
			bedRecord(r, 4).Write(buf)
		case "newick":
			nwRandTree(r, 3, false).Write(buf)
			buf.WriteString("\n(" + strings.Repeat("x", n-2) + ",b)c;\n") // an unquoted token ending exactly at offset n of its line
			nwRandTree(r, 4, false).Write(buf)
		}
		return corpusInput{fmtName, append([]byte{}, buf.Bytes()...), true}
	}
	switch fmtName {
	case "fasta":
		(&fasta.Fasta{Name: []byte("short"), Sequence: faRandBytes(r, 100, "\r\n>")}).Write(buf)
		buf.WriteString(">long\n")
		buf.Write(faRandBytes(r, n, "\r\n>")) // one unwrapped line
		buf.WriteString("\n")
		(&fasta.Fasta{Name: []byte("after"), Sequence: faRandBytes(r, 50, "\r\n>")}).Write(buf)
	case "fastq":
		(&fastq.Fastq{Name: []byte("short"), Sequence: fqBytes(r, 30), Quals: fqBytes(r, 30)}).Write(buf)
		(&fastq.Fastq{Name: []byte("long"), Sequence: fqBytes(r, n), Quals: fqBytes(r, n)}).Write(buf)
		(&fastq.Fastq{Name: []byte("after"), Sequence: fqBytes(r, 20), Quals: fqBytes(r, 20)}).Write(buf)
	case "sam", "samh":
		buf.WriteString("@HD\tVN:1.6\n")
		buf.WriteString("@CO\t" + strings.Repeat("h", n/8) + "\n") // long lines of every kind: a header ...
		samRecord(r).Write(buf)
		samLong(r, n/2).Write(buf)
		samRecord(r).Write(buf)
	case "bed":
		bedRecord(r, 4).Write(buf)
		buf.WriteString("#" + strings.Repeat("c", n/8) + "\n") // ... a comment
		b := bedRecord(r, 4)
		b.Name = string(faRandBytes(r, n, "\r\n\t"))
		b.Write(buf)
		bedRecord(r, 4).Write(buf)
	case "newick":
		nwRandTree(r, 3, false).Write(buf)
		t := nwRandTree(r, 5, false)
		t.Name = string(faRandBytes(r, n, "\r\n"))
		t.Children[0].Name = string(bytes.Repeat([]byte("x"), n)) // unquoted long token
		t.Write(buf)
		buf.WriteString("\n")
		nwRandTree(r, 4, false).Write(buf)
	}
	return corpusInput{fmtName, append([]byte{}, buf.Bytes()...), true}
}

// structuredCorruptions: valid files with exactly one structural defect in one record / line (the corruption families of the
// per-format checks), somewhere in the middle: what follows the defect matters (does the iteration stop? resynchronise?)
func structuredCorruptions(fmtName string, salt int64, n int) []corpusInput {
	var out []corpusInput
	r := newRand(salt)
	add := func(d []byte) { out = append(out, corpusInput{fmtName, append([]byte{}, d...), false}) }
	for i := 0; len(out) < n && i < 20*n; i++ {
		switch fmtName {
		case "fastq":
			var recs []*fastq.Fastq
			for j := 2 + r.Intn(3); j > 0; j-- {
				m := 1 + r.Intn(6)
				recs = append(recs, &fastq.Fastq{Name: fqBytes(r, r.Intn(4)), Sequence: fqBytes(r, m), Quals: fqBytes(r, m)})
			}
			if d, ok := fqCorrupt(r, recs, 1+r.Intn(len(recs)-1), fqKinds[r.Intn(len(fqKinds))], r.Intn(4) == 0); ok {
				add(d)
			}
		case "sam", "samh":
			var lines [][]byte
			for j := 2 + r.Intn(3); j > 0; j-- {
				b := &bytes.Buffer{}
				samRecord(r).Write(b)
				lines = append(lines, bytes.TrimSuffix(b.Bytes(), []byte("\n")))
			}
			k := r.Intn(len(lines) - 1)
			if bad := samCorruptLine(r, lines[k], samCorruptions[r.Intn(len(samCorruptions))]); bad != nil {
				lines[k] = bad
				add(append(bytes.Join(lines, []byte("\n")), '\n'))
			}
		case "bed":
			nf := 3 + r.Intn(10)
			var lines [][]byte
			for j := 3 + r.Intn(3); j > 0; j-- {
				b := &bytes.Buffer{}
				bedRecord(r, nf).Write(b)
				lines = append(lines, bytes.TrimSuffix(b.Bytes(), []byte("\n")))
			}
			k := r.Intn(len(lines) - 1)
			f := bytes.Split(lines[k], []byte("\t"))
			switch r.Intn(5) {
			case 0:
				f[1] = []byte("x1")
			case 1:
				f[2] = []byte("")
			case 2:
				f = f[:len(f)-1] // another field count than the first line
			case 3:
				f = append(f, []byte("7"))
			default:
				f[len(f)-1] = append(f[len(f)-1], "z,,"...)
			}
			lines[k] = bytes.Join(f, []byte("\t"))
			add(append(bytes.Join(lines, []byte("\n")), '\n'))
		case "newick":
			b := &bytes.Buffer{}
			for j := 2 + r.Intn(3); j > 0; j-- {
				nwRandTree(r, 2+r.Intn(6), false).Write(b)
				b.WriteString("\n")
			}
			d := b.Bytes()
			p := r.Intn(len(d))
			switch r.Intn(4) {
			case 0: // drop the first ')' / ';' after p
				if q := bytes.IndexAny(d[p:], ");"); q >= 0 {
					d = append(append([]byte{}, d[:p+q]...), d[p+q+1:]...)
				}
			case 1:
				d = append(append(append([]byte{}, d[:p]...), ":x"...), d[p:]...)
			case 2:
				d = append(append(append([]byte{}, d[:p]...), '('), d[p:]...)
			default:
				d = append(append(append([]byte{}, d[:p]...), ','), d[p:]...)
			}
			add(d)
		default:
			return out
		}
	}
	return out
}

// noisy variants: arbitrary bytes and grammar-aware mutations of well-formed inputs (self-consistency only)
func mutateInput(r interface{ Intn(int) int }, data []byte) []byte {
	d := append([]byte{}, data...)
	delims := []byte("\t\n\r>@+;,():'\"# ")
	for k := 1 + r.Intn(3); k > 0; k-- {
		if len(d) == 0 {
			d = append(d, delims[r.Intn(len(delims))])
			continue
		}
		p := r.Intn(len(d))
		switch r.Intn(6) {
		case 0: // drop a byte
			d = append(d[:p], d[p+1:]...)
		case 1: // duplicate a byte
			d = append(d[:p+1], d[p:]...)
		case 2: // inject a delimiter
			d = append(d[:p], append([]byte{delims[r.Intn(len(delims))]}, d[p:]...)...)
		case 3: // overwrite
			d[p] = byte(r.Intn(256))
		case 4: // truncate
			d = d[:p]
		case 5: // swap two bytes
			q := r.Intn(len(d))
			d[p], d[q] = d[q], d[p]
		}
	}
	return d
}
