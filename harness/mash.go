package main

// Leg T of C17 (mash.Sequences / Add / Distance / FromJaccard).  The driver records one event per
// call; hash values are projected to their rank among all 64-bit values of the session.  murmur3 is
// applied here directly (not through package mash) to every k-substring of both strands; which
// strand is canonical, de-duplication and the selection of the n smallest are decided by the
// specification (Trace_Mash.tla), never here.

import (
	"bytes"
	"math"
	"os"
	"sort"
	"strconv"

	"github.com/fluhus/biostuff/mash"
	"github.com/fluhus/gostuff/minhash"
	"github.com/spaolacci/murmur3"
)

func init() {
	register("mash-drive", mashDrive)
}

type mashSeqRaw struct {
	s, rc  []byte
	hf, hr []uint64
}

type mashSeq struct {
	S  []int `json:"s"`
	RC []int `json:"rc"`
	HF []int `json:"hf"`
	HR []int `json:"hr"`
}

type mashEvRaw struct {
	op          string
	n, k        int
	fresh, same bool
	seqs, seqs2 []mashSeqRaw
	view        []uint64
	d, dr       int
	jn, jd      int
	full        bool
	note        string
	panicked    bool
}

type mashEvent struct {
	Sid   int       `json:"sid"`
	Step  int       `json:"step"`
	Op    string    `json:"op"`
	N     int       `json:"n"`
	K     int       `json:"k"`
	Fresh bool      `json:"fresh"`
	Same  bool      `json:"same"`
	Seqs  []mashSeq `json:"seqs"`
	Seqs2 []mashSeq `json:"seqs2"`
	View  []int     `json:"view"`
	D     int       `json:"d"`
	DR    int       `json:"dr"`
	JN    int       `json:"jn"`
	JD    int       `json:"jd"`
	Full  bool      `json:"full"` // diagnostics only: both sketches hold n values
	Note  string    `json:"note"` // diagnostics only: what the driver did
	Seed  int       `json:"hseed"`
	Panic bool      `json:"panic"` // the call panicked (never expected inside the property's domain)
	// events over millions of k-mers only: an index from rank to one place where a k-mer with that rank stands - invs[x-1] = number of
	// the sequence (0: rank x does not occur in this event), invp[x-1] = position in the upper-cased sequence (> 0) or in its reverse
	// complement (< 0), 1-based.  The specification checks the index against hf / hr and uses it to enumerate the canonical ranks in
	// ascending order (TLC builds a set given in any other order by insertion).
	Invs []int `json:"invs"`
	Invp []int `json:"invp"`
}

// the driver's own strand arithmetic (upper-case ACGT only), independent of package sequtil
func drvRevComp(u []byte) []byte {
	out := make([]byte, len(u))
	for i, c := range u {
		var d byte
		switch c {
		case 'A':
			d = 'T'
		case 'C':
			d = 'G'
		case 'G':
			d = 'C'
		case 'T':
			d = 'A'
		default:
			d = c
		}
		out[len(u)-1-i] = d
	}
	return out
}

func murmurAll(text []byte, k int) []uint64 {
	out := []uint64{}
	h := murmur3.New64WithSeed(mash.Seed)
	for i := 0; i+k <= len(text); i++ {
		h.Reset()
		h.Write(text[i : i+k])
		out = append(out, h.Sum64())
	}
	return out
}

func mashRec(s []byte, k int) mashSeqRaw {
	u := bytes.ToUpper(s)
	rc := drvRevComp(u)
	return mashSeqRaw{s: append([]byte{}, s...), rc: rc, hf: murmurAll(u, k), hr: murmurAll(rc, k)}
}

func mashRecs(seqs [][]byte, k int) []mashSeqRaw {
	out := []mashSeqRaw{}
	for _, s := range seqs {
		out = append(out, mashRec(s, k))
	}
	return out
}

func fix8(x float64) int {
	if math.IsNaN(x) || x > 10 || x < -10 {
		return -999999999
	}
	return int(math.Round(x * 1e8))
}

func cloneSeqs(seqs [][]byte) [][]byte {
	out := make([][]byte, len(seqs))
	for i, s := range seqs {
		out[i] = append([]byte{}, s...)
	}
	return out
}

func mashDrive(args []string) error {
	if err := need(args, 2, "mash-drive <out.ndjson> <sessions> [only-sid]"); err != nil {
		return err
	}
	sessions, _ := strconv.Atoi(args[1])
	only := -1
	if len(args) > 2 {
		only, _ = strconv.Atoi(args[2])
	}
	tw, err := newTrace(args[0])
	if err != nil {
		return err
	}
	big := thorough()
	for sid := 0; sid < sessions; sid++ {
		if only >= 0 && sid != only {
			continue
		}
		r := newRand(int64(sid) + 17000)
		var evs []mashEvRaw
		if r.Intn(2) == 0 {
			mash.Seed = 0
		} else {
			mash.Seed = r.Uint32()
		}
		hseed := int(mash.Seed % 1000000)

		withN := sid%3 == 1 // a third of the sessions have unknown bases (N is its own complement)
		randSeq := func(n int) []byte {
			b := make([]byte, n)
			for i := range b {
				b[i] = "ACGT"[r.Intn(4)]
				if withN && r.Intn(9) == 0 {
					b[i] = 'N'
				}
			}
			return b
		}
		// letterCase: per-letter case patterns (a case rule that looks at which letters are lower case shows here)
		letterCase := func(s []byte) []byte {
			out := bytes.ToUpper(s)
			if r.Intn(3) == 0 && len(out) > 0 { // lower case only in the last few letters (what is left over when letters are taken eight at a time)
				for i := max(0, len(out)-1-r.Intn(7)); i < len(out); i++ {
					if out[i] >= 'A' && out[i] <= 'Z' {
						out[i] += 32
					}
				}
				return out
			}
			lower := []string{"n", "acgt", "a", "nt", "acgtn", "g"}[r.Intn(6)]
			for i, c := range out {
				if bytes.IndexByte([]byte(lower), c+32) >= 0 {
					out[i] = c + 32
				}
			}
			return out
		}
		flipCase := func(s []byte, p int) []byte { // p = percentage of letters whose case is flipped
			out := append([]byte{}, s...)
			for i, c := range out {
				if r.Intn(100) < p {
					if c >= 'a' {
						out[i] = c - 32
					} else {
						out[i] = c + 32
					}
				}
			}
			return out
		}
		revComp := func(s []byte) []byte { // keeps the case of every letter
			out := make([]byte, len(s))
			for i, c := range s {
				lower := c >= 'a'
				d := drvRevComp([]byte{bytes.ToUpper([]byte{c})[0]})[0]
				if lower {
					d += 32
				}
				out[len(s)-1-i] = d
			}
			return out
		}
		mutate := func(s []byte, pct int) []byte {
			out := append([]byte{}, s...)
			for i := range out {
				if r.Intn(100) < pct {
					out[i] = "ACGT"[r.Intn(4)]
				}
			}
			return out
		}
		pickK := func() int {
			ks := []int{1, 2, 3, 3, 4, 4, 5, 5, 6, 7, 8, 11, 16, 21, 21, 31, 32}
			return ks[r.Intn(len(ks))]
		}
		sketch := func(n, k int, seqs [][]byte, same bool, note string) {
			in := cloneSeqs(seqs)
			var view []uint64
			p, _ := catch(func() { view = append([]uint64{}, mash.Sequences(n, k, in...).View()...) })
			evs = append(evs, mashEvRaw{op: "sketch", n: n, k: k, fresh: true, same: same, seqs: mashRecs(seqs, k),
				view: view, jd: 1, note: note, panicked: p})
		}

		switch kind := sid % 4; kind {
		case 0, 1: // one content, many presentations
			k := pickK()
			if sid%7 == 4 || sid%7 == 1 { // k-mers longer than a machine word's worth of bases, longer than conventional gap runs
				k = []int{33, 101, 64, 120, 150}[(sid/7+r.Intn(2))%5]
			}
			hugeBase := 0
			huge := big && (sid == 8 || sid == 9) // one sequence of more than 2^20 bases, a few bases (fewer than k) beyond the multiple
			nseq := 1 + r.Intn(4)
			var seqs [][]byte
			large := sid == 12 // every run: a sequence beyond 2^16 bases after a short one in the same call
			if large {
				k, nseq = 21, 0
				// (the long one has exactly 2^16 + k bases: one k-mer beyond what 2^16 windows hold)
				seqs = append(seqs, randSeq(40+r.Intn(40)), randSeq(1<<16+k))
			}
			if huge {
				k = []int{21, 31}[sid%2]
				nseq = 0
				base := 1 << 20
				if v, err := strconv.Atoi(os.Getenv("VERIF_MASH_HUGE")); err == nil && v > 0 { // (for measuring the cost of this family)
					base = v
				}
				hugeBase = base
				seqs = append(seqs, randSeq(base+1+r.Intn(k-1)))
			}
			for i := 0; i < nseq; i++ {
				ln := r.Intn(70)
				if k > 32 {
					ln += r.Intn(3 * k)
				}
				if i == 0 && (k > 32 || r.Intn(4) == 0) { // a run of one letter about as long as k (or as an assembly gap)
					run := []int{k - 2, k - 1, k, k + 1, 2 * k, 100, 110}[r.Intn(7)]
					if k > 100 {
						run = []int{100, k - 1, (100 + k) / 2, k, k + 1, 99}[(sid/7+r.Intn(2))%6]
					}
					c := "AT"[r.Intn(2)]
					if withN {
						c = 'N'
					}
					at := r.Intn(ln + 1)
					sq := randSeq(ln)
					sq = append(append(append([]byte{}, sq[:at]...), bytes.Repeat([]byte{c}, max(run, 0))...), sq[at:]...)
					seqs = append(seqs, flipCase(sq, []int{0, 0, 30, 100}[r.Intn(4)]))
					continue
				}
				if r.Intn(5) == 0 {
					ln = r.Intn(k + 2) // around k: shorter sequences contribute nothing
				}
				if k <= 3 && r.Intn(2) == 0 {
					ln = r.Intn(12)
				}
				seqs = append(seqs, flipCase(randSeq(ln), []int{0, 0, 30, 100}[r.Intn(4)]))
			}
			n := 1 + r.Intn(40)
			if r.Intn(3) == 0 {
				n = 1 + r.Intn(6)
			}
			if sid%2 == 0 || k > 100 { // a sketch with room for every k-mer of the content: nothing is hidden behind the n-th smallest value
				n = 600 + r.Intn(600)
			}
			if large {
				n = 1<<17 + r.Intn(100)
				sketch(n, k, seqs, true, "reference")
				sketch(n, k, [][]byte{revComp(seqs[1]), seqs[0]}, true, "other order, long one reverse-complemented")
				break
			}
			if huge {
				n = hugeBase + 64 // every distinct canonical k-mer is in the sketch
				sketch(n, k, seqs, true, "reference")
				sketch(n, k, [][]byte{revComp(seqs[0])}, true, "revcomp")
				cut := hugeBase/2 + r.Intn(1000)
				sketch(n, k, [][]byte{seqs[0][cut-k+1:], seqs[0][:cut]}, true, "two overlapping parts")
				break
			}
			sketch(n, k, seqs, true, "reference")
			for v := 0; v < 9; v++ {
				vs := cloneSeqs(seqs)
				note := ""
				if v == 0 || r.Intn(2) == 0 {
					for i := range vs {
						if r.Intn(2) == 0 {
							vs[i] = revComp(vs[i])
						}
					}
					note += "revcomp-subset "
				}
				if v == 1 || r.Intn(2) == 0 {
					if r.Intn(3) == 0 {
						for i := range vs {
							vs[i] = letterCase(vs[i])
						}
					} else {
						for i := range vs {
							vs[i] = flipCase(vs[i], []int{10, 50, 100}[r.Intn(3)])
						}
					}
					note += "case "
				}
				if v == 2 || r.Intn(2) == 0 {
					r.Shuffle(len(vs), func(i, j int) { vs[i], vs[j] = vs[j], vs[i] })
					note += "order "
				}
				if r.Intn(4) == 0 {
					vs = append(vs, revComp(vs[r.Intn(len(vs))]))
					note += "repeat "
				}
				nn := n
				if v >= 6 && n > 1 {
					nn = 1 + r.Intn(n-1) // TailLaw: a smaller sketch
					note += "smaller-n "
				}
				switch {
				case v == 3 || v == 4 || v == 8:
					// regrouping across calls: New + Add, Add, ...
					mh := minhash.New[uint64](nn)
					first := true
					for len(vs) > 0 || first {
						c := r.Intn(len(vs) + 1)
						if c == 0 && r.Intn(3) > 0 && len(vs) > 0 {
							c = 1
						}
						grp := vs[:c]
						vs = vs[c:]
						in := cloneSeqs(grp)
						p, _ := catch(func() { mash.Add(mh, k, in...) })
						evs = append(evs, mashEvRaw{op: "add", n: nn, k: k, fresh: first, same: len(vs) == 0,
							seqs: mashRecs(grp, k), view: append([]uint64{}, mh.View()...), jd: 1, note: note + "add-group", panicked: p})
						first = false
					}
				case v == 7 && len(vs) > 1:
					// Sequences on the first (possibly tiny) part, then Add of the rest: a sketch made from few k-mers must
					// still grow to n values
					c := 1
					extra := r.Intn(2) == 0
					if extra {
						vs = append([][]byte{randSeq(k + r.Intn(2))}, vs...) // one or two k-mers only (content now differs from the reference)
					}
					in := cloneSeqs(vs[:c])
					var mh *minhash.MinHash[uint64]
					p, _ := catch(func() { mh = mash.Sequences(nn, k, in...) })
					if p {
						evs = append(evs, mashEvRaw{op: "sketch", n: nn, k: k, fresh: true, same: false, seqs: mashRecs(vs[:c], k),
							view: []uint64{}, jd: 1, note: note + "sequences-first-part", panicked: true})
						break
					}
					evs = append(evs, mashEvRaw{op: "sketch", n: nn, k: k, fresh: true, same: false, seqs: mashRecs(vs[:c], k),
						view: append([]uint64{}, mh.View()...), jd: 1, note: note + "sequences-first-part"})
					rest := cloneSeqs(vs[c:])
					p, _ = catch(func() { mash.Add(mh, k, rest...) })
					evs = append(evs, mashEvRaw{op: "add", n: nn, k: k, fresh: false, same: !extra, seqs: mashRecs(vs[c:], k),
						view: append([]uint64{}, mh.View()...), jd: 1, note: note + "add-rest", panicked: p})
				case v == 5:
					// Sequences, then Add of sequences that are already in: content unchanged
					in := cloneSeqs(vs)
					mh := mash.Sequences(nn, k, in...)
					evs = append(evs, mashEvRaw{op: "sketch", n: nn, k: k, fresh: true, same: true, seqs: mashRecs(vs, k),
						view: append([]uint64{}, mh.View()...), jd: 1, note: note + "sequences"})
					again := [][]byte{revComp(vs[r.Intn(len(vs))])}
					mash.Add(mh, k, cloneSeqs(again)...)
					evs = append(evs, mashEvRaw{op: "add", n: nn, k: k, fresh: false, same: true, seqs: mashRecs(again, k),
						view: append([]uint64{}, mh.View()...), jd: 1, note: note + "add-again"})
				default:
					sketch(nn, k, vs, true, note)
				}
			}
			// other content in the same session: the specification must not just compare with the reference
			other := cloneSeqs(seqs)
			other[r.Intn(len(other))] = randSeq(10 + r.Intn(40))
			sketch(n, k, other, false, "other-content")
			// a different k on the same sequences
			k2 := pickK()
			sketch(n, k2, seqs, k2 == k, "other-k")

		case 2: // distances
			k := []int{3, 4, 5, 7, 11, 16, 21, 21, 31}[r.Intn(9)]
			n := 1 + r.Intn(32)
			ln := 3*n + 30 + r.Intn(150)
			if big && r.Intn(4) == 0 {
				n = 100 + r.Intn(900)
				ln = 2*n + r.Intn(1000)
				if k < 11 {
					k = 21
				}
			}
			if k <= 5 && n > 8 {
				n = 1 + r.Intn(8)
			}
			a := [][]byte{randSeq(ln / 2), flipCase(randSeq(ln-ln/2), 20)}
			type pair struct {
				b    [][]byte
				note string
			}
			var pairs []pair
			for _, pct := range []int{1, 3, 8, 15, 30} {
				pairs = append(pairs, pair{[][]byte{mutate(a[0], pct), mutate(a[1], pct)}, "mutated-" + strconv.Itoa(pct) + "%"})
			}
			pairs = append(pairs,
				pair{[][]byte{revComp(a[1]), flipCase(a[0], 50)}, "identical-content"},
				pair{[][]byte{randSeq(ln)}, "unrelated"},
				pair{[][]byte{a[0], randSeq(ln / 2)}, "half-shared"},
				pair{[][]byte{randSeq(r.Intn(k + 3))}, "tiny (sketch not full: outside the domain)"})
			for _, p := range pairs {
				var d, dr float64
				full := false
				pn, _ := catch(func() {
					ma := mash.Sequences(n, k, cloneSeqs(a)...)
					mb := mash.Sequences(n, k, cloneSeqs(p.b)...)
					full = len(ma.View()) == n && len(mb.View()) == n
					if len(evs)%3 == 1 { // frozen (immutable, sorted) copies of the sketches are sketches, too; so is a mix
						ma = ma.Frozen()
						if len(evs)%2 == 0 {
							mb = mb.Frozen()
						}
					}
					d = mash.Distance(ma, mb, k)
					dr = mash.Distance(mb, ma, k)
				})
				evs = append(evs, mashEvRaw{op: "distance", n: n, k: k, seqs: mashRecs(a, k), seqs2: mashRecs(p.b, k),
					d: fix8(d), dr: fix8(dr), jd: 1, full: full, note: p.note, panicked: pn})
			}

		case 3: // FromJaccard on grids
			k := 1 + r.Intn(32)
			dens := []int{1 + r.Intn(32), 1 + r.Intn(32), 32, 1000}
			if r.Intn(2) == 0 {
				dens = append(dens, 2+r.Intn(5), 9973)
			}
			for _, den := range dens {
				step := 1
				if den > 32 {
					step = 1 + r.Intn(den/40)
				}
				for jn := 0; jn <= den; jn += step {
					d := mash.FromJaccard(float64(jn)/float64(den), k)
					evs = append(evs, mashEvRaw{op: "fromjaccard", k: k, jn: jn, jd: den, d: fix8(d), note: "grid"})
					if den > 32 {
						step = 1 + r.Intn(den/40)
					}
				}
				d := mash.FromJaccard(1, k)
				evs = append(evs, mashEvRaw{op: "fromjaccard", k: k, jn: den, jd: den, d: fix8(d), note: "one"})
			}
			for p := 14; p >= 1; p-- { // small Jaccard values 2^-p (second table of the specification)
				d := mash.FromJaccard(1/float64(int(1)<<p), k)
				evs = append(evs, mashEvRaw{op: "fromjaccard", k: k, jn: 1, jd: 1 << p, d: fix8(d), note: "power of two"})
			}
		}

		// projection: rank of every 64-bit value of the session
		all := map[uint64]bool{}
		collect := func(recs []mashSeqRaw) {
			for _, q := range recs {
				for _, x := range q.hf {
					all[x] = true
				}
				for _, x := range q.hr {
					all[x] = true
				}
			}
		}
		for _, e := range evs {
			collect(e.seqs)
			collect(e.seqs2)
			for _, x := range e.view {
				all[x] = true
			}
		}
		vals := make([]uint64, 0, len(all))
		for x := range all {
			vals = append(vals, x)
		}
		sort.Slice(vals, func(i, j int) bool { return vals[i] < vals[j] })
		rank := make(map[uint64]int, len(vals))
		for i, x := range vals {
			rank[x] = i + 1
		}
		rk := func(xs []uint64) []int {
			out := make([]int, len(xs))
			for i, x := range xs {
				out[i] = rank[x]
			}
			return out
		}
		proj := func(recs []mashSeqRaw) []mashSeq {
			out := []mashSeq{}
			for _, q := range recs {
				out = append(out, mashSeq{S: ints(q.s), RC: ints(q.rc), HF: rk(q.hf), HR: rk(q.hr)})
			}
			return out
		}
		for step, e := range evs {
			ev := mashEvent{Sid: sid, Step: step, Op: e.op, N: e.n, K: e.k, Fresh: e.fresh, Same: e.same,
				Seqs: proj(e.seqs), Seqs2: proj(e.seqs2), View: rk(e.view), D: e.d, DR: e.dr, JN: e.jn, JD: e.jd,
				Full: e.full, Note: e.note, Seed: hseed, Panic: e.panicked, Invs: []int{}, Invp: []int{}}
			total := 0
			for _, q := range ev.Seqs {
				total += len(q.HF)
			}
			// (also in every fifth small session: there the specification compares the indexed enumeration with the plain one)
			if (total > 20000 || sid%5 == 2) && len(ev.Seqs2) == 0 && (ev.Op == "sketch" || ev.Op == "add") {
				ev.Invs, ev.Invp = make([]int, len(vals)), make([]int, len(vals))
				for si, q := range ev.Seqs {
					for i, x := range q.HF {
						if ev.Invs[x-1] == 0 {
							ev.Invs[x-1], ev.Invp[x-1] = si+1, i+1
						}
					}
					for j, x := range q.HR {
						if ev.Invs[x-1] == 0 {
							ev.Invs[x-1], ev.Invp[x-1] = si+1, -(j + 1)
						}
					}
				}
			}
			tw.emit(ev)
		}
	}
	mash.Seed = 0
	return tw.close()
}
