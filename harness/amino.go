package main

// Leg T driver for C14 (translation, reading frames, amino acid names): every event is one call of
// a real sequtil function recorded at its return (panic: true when it panicked). Trace_Amino.tla judges.
//
//	vh amino-drive <out.ndjson> <maxlen> <maxframe> [part nparts]
//	vh amino-exec  <requests.json> <out.ndjson>          re-executes recorded calls (replay)

import (
	"strconv"

	"github.com/fluhus/biostuff/sequtil"
)

func init() {
	register("amino-drive", aminoDrive)
	register("amino-exec", aminoExec)
}

type aminoReq struct {
	Op  string `json:"op"`
	Dst []int  `json:"dst"`
	Cap int    `json:"cap"`
	Src []int  `json:"src"`
	A   []int  `json:"a"`
	Bs  []int  `json:"bs"`
	Seq []int  `json:"seq"`
	B   int    `json:"b"`
}

type evTranslate struct {
	Op       string `json:"op"`
	Dst      []int  `json:"dst"`
	Cap      int    `json:"cap"`
	Src      []int  `json:"src"`
	Panic    bool   `json:"panic"`
	Out      []int  `json:"out"`
	DstAfter []int  `json:"dst_after"`
}

type evConcat struct {
	Op    string `json:"op"`
	A     []int  `json:"a"`
	Bs    []int  `json:"bs"`
	Panic bool   `json:"panic"`
	TA    []int  `json:"ta"`
	TB    []int  `json:"tb"`
	TAB   []int  `json:"tab"`
}

type evFrames struct {
	Op    string  `json:"op"`
	Seq   []int   `json:"seq"`
	Panic bool    `json:"panic"`
	Out   [][]int `json:"out"` // three frames, or empty on panic
}

type evAminoName struct {
	Op    string `json:"op"`
	B     int    `json:"b"`
	Panic bool   `json:"panic"`
	Code  []int  `json:"code"`
	Name  []int  `json:"name"`
}

func aminoCall(r aminoReq) any {
	switch r.Op {
	case "translate":
		dst := mkDst(r.Dst, r.Cap)
		src := unints(r.Src)
		// where dst and src live: separate allocations; one array with src right behind dst's capacity; src inside dst's spare
		// capacity (Translate(buf[:0], buf): the translation overwrites the bases already read)
		translateCalls++
		switch translateCalls % 4 {
		case 2:
			dst, src = sameAlloc(dst, src, 1)
		case 3: // a header (dst) at the front of the buffer that also holds the sequence
			buf := append(append([]byte{}, dst...), src...)
			dst, src = buf[:len(dst)], buf[len(dst):]
		}
		orig := dst
		var out []byte
		p, _ := catch(func() { out = sequtil.Translate(dst, src) })
		ev := evTranslate{Op: r.Op, Dst: nn(r.Dst), Cap: r.Cap, Src: nn(r.Src), Panic: p, Out: []int{}, DstAfter: ints(orig)}
		if !p {
			ev.Out = ints(out)
		}
		return ev
	case "concat":
		a, b := unints(r.A), unints(r.Bs)
		var ta, tb, tab []byte
		p, _ := catch(func() {
			ta = sequtil.Translate(nil, a)
			tb = sequtil.Translate(nil, b)
			tab = sequtil.Translate(nil, append(append([]byte{}, a...), b...))
		})
		ev := evConcat{Op: r.Op, A: nn(r.A), Bs: nn(r.Bs), Panic: p, TA: []int{}, TB: []int{}, TAB: []int{}}
		if !p {
			ev.TA, ev.TB, ev.TAB = ints(ta), ints(tb), ints(tab)
		}
		return ev
	case "frames":
		var out [3][]byte
		p, _ := catch(func() {
			out = sequtil.TranslateReadingFrames(unints(r.Seq))
			// the consumer appends to the frames it was given, first to last: an append to one frame must not reach another
			n0, n1, n2 := len(out[0]), len(out[1]), len(out[2])
			grown(out[0])
			grown(out[1])
			grown(out[2])
			out[0], out[1], out[2] = out[0][:n0], out[1][:n1], out[2][:n2]
		})
		ev := evFrames{Op: r.Op, Seq: nn(r.Seq), Panic: p, Out: [][]int{}}
		if !p {
			ev.Out = [][]int{ints(out[0]), ints(out[1]), ints(out[2])}
		}
		return ev
	case "aminoname":
		var code, name string
		p, _ := catch(func() { code, name = sequtil.AminoName(byte(r.B)) })
		ev := evAminoName{Op: r.Op, B: r.B, Panic: p, Code: []int{}, Name: []int{}}
		if !p {
			ev.Code, ev.Name = sints(code), sints(name)
		}
		return ev
	}
	panic("amino: bad op " + r.Op)
}

var translateCalls int

func aminoDrive(args []string) error {
	if err := need(args, 3, "amino-drive <out.ndjson> <maxlen> <maxframe> [part nparts]"); err != nil {
		return err
	}
	maxLen, _ := strconv.Atoi(args[1])
	maxFrame, _ := strconv.Atoi(args[2])
	tw, err := newTrace(args[0])
	if err != nil {
		return err
	}
	part, nparts := 0, 1
	if len(args) >= 5 {
		part, _ = strconv.Atoi(args[3])
		nparts, _ = strconv.Atoi(args[4])
	}
	n := 0
	do := func(r aminoReq) {
		if n%nparts == part {
			tw.emit(aminoCall(r))
		}
		n++
	}
	v := 0
	tr := func(src []int) {
		d := dstVars[v%len(dstVars)]
		v++
		do(aminoReq{Op: "translate", Dst: d.content, Cap: d.spare, Src: src})
	}
	r := newRand(14001)
	long, nrand, perLen := 30000, 60, 12
	if thorough() {
		long, nrand, perLen = 300000, 400, 60
	}

	// the very first call made in this process is TranslateReadingFrames (nothing has "warmed up" Translate yet);
	// with parts, every part's process starts with it
	tw.emit(aminoCall(aminoReq{Op: "frames", Seq: sints("ATGGCCTAAtgacgt")}))
	if thorough() && part == 0 {
		// inputs beyond 2^20 bases: valid, and with the foreign byte in the very first / the very last codon
		big := randOver(r, []byte(lettersDNA), 3*(1<<19)+3)
		tw.emit(aminoCall(aminoReq{Op: "translate", Dst: []int{'x'}, Cap: 0, Src: big}))
		b1 := append([]int{}, big...)
		b1[1] = 'N'
		tw.emit(aminoCall(aminoReq{Op: "translate", Dst: nil, Cap: 0, Src: b1}))
		b2 := append([]int{}, big...)
		b2[len(b2)-1] = 'N'
		tw.emit(aminoCall(aminoReq{Op: "translate", Dst: nil, Cap: 0, Src: b2}))
		tw.emit(aminoCall(aminoReq{Op: "frames", Seq: big[:1<<20+1]}))
	}

	// a codon made of one byte three times, for every byte value, onto every dst shape in turn (the zero value of a remembered
	// "previous codon" is three NULs; the four real homopolymer codons are among them)
	for b := 0; b < 256; b++ {
		tr([]int{b, b, b})
		tr([]int{'A', 'C', 'G', b, b, b})
		tr([]int{b, b, b, b, b, b})
	}
	// strings are byte strings: every well-formed two-byte UTF-8 sequence inside a codon (with one base before or after it), as the
	// last codon of a short sequence
	for hi := 0xC2; hi <= 0xDF; hi++ {
		for lo2 := 0x80; lo2 <= 0xBF; lo2++ {
			if (hi+lo2)%2 == 0 {
				tr([]int{'A', 'T', 'G', 'A', hi, lo2})
			} else {
				tr([]int{'A', 'T', 'G', hi, lo2, 'a'})
			}
		}
	}
	// all 64 codons x 8 case patterns
	up, lo := "ACGT", "acgt"
	for i := 0; i < 4; i++ {
		for j := 0; j < 4; j++ {
			for k := 0; k < 4; k++ {
				for c := 0; c < 8; c++ {
					pick := func(x, bit int) int {
						if c&bit != 0 {
							return int(lo[x])
						}
						return int(up[x])
					}
					tr([]int{pick(i, 1), pick(j, 2), pick(k, 4)})
				}
			}
		}
	}
	// every string up to maxLen over the bases plus two foreign bytes ('N'; 0x81 = 'a'+32, which the
	// case folding maps onto 'a'): lengths not divisible by 3 and foreign bytes must panic
	forAllStrings([]byte("aAcCgGtTN\x81"), maxLen, func(s []int) { tr(s) })
	// all 256 byte values at each codon position, first and second codon
	for b := 0; b < 256; b++ {
		for _, s := range [][]int{{b, 'C', 'g'}, {'a', b, 'T'}, {'G', 'c', b}, {'A', 'T', 'G', 't', b, 'a'}} {
			tr(s)
		}
	}
	// concatenation law on seeded pairs, and long translations
	for i := 0; i < nrand; i++ {
		la, lb := 3*r.Intn(100), 3*r.Intn(100)
		if i%6 == 0 {
			la = 3 * r.Intn(long/3)
		}
		if i%7 == 0 {
			lb = 0
		}
		a, b := randOver(r, []byte(lettersDNA), la), randOver(r, []byte(lettersDNA), lb)
		do(aminoReq{Op: "concat", A: a, Bs: b})
		s := randOver(r, []byte(lettersDNA), 3*r.Intn(long/3)+i%3) // two of three have a bad length
		if i%5 == 0 && len(s) > 0 {
			bad := []int{'N', 'n', 'U', 'u', 0, 255, 0x81, 0x83, '@', '[', '{', ' '}
			s = s[:len(s)/3*3]
			if len(s) > 0 {
				s[r.Intn(len(s))] = bad[r.Intn(len(bad))]
			}
		}
		tr(s)
	}
	// reading frames: every length 0..maxFrame, several sequences each, then long ones
	for ln := 0; ln <= maxFrame; ln++ {
		for j := 0; j < perLen; j++ {
			alpha := []byte(lettersDNA)
			if j%4 == 1 {
				alpha = []byte("ACGT")
			}
			do(aminoReq{Op: "frames", Seq: randOver(r, alpha, ln)})
			if ln == 0 {
				break
			}
		}
	}
	for i := 0; i < nrand/2; i++ {
		do(aminoReq{Op: "frames", Seq: randOver(r, []byte(lettersDNA), maxFrame+1+r.Intn(long))})
	}
	// short sequences with foreign bytes: a byte that belongs to no codon of any frame must not matter
	for ln := 1; ln <= 5; ln++ {
		for j := 0; j < 24; j++ {
			do(aminoReq{Op: "frames", Seq: randOver(r, []byte("ACGTacgtNn-\x00\xff"), ln)})
		}
	}
	for b := 0; b < 256; b++ {
		do(aminoReq{Op: "aminoname", B: b})
	}
	// the same questions in other orders (an answer must not depend on what was asked before): descending, then a seeded shuffle
	for b := 255; b >= 0; b-- {
		do(aminoReq{Op: "aminoname", B: b})
	}
	for _, b := range newRand(14700).Perm(256) {
		do(aminoReq{Op: "aminoname", B: b})
	}
	return tw.close()
}

func aminoExec(args []string) error {
	if err := need(args, 2, "amino-exec <requests.json> <out.ndjson>"); err != nil {
		return err
	}
	var reqs []aminoReq
	if err := readJSON(args[0], &reqs); err != nil {
		return err
	}
	tw, err := newTrace(args[1])
	if err != nil {
		return err
	}
	for _, r := range reqs {
		tw.emit(aminoCall(r))
	}
	return tw.close()
}
