package main

// C19 - newick.Node.PreOrder / PostOrder.
//   traverse-replay : leg R, every tree shape of the model built as real nodes, both iterators
//                     compared with the model's visit sequences
//   traverse-drive  : leg T, seeded random trees (up to 10^4 nodes) and very deep chains /
//                     caterpillars (10^5 - 10^6), one event per tree with the observed orders and the
//                     witnesses (subtree sizes from the harness's own parent table, inverse orders)

import (
	"strconv"

	"github.com/fluhus/biostuff/formats/newick"
)

func init() {
	register("traverse-replay", traverseReplay)
	register("traverse-drive", traverseDrive)
}

// travRealTree is a tree of real newick nodes plus the harness's own bookkeeping (ids 1..n, root 1).
type travRealTree struct {
	nodes []*newick.Node       // nodes[v], nodes[0] unused
	id    map[*newick.Node]int // pointer -> id
	// iterators of the root obtained while it had no children yet (an iter.Seq is a recipe: it is the tree at the time of the
	// pass that is traversed)
	earlyPre, earlyPost func(func(*newick.Node) bool)
	useEarly            bool
	panicked            bool // a traversal panicked
}

// travBuildTree makes real nodes from child lists (kids[v-1] = children of v in slice order).
func travBuildTree(kids [][]int) *travRealTree {
	n := len(kids)
	t := &travRealTree{nodes: make([]*newick.Node, n+1), id: make(map[*newick.Node]int, n)}
	for v := 1; v <= n; v++ {
		t.nodes[v] = &newick.Node{Name: "n" + strconv.Itoa(v), Distance: float64(v)}
		t.id[t.nodes[v]] = v
	}
	if n > 0 {
		t.earlyPre, t.earlyPost = t.nodes[1].PreOrder(), t.nodes[1].PostOrder()
	}
	for v := 1; v <= n; v++ {
		if len(kids[v-1]) == 0 {
			if v%3 == 0 {
				t.nodes[v].Children = []*newick.Node{} // an emptied, non-nil slice (e.g. after pruning in place)
			}
			continue // otherwise Children stays nil, as the parser leaves it for leaves
		}
		ch := make([]*newick.Node, len(kids[v-1]))
		for j, c := range kids[v-1] {
			ch[j] = t.nodes[c]
		}
		t.nodes[v].Children = ch
	}
	return t
}

// encode reads the structure back from the real nodes (0 for a pointer that is not a node of the tree;
// a changed name or distance shows as a negative id).
func (t *travRealTree) encode() [][]int {
	out := make([][]int, len(t.nodes)-1)
	for v := 1; v < len(t.nodes); v++ {
		ch := t.nodes[v].Children
		row := make([]int, len(ch))
		for j, c := range ch {
			row[j] = t.id[c]
			if c != nil && row[j] > 0 && (c.Name != "n"+strconv.Itoa(row[j]) || c.Distance != float64(row[j])) {
				row[j] = -row[j]
			}
		}
		out[v-1] = row
	}
	return out
}

// walk runs one of the real iterators and returns the ids in call order. The callback count is
// capped (an iterator that never ends would otherwise hang the driver): limit = 2n + 8.
func (t *travRealTree) walk(pre bool) []int {
	limit := 2*(len(t.nodes)-1) + 8
	out := make([]int, 0, len(t.nodes)-1)
	seq := t.nodes[1].PostOrder()
	if pre {
		seq = t.nodes[1].PreOrder()
	}
	if t.useEarly {
		seq = t.earlyPost
		if pre {
			seq = t.earlyPre
		}
	}
	if p, _ := catch(func() {
		seq(func(n *newick.Node) bool {
			out = append(out, t.id[n])
			return len(out) < limit
		})
	}); p {
		t.panicked = true
	}
	return out
}

// abandon: passes of both kinds given up after `at` nodes (what such a pass leaves behind must not matter to later ones)
func (t *travRealTree) abandon(at int) {
	for _, seq := range []func(func(*newick.Node) bool){t.nodes[1].PreOrder(), t.nodes[1].PostOrder()} {
		k := 0
		catch(func() {
			for range seq {
				if k++; k >= at {
					break
				}
			}
		})
	}
}

// ---------------------------------------------------------------- leg R

type travCase struct {
	Kids [][]int `json:"kids"`
	Pre  []int   `json:"pre"`
	Post []int   `json:"post"`
}

type travMismatch struct {
	Case int    `json:"case"`
	What string `json:"what"`
	Got  any    `json:"got"`
	Want any    `json:"want"`
}

func travSameNested(a, b [][]int) bool {
	if len(a) != len(b) {
		return false
	}
	for i := range a {
		if !regSameInts(a[i], b[i]) {
			return false
		}
	}
	return true
}

func traverseReplay(args []string) error {
	if err := need(args, 2, "traverse-replay <cases.json> <out.json>"); err != nil {
		return err
	}
	var cases []travCase
	if err := readJSON(args[0], &cases); err != nil {
		return err
	}
	var mm []travMismatch
	executed := 0
	for ci, c := range cases {
		t := travBuildTree(c.Kids)
		// twice each, interleaved: an iterator must leave nothing behind, in the tree or elsewhere
		for _, tag := range []string{"", "-second-run"} {
			if got := t.walk(true); !regSameInts(got, c.Pre) {
				mm = append(mm, travMismatch{ci, "preorder" + tag, got, c.Pre})
				break
			}
			executed++
			if got := t.encode(); !travSameNested(got, c.Kids) {
				mm = append(mm, travMismatch{ci, "tree-modified-by-preorder", got, c.Kids})
				break
			}
			if got := t.walk(false); !regSameInts(got, c.Post) {
				mm = append(mm, travMismatch{ci, "postorder" + tag, got, c.Post})
				break
			}
			executed++
			if got := t.encode(); !travSameNested(got, c.Kids) {
				mm = append(mm, travMismatch{ci, "tree-modified-by-postorder", got, c.Kids})
				break
			}
		}
	}
	return writeJSON(args[1], map[string]any{"executed": executed, "mismatches": mm})
}

// ---------------------------------------------------------------- leg T

type travEvent struct {
	Sid    int     `json:"sid"`
	Kind   string  `json:"kind"`
	N      int     `json:"n"`
	Direct bool    `json:"direct"` // judged against the recursive definitions as well (see below)
	Kids   [][]int `json:"kids"`   // the real tree before the traversals
	After  [][]int `json:"after"`  // the real tree after them
	Pre    []int   `json:"pre"`    // ids yielded by PreOrder, in call order
	Post   []int   `json:"post"`
	Size   []int   `json:"size"` // witnesses: subtree sizes (from the harness's parent table) ...
	Pos    []int   `json:"pos"`  // ... and where each node was seen in pre (0: never)
	Ppos   []int   `json:"ppos"` // ... and in post
	// re-entrancy (small trees): one iter.Seq value iterated while another pass over the same value is in progress
	Panic  bool  `json:"panic"` // one of the passes panicked
	Nested bool  `json:"nested"`
	NPre   []int `json:"npre"`   // outer PreOrder pass, a complete inner pass over the same value at every step
	NPost  []int `json:"npost"`  // the same for PostOrder
	NInner []int `json:"ninner"` // the inner PreOrder pass made at the last outer step
}

// nestedWalk iterates seq and, at every step, runs a complete inner pass over the same seq value.
func (t *travRealTree) nestedWalk(seq func(func(*newick.Node) bool)) (outer, lastInner []int) {
	limit := 2*(len(t.nodes)-1) + 8
	outer = []int{}
	lastInner = []int{}
	catch(func() {
		seq(func(n *newick.Node) bool {
			outer = append(outer, t.id[n])
			inner := []int{}
			seq(func(m *newick.Node) bool {
				inner = append(inner, t.id[m])
				return len(inner) < limit
			})
			lastInner = inner
			return len(outer) < limit
		})
	})
	return
}

// travGen returns the parent table of session sid in creation order (parent[c] < c, parent[1] = 0),
// the position at which each node is inserted among its parent's children, and whether ids are permuted.
type travShape struct {
	kind   string
	kids   [][]int // by id
	parent []int   // by id
	order  []int   // ids in creation order (parents first)
}

func travGen(sid int, chain int) travShape {
	r := newRand(int64(sid) + 19000)
	kinds := []string{"recursive", "deepish", "star", "binary", "single", "broom", "recursive-big", "caterpillar", "deepish-big", "wide-levels"}
	kind := kinds[sid%len(kinds)]
	if sid >= 9000 { // the very deep ones
		kind = []string{"chain", "deep-caterpillar", "deep-broom", "wide-star"}[sid-9000]
	}
	small := 1 + r.Intn(300)
	big := 2000 + r.Intn(8001)
	if sid%10 == 6 {
		big = 10000
	}
	var n int
	// parent in creation order, and insertion position among the siblings (-1: append)
	var par []int
	var at []int
	add := func(p, where int) int {
		par = append(par, p)
		at = append(at, where)
		return len(par) - 1
	}
	par, at = []int{0, 0}, []int{0, 0} // index 0 unused, node 1 is the root
	deg := []int{0, 0}
	grow := func(p int, random bool) int {
		w := -1
		if random {
			w = r.Intn(deg[p] + 1)
		}
		c := add(p, w)
		deg[p]++
		deg = append(deg, 0)
		return c
	}
	permute := true
	switch kind {
	case "single":
		n = 1
	case "recursive", "recursive-big":
		n = small
		if kind == "recursive-big" {
			n = big
		}
		for c := 2; c <= n; c++ {
			grow(1+r.Intn(c-1), true)
		}
	case "deepish", "deepish-big": // attach near the youngest nodes: depth grows linearly
		n = small
		if kind == "deepish-big" {
			n = big
		}
		for c := 2; c <= n; c++ {
			back := r.Intn(4)
			p := c - 1 - back
			if p < 1 {
				p = 1
			}
			grow(p, true)
		}
	case "star":
		n = small
		for c := 2; c <= n; c++ {
			grow(1, true)
		}
	case "binary":
		n = small
		for c := 2; c <= n; c++ {
			grow(c/2, false)
		}
	case "broom": // a chain ending in a fan
		n = small + 2
		h := n / 2
		for c := 2; c <= n; c++ {
			if c <= h {
				grow(c-1, false)
			} else {
				grow(h, true)
			}
		}
	case "caterpillar": // a spine, every spine node with leaves before and after the next spine node
		n = small + 3
		spine := 1
		for c := 2; c <= n; c++ {
			if r.Intn(3) == 0 {
				spine = grow(spine, true)
			} else {
				grow(spine, true)
			}
		}
	case "wide-levels":
		n = big / 4
		level := []int{1}
		c := 2
		for c <= n {
			var next []int
			for _, p := range level {
				k := r.Intn(6)
				for j := 0; j < k && c <= n; j++ {
					next = append(next, grow(p, true))
					c++
				}
			}
			if len(next) == 0 {
				next = append(next, grow(level[r.Intn(len(level))], true))
				c++
			}
			level = next
		}
	case "wide-star": // one node with more children than any 16-bit counter holds, hanging below a short spine
		n = 70010
		permute = false
		for c := 2; c <= 5; c++ {
			grow(c-1, false)
		}
		for c := 6; c <= n; c++ {
			grow(3, false)
		}
	case "chain":
		n = chain
		permute = false
		for c := 2; c <= n; c++ {
			grow(c-1, false)
		}
	case "deep-caterpillar": // spine of n/2, each spine node has one leaf, before or after the spine child
		n = chain
		permute = false
		spine := 1
		for c := 2; c+1 <= n; c += 2 {
			if r.Intn(2) == 0 {
				grow(spine, false)
				spine = grow(spine, false)
			} else {
				s := grow(spine, false)
				grow(spine, false)
				spine = s
			}
		}
		n = len(par) - 1
	case "deep-broom": // chain of n/2 with a fan of n/2 leaves at the bottom
		n = chain
		permute = false
		h := n / 2
		for c := 2; c <= n; c++ {
			if c <= h {
				grow(c-1, false)
			} else {
				grow(h, false)
			}
		}
	}
	n = len(par) - 1
	// ids: creation index -> id, root stays 1
	id := make([]int, n+1)
	for c := range id {
		id[c] = c
	}
	if permute && n > 2 {
		p := r.Perm(n - 1)
		for c := 2; c <= n; c++ {
			id[c] = p[c-2] + 2
		}
	}
	s := travShape{kind: kind, kids: make([][]int, n), parent: make([]int, n+1), order: make([]int, n)}
	for v := range s.kids {
		s.kids[v] = []int{}
	}
	for c := 1; c <= n; c++ {
		s.order[c-1] = id[c]
		if c == 1 {
			continue
		}
		p := id[par[c]]
		s.parent[id[c]] = p
		row := s.kids[p-1]
		w := at[c]
		if w < 0 || w >= len(row) {
			row = append(row, id[c])
		} else {
			row = append(row, 0)
			copy(row[w+1:], row[w:])
			row[w] = id[c]
		}
		s.kids[p-1] = row
	}
	return s
}

func travInversePositions(seq []int, n int) []int {
	pos := make([]int, n)
	for k, v := range seq {
		if v >= 1 && v <= n {
			pos[v-1] = k + 1
		}
	}
	return pos
}

func traverseDrive(args []string) error {
	if err := need(args, 3, "traverse-drive <out.ndjson> <sessions> <deep-nodes> [only-sid]"); err != nil {
		return err
	}
	sessions, _ := strconv.Atoi(args[1])
	chain, _ := strconv.Atoi(args[2])
	only := -1
	if len(args) > 3 {
		only, _ = strconv.Atoi(args[3])
	}
	tw, err := newTrace(args[0])
	if err != nil {
		return err
	}
	sids := []int{}
	for sid := 0; sid < sessions; sid++ {
		sids = append(sids, sid)
	}
	if chain > 0 {
		sids = append(sids, 9000, 9001, 9002, 9003)
	}
	for _, sid := range sids {
		if only >= 0 && sid != only {
			continue
		}
		s := travGen(sid, chain)
		n := len(s.kids)
		t := travBuildTree(s.kids)
		// the recursive definitions Pre / Post cost the specification O(n * depth) sequence copying:
		// they are evaluated as well (besides the witness form) where that product is moderate
		depth, maxDepth := make([]int, n+1), 0
		for _, v := range s.order {
			depth[v] = depth[s.parent[v]] + 1
			maxDepth = max(maxDepth, depth[v])
		}
		ev := travEvent{Sid: sid, Kind: s.kind, N: n, Direct: n <= 10000 && n*maxDepth <= 10000000}
		ev.Kids = t.encode()
		t.useEarly = sid%3 == 1
		if sid%2 == 0 { // earlier passes that were given up part-way
			t.abandon(1)
			t.abandon(1 + n/2)
			t.abandon(n)
		}
		ev.Pre = t.walk(true)
		ev.Post = t.walk(false)
		ev.NPre, ev.NPost, ev.NInner = []int{}, []int{}, []int{}
		if n <= 40 {
			ev.Nested = true
			ev.NPre, ev.NInner = t.nestedWalk(t.nodes[1].PreOrder())
			ev.NPost, _ = t.nestedWalk(t.nodes[1].PostOrder())
		}
		ev.After = t.encode()
		ev.Panic = t.panicked
		// subtree sizes from the harness's own parent table: children were created after their parents
		size := make([]int, n+1)
		for k := n - 1; k >= 0; k-- {
			v := s.order[k]
			size[v]++
			if s.parent[v] > 0 {
				size[s.parent[v]] += size[v]
			}
		}
		ev.Size = size[1:]
		ev.Pos = travInversePositions(ev.Pre, n)
		ev.Ppos = travInversePositions(ev.Post, n)
		tw.emit(ev)
	}
	return tw.close()
}
