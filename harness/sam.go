package main

import (
	"bytes"
	"io"
	"math"
	"math/rand"
	"sort"
	"strconv"
	"strings"

	"github.com/fluhus/biostuff/formats/sam"
)

func init() {
	register("sam-drive", samDrive)
	register("sam-replay", samReplay)
	register("samflag-replay", samFlagReplay)
}

// ---------------------------------------------------------------- projection
type samTag struct {
	Key  []int  `json:"key"`
	Ty   []int  `json:"ty"`   // one byte: A i f Z H
	Val  []int  `json:"val"`  // A: the byte; i: decimal text; f: FormatFloat('e',-1); Z: bytes; H: decoded bytes
	Atom string `json:"atom"` // f only: float64 bits (NaN one atom)
}

type samItem struct {
	K    string   `json:"k"` // rec | hdr | err
	Text []int    `json:"text"`
	F    [][]int  `json:"f"`
	Tags []samTag `json:"tags"`
}

func floatAtom(x float64) string {
	if math.IsNaN(x) {
		return "nan"
	}
	return strconv.FormatUint(math.Float64bits(x), 16)
}

func samProject(s *sam.SAM) samItem {
	it := samItem{K: "rec", Text: []int{}, Tags: []samTag{}}
	it.F = [][]int{sints(s.Qname), sints(strconv.Itoa(int(s.Flag))), sints(s.Rname), sints(strconv.Itoa(s.Pos)),
		sints(strconv.Itoa(s.Mapq)), sints(s.Cigar), sints(s.Rnext), sints(strconv.Itoa(s.Pnext)),
		sints(strconv.Itoa(s.Tlen)), sints(s.Seq), sints(s.Qual)}
	keys := make([]string, 0, len(s.Tags))
	for k := range s.Tags {
		keys = append(keys, k)
	}
	sort.Strings(keys)
	for _, k := range keys {
		t := samTag{Key: sints(k)}
		switch v := s.Tags[k].(type) {
		case byte:
			t.Ty, t.Val = sints("A"), []int{int(v)}
		case int:
			t.Ty, t.Val = sints("i"), sints(strconv.Itoa(v))
		case float64:
			t.Ty, t.Val, t.Atom = sints("f"), sints(strconv.FormatFloat(v, 'e', -1, 64)), floatAtom(v)
		case string:
			t.Ty, t.Val = sints("Z"), sints(v)
		case []byte:
			t.Ty, t.Val = sints("H"), ints(v)
		default:
			t.Ty, t.Val = sints("?"), []int{}
		}
		it.Tags = append(it.Tags, t)
	}
	return it
}

var samErrItem = samItem{K: "err", Text: []int{}, F: [][]int{}, Tags: []samTag{}}

func samHdrItem(h string) samItem {
	return samItem{K: "hdr", Text: sints(h), F: [][]int{}, Tags: []samTag{}}
}

const samCap = 5000

// samRead: item sequence of ReaderHeader (mode "header") or Reader (mode "records").
// samScribble: the consumer edits the record it was given (adds a tag, overwrites byte-array values): nothing of that may show in
// any other record, now or in a later read
func samScribble(s *sam.SAM) {
	if s.Tags != nil {
		for _, v := range s.Tags {
			if b, ok := v.([]byte); ok {
				for i := range b {
					b[i] = 0x5a
				}
			}
		}
		s.Tags["ZZ"] = 1
		s.Tags["zy"] = "scribbled"
	}
}

func samRead(data []byte, mode string) (items []samItem, panicked bool, capped bool) {
	items = []samItem{}
	panicked, _ = catch(func() {
		if failedReadsFirst { // (one malformed text before each recorded read, in turn: a pool hands back what was put last)
			ts := malformedTexts["sam"]
			t := ts[malformedNext%len(ts)]
			malformedNext++
			for range sam.Reader(strings.NewReader(t)) {
			}
		}
		if mode == "header" {
			for sh, err := range sam.ReaderHeader(deliver(data)) {
				switch {
				case err != nil:
					items = append(items, samErrItem)
				case sh.H != nil && sh.S == nil:
					items = append(items, samHdrItem(*sh.H))
				case sh.S != nil && sh.H == nil:
					items = append(items, samProject(sh.S))
					samScribble(sh.S)
				default:
					items = append(items, samItem{K: "neither", Text: []int{}, F: [][]int{}, Tags: []samTag{}})
				}
				if len(items) > samCap {
					capped = true
					break
				}
			}
		} else {
			for s, err := range sam.Reader(deliver(data)) {
				if err != nil {
					items = append(items, samErrItem)
				} else {
					items = append(items, samProject(s))
					samScribble(s)
				}
				if len(items) > samCap {
					capped = true
					break
				}
			}
		}
	})
	return
}

func samTagEq(a, b samTag, floatsByText bool) bool {
	if !bytes.Equal(unints(a.Key), unints(b.Key)) || !bytes.Equal(unints(a.Ty), unints(b.Ty)) {
		return false
	}
	if string(unints(a.Ty)) == "f" && !floatsByText {
		return a.Atom == b.Atom
	}
	return bytes.Equal(unints(a.Val), unints(b.Val))
}

func samItemEq(a, b samItem, floatsByText bool) bool {
	if a.K != b.K || !bytes.Equal(unints(a.Text), unints(b.Text)) || len(a.F) != len(b.F) || len(a.Tags) != len(b.Tags) {
		return false
	}
	for i := range a.F {
		if !bytes.Equal(unints(a.F[i]), unints(b.F[i])) {
			return false
		}
	}
	for i := range a.Tags {
		if !samTagEq(a.Tags[i], b.Tags[i], floatsByText) {
			return false
		}
	}
	return true
}

// samFloatTokens: every "x:y:value" field value that strconv.ParseFloat accepts (float syntax is strconv's job;
// the specification asks this table whether an f tag's value is a number).
func samFloatTokens(data []byte) [][]int {
	seen := map[string]bool{}
	out := [][]int{}
	for _, line := range bytes.Split(data, []byte("\n")) {
		line = bytes.TrimSuffix(line, []byte("\r"))
		for _, f := range bytes.Split(line, []byte("\t")) {
			c1 := bytes.IndexByte(f, ':')
			if c1 < 0 {
				continue
			}
			c2 := bytes.IndexByte(f[c1+1:], ':')
			if c2 < 0 {
				continue
			}
			v := string(f[c1+1+c2+1:])
			if seen[v] {
				continue
			}
			seen[v] = true
			if _, err := strconv.ParseFloat(v, 64); err == nil {
				out = append(out, sints(v))
			}
		}
	}
	return out
}

// ---------------------------------------------------------------- leg R: model texts
type samModelTag struct {
	Key []int `json:"key"`
	Ty  []int `json:"ty"`
	Val []int `json:"val"`
}
type samModelItem struct {
	K    string        `json:"k"`
	Text []int         `json:"text"`
	F    [][]int       `json:"f"`
	Tags []samModelTag `json:"tags"`
}
type samCase struct {
	Text  []int          `json:"text"`
	Items []samModelItem `json:"items"`
	Mode  string         `json:"mode"`
}

func samReplay(args []string) error {
	if err := need(args, 2, "sam-replay <cases.json> <out.json>"); err != nil {
		return err
	}
	var cases []samCase
	if err := readJSON(args[0], &cases); err != nil {
		return err
	}
	var mm []mismatch
	n := 0
	for i, c := range cases {
		want := []samItem{}
		for _, m := range c.Items {
			it := samItem{K: m.K, Text: m.Text, F: m.F, Tags: []samTag{}}
			if it.Text == nil {
				it.Text = []int{}
			}
			if it.F == nil {
				it.F = [][]int{}
			}
			for _, t := range m.Tags {
				it.Tags = append(it.Tags, samTag{Key: t.Key, Ty: t.Ty, Val: t.Val})
			}
			want = append(want, it)
		}
		for _, mode := range []string{"header", "records"} {
			n++
			w := want
			if mode == "records" {
				w = []samItem{}
				for _, it := range want {
					if it.K != "hdr" {
						w = append(w, it)
					}
				}
			}
			got, panicked, capped := samRead(unints(c.Text), mode)
			ok := !panicked && !capped && len(got) == len(w)
			for k := 0; ok && k < len(got); k++ {
				ok = samItemEq(got[k], w[k], true)
			}
			if !ok {
				mm = append(mm, mismatch{i, mode, "items-differ", map[string]any{"items": got, "panic": panicked}, w})
			}
		}
	}
	return writeJSON(args[1], map[string]any{"executed": n, "mismatches": mm})
}

// ---------------------------------------------------------------- leg R: flag transitions
type flagEdge struct {
	F    int      `json:"f"`
	Name string   `json:"name"`
	V    bool     `json:"v"`
	F2   int      `json:"f2"`
	On2  []string `json:"on2"`
}

var flagSetters = map[string]func(*sam.Flag, bool){
	"Multiple": (*sam.Flag).SetMultiple, "Each": (*sam.Flag).SetEach, "Unmapped": (*sam.Flag).SetUnmapped,
	"Unmapped2": (*sam.Flag).SetUnmapped2, "ReverseComplement": (*sam.Flag).SetReverseComplement,
	"ReverseComplement2": (*sam.Flag).SetReverseComplement2, "First": (*sam.Flag).SetFirst, "Last": (*sam.Flag).SetLast,
	"Secondary": (*sam.Flag).SetSecondary, "NotPassing": (*sam.Flag).SetNotPassing, "Duplicate": (*sam.Flag).SetDuplicate,
	"Supplementary": (*sam.Flag).SetSupplementary,
}
var flagGetters = map[string]func(sam.Flag) bool{
	"Multiple": sam.Flag.Multiple, "Each": sam.Flag.Each, "Unmapped": sam.Flag.Unmapped, "Unmapped2": sam.Flag.Unmapped2,
	"ReverseComplement": sam.Flag.ReverseComplement, "ReverseComplement2": sam.Flag.ReverseComplement2,
	"First": sam.Flag.First, "Last": sam.Flag.Last, "Secondary": sam.Flag.Secondary, "NotPassing": sam.Flag.NotPassing,
	"Duplicate": sam.Flag.Duplicate, "Supplementary": sam.Flag.Supplementary,
}

func samFlagReplay(args []string) error {
	if err := need(args, 2, "samflag-replay <edges.json> <out.json>"); err != nil {
		return err
	}
	var edges []flagEdge
	if err := readJSON(args[0], &edges); err != nil {
		return err
	}
	var mm []mismatch
	for i, e := range edges {
		f := sam.Flag(e.F)
		flagSetters[e.Name](&f, e.V)
		if int(f) != e.F2 {
			mm = append(mm, mismatch{i, "setter", "Set" + e.Name, int(f), e.F2})
			continue
		}
		on := map[string]bool{}
		for _, n := range e.On2 {
			on[n] = true
		}
		for n, g := range flagGetters {
			if g(sam.Flag(e.F2)) != on[n] {
				mm = append(mm, mismatch{i, "getter", n, !on[n], on[n]})
				break
			}
		}
	}
	return writeJSON(args[1], map[string]any{"executed": len(edges), "mismatches": mm})
}

// ---------------------------------------------------------------- leg T
type samEvent struct {
	Sid     int       `json:"sid"`
	Op      string    `json:"op"` // write | read
	Mode    string    `json:"mode"`
	Rec     samItem   `json:"rec"`
	BW      []int     `json:"bw"`
	BM      []int     `json:"bm"`
	WErr    bool      `json:"werr"`
	Bytes   []int     `json:"bytes"`
	Floats  [][]int   `json:"floats"`
	HasWant bool      `json:"haswant"`
	Want    []samItem `json:"want"`
	Items   []samItem `json:"items"`
	Panic   bool      `json:"panic"`
	Iso     int       `json:"iso"`   // > 0: line iso (position among the items of this mode) was replaced by a malformed line
	Clean   []int     `json:"clean"` // the file before the corruption
	CKind   string    `json:"ckind"`
}

// words that mean something in SAM files (placeholders, header tags): as field values they are ordinary text
var samWords = []string{"*", "=", "@HD", "@CO", "0", "255", "chr1", "NA", ".", "SO:coordinate", "XX:Z:x", "*AS"}

func samText(r *rand.Rand, allowLeadAt bool) string {
	if r.Intn(8) == 0 {
		if w := samWords[r.Intn(len(samWords))]; allowLeadAt || w[0] != '@' {
			return w
		}
	}
	n := r.Intn(12)
	if r.Intn(6) == 0 {
		n = 0
	}
	b := make([]byte, n)
	for i := range b {
		for {
			var c byte
			switch r.Intn(4) {
			case 0:
				c = byte(r.Intn(256))
			case 1:
				c = "\"\"'@:;,* =#\\\x00\xff\x80\v\f"[r.Intn(17)]
			default:
				c = "ACGTNacgt0123456789MIDS!~FJ"[r.Intn(27)]
			}
			if c != '\t' && c != '\n' && c != '\r' {
				b[i] = c
				break
			}
		}
	}
	if n > 0 && r.Intn(5) == 0 {
		b[0] = '"' // quote-leading field
	}
	if n > 1 && r.Intn(8) == 0 {
		b[n-1] = '"'
	}
	if !allowLeadAt && n > 0 && b[0] == '@' {
		b[0] = 'q'
	}
	return string(b)
}

func samInt(r *rand.Rand) int {
	switch r.Intn(10) {
	case 0:
		return 0
	case 1:
		return 1
	case 2:
		return -1
	case 3:
		return math.MaxInt32
	case 4:
		return math.MinInt32
	case 5:
		return math.MaxInt64
	case 6:
		return math.MinInt64
	case 7:
		return math.MaxInt32 + 1
	default:
		return r.Intn(100000) - 1000
	}
}

func samFloat(r *rand.Rand) float64 {
	switch r.Intn(10) {
	case 0:
		return math.NaN()
	case 1:
		return math.Inf(1)
	case 2:
		return math.Inf(-1)
	case 3:
		return math.Copysign(0, -1)
	case 4:
		return 5e-324
	case 5:
		return math.Float64frombits(r.Uint64())
	case 6:
		return 0
	case 7:
		return 3.1415
	case 8: // values that are exactly representable as float32 (a narrower format round-trips THEM, and only them)
		return float64(float32([]float64{0.1, 3.1415, 1e-3, 12345.678, 2.5e10}[r.Intn(5)]))
	default:
		return float64(r.Intn(2000)-1000) / 16
	}
}

// samLong: a record whose line is longer than bufio's 4096-byte buffer / than 64 KiB (long reads)
func samLong(r *rand.Rand, n int) *sam.SAM {
	s := samRecord(r)
	b := make([]byte, n)
	for i := range b {
		b[i] = "ACGT"[r.Intn(4)]
	}
	s.Seq = string(b)
	for i := range b {
		b[i] = byte(33 + r.Intn(94))
	}
	s.Qual = string(b)
	return s
}

// samExact: a record whose written line (without the terminator) is exactly n bytes long
func samExact(r *rand.Rand, n int) *sam.SAM {
	s := samRecord(r)
	s.Seq, s.Qual = "", "*"
	b := &bytes.Buffer{}
	s.Write(b)
	pad := n - (b.Len() - 1)
	if pad < 0 {
		return samLong(r, n)
	}
	seq := make([]byte, pad)
	for i := range seq {
		seq[i] = "ACGT"[r.Intn(4)]
	}
	s.Seq = string(seq)
	return s
}

func samRecord(r *rand.Rand) *sam.SAM {
	s := &sam.SAM{Qname: samText(r, false), Flag: sam.Flag(samInt(r)), Rname: samText(r, true), Pos: samInt(r), Mapq: samInt(r),
		Cigar: samText(r, true), Rnext: samText(r, true), Pnext: samInt(r), Tlen: samInt(r), Seq: samText(r, true), Qual: samText(r, true),
		Tags: map[string]any{}}
	if r.Intn(4) == 0 {
		s.Flag = sam.Flag(r.Intn(4096))
	}
	nt := r.Intn(9)
	if r.Intn(3) == 0 {
		nt = 0
	}
	const k1 = "ABXYZabn"
	const k2 = "ABCZaz019"
	klen := []int{2, 2, 2, 2, 3, 3, 1, 4}[r.Intn(8)] // all keys of a record have one length (two in the SAM specification)
	for i := 0; i < nt; i++ {
		kb := []byte{k1[r.Intn(len(k1))], k2[r.Intn(len(k2))], k2[r.Intn(len(k2))], k1[r.Intn(len(k1))]}
		if klen >= 3 && r.Intn(2) == 0 {
			kb[0], kb[1] = 'X', 'Y' // long keys that share their first two characters
		}
		key := string(kb[:klen])
		switch r.Intn(5) {
		case 0:
			s.Tags[key] = byte(32 + r.Intn(95))
		case 1:
			s.Tags[key] = samInt(r)
		case 2:
			s.Tags[key] = samFloat(r)
		case 3:
			s.Tags[key] = samText(r, true)
		default:
			b := make([]byte, r.Intn(6))
			r.Read(b)
			s.Tags[key] = b
		}
	}
	return s
}

func samHeader(r *rand.Rand) string {
	h := []string{"@HD\tVN:1.6\tSO:coordinate", "@SQ\tSN:chr1\tLN:248956422", "@CO\t\"hello\" x", "@", "@PG\tID:x\tCL:\"a b\" -c",
		"@CO\tit's \"quoted", "@RG\tID:\x00\xff"}
	return h[r.Intn(len(h))]
}

func samDrive(args []string) error {
	if err := need(args, 2, "sam-drive <out.ndjson> <sessions> [only-sid]"); err != nil {
		return err
	}
	sessions, _ := strconv.Atoi(args[1])
	only := -1
	if len(args) > 2 {
		only, _ = strconv.Atoi(args[2])
	}
	tw, err := newTrace(args[0])
	if err != nil {
		return err
	}
	empty := samItem{K: "none", Text: []int{}, F: [][]int{}, Tags: []samTag{}}
	for sid := 0; sid < sessions; sid++ {
		if only >= 0 && sid != only {
			continue
		}
		r := newRand(int64(sid) + 3000)
		readDelivery = []int{0, 0, 1, 0, 2, 3}[sid%6]
		failedReadsFirst = sid%3 == 2
		nh, nr := r.Intn(6), r.Intn(21)
		if sid%4 == 0 {
			nr = r.Intn(4)
		}
		if sid%8 == 6 {
			nr = 6 + r.Intn(10)
		}
		if sid == 7 {
			nr = len(samEdgeBytes)
		}
		var file []byte
		want := []samItem{}
		crlf := r.Intn(4) == 0
		// sessions with long lines: two in eight among the first 160 sessions (each of their events carries the whole file: the trace
		// of a run with thousands of sessions would not fit in TLC's memory otherwise)
		long1, long5 := sid%8 == 1 && sid < 160, sid%8 == 5 && sid < 160
		if long1 || long5 { // a header line can be long, too (4 KiB / 64 KiB buffers; exact powers of two)
			nh = max(nh, 1)
		}
		for i := 0; i < nh; i++ {
			h := samHeader(r)
			if (long1 || long5) && i == nh-1 {
				n := []int{5000, 4096, 33000, 65536, 70000, 8192}[(sid/8)%6]
				h = "@CO\t" + strings.Repeat("h", n-4)
			}
			file = append(file, h...)
			if crlf {
				file = append(file, '\r')
			}
			file = append(file, '\n')
			want = append(want, samHdrItem(h))
		}
		type held struct {
			ev samEvent
			bm []byte
		}
		var hs []held // MarshalText results are looked at only after all records were marshalled and written
		for i := 0; i < nr; i++ {
			s := samRecord(r)
			if sid == 7 { // every byte value next to a field separator, in turn (this session has 253 records)
				v := samEdgeBytes[i%len(samEdgeBytes)]
				s.Qname, s.Rname, s.Cigar = "q"+string([]byte{v}), string([]byte{v})+"r", string([]byte{v})
				s.Seq, s.Qual = string([]byte{v, v}), "x"+string([]byte{v})
			}
			if long1 && i == nr/2 {
				s = samLong(r, []int{2500, 33000, 70000}[(sid/8)%3])
			}
			if sid%8 == 6 { // reference names that collide under common string hashes, in turn
				cn := collidingNames()
				pr := cn[(sid/8)%len(cn)]
				s.Rname, s.Rnext = pr[i%2], pr[(i/2)%2]
				if i%5 == 4 {
					s.Qname = pr[(i/5)%2]
				}
			}
			if long5 && i == nr/2 { // lines of exactly a power of two bytes (one less under CRLF: the CR makes it up)
				sizes := []int{4096, 32768, 65536}
				if thorough() {
					sizes = []int{4096, 8192, 32768, 65536, 131072, 262144}
				}
				n := sizes[(sid/8)%len(sizes)]
				if crlf {
					n--
				}
				s = samExact(r, n)
			}
			before := samProject(s)
			ev := samEvent{Sid: sid, Op: "write", Mode: "write", Rec: before, Bytes: []int{}, Floats: [][]int{}, Want: []samItem{}, Items: []samItem{}, Clean: []int{}}
			buf := &bytes.Buffer{}
			if sid%4 == 1 {
				failedWriteFirst(s.Write)
			}
			ev.Panic, _ = catch(func() { ev.WErr = s.Write(buf) != nil })
			var bm []byte
			p2, _ := catch(func() {
				var err error
				if bm, err = s.MarshalText(); err != nil {
					ev.WErr = true
				}
			})
			if p2 || !samItemEq(before, samProject(s), false) {
				ev.Panic = true
			}
			ev.BW = ints(buf.Bytes())
			hs = append(hs, held{ev, bm})
			line := buf.Bytes()
			if crlf {
				line = []byte(strings.Replace(string(line), "\n", "\r\n", 1))
			}
			file = append(file, line...)
			want = append(want, before)
		}
		catch(func() { x := samRecord(newRand(int64(sid) + 99991)); x.MarshalText(); x.Write(io.Discard) }) // one more call after the last record
		for _, h := range hs {
			h.ev.BM = ints(h.bm)
			tw.emit(h.ev)
		}
		for _, mode := range []string{"header", "records"} {
			ev := samEvent{Sid: sid, Op: "read", Mode: mode, Rec: empty, BW: []int{}, BM: []int{}, Bytes: ints(file),
				Floats: samFloatTokens(file), HasWant: true, Clean: []int{}}
			ev.Want = want
			if mode == "records" {
				ev.Want = []samItem{}
				for _, it := range want {
					if it.K != "hdr" {
						ev.Want = append(ev.Want, it)
					}
				}
			}
			var capped bool
			ev.Items, ev.Panic, capped = samRead(file, mode)
			if capped {
				ev.Panic = true
			}
			tw.emit(ev)
		}
		// SAM isolation (C11): every record line x every kind of single-line corruption
		if sid%2 == 0 && nr > 0 && nr <= 6 && len(file) < 20000 {
			lines := bytes.Split(bytes.TrimSuffix(file, []byte("\n")), []byte("\n"))
			for li, ln := range lines {
				ln = bytes.TrimSuffix(ln, []byte("\r"))
				if len(ln) == 0 || ln[0] == '@' {
					continue
				}
				for _, kind := range samCorruptions {
					bad := samCorruptLine(r, ln, kind)
					if bad == nil {
						continue
					}
					cl := make([][]byte, len(lines))
					copy(cl, lines)
					cl[li] = bad
					cfile := append(bytes.Join(cl, []byte("\n")), '\n')
					for _, mode := range []string{"header", "records"} {
						pos := 0
						for k := 0; k <= li; k++ {
							t := bytes.TrimSuffix(lines[k], []byte("\r"))
							if len(t) > 0 && (mode == "header" || t[0] != '@') {
								pos++
							}
						}
						ev := samEvent{Sid: sid, Op: "read", Mode: mode, Rec: empty, BW: []int{}, BM: []int{}, Bytes: ints(cfile),
							Floats: samFloatTokens(append(append([]byte{}, file...), cfile...)), Want: []samItem{}, Iso: pos, Clean: ints(file), CKind: kind}
						var capped bool
						ev.Items, ev.Panic, capped = samRead(cfile, mode)
						if capped {
							ev.Panic = true
						}
						tw.emit(ev)
					}
				}
			}
		}
	}
	return tw.close()
}

// tokens that are not decimal integers but that a hand-written or lenient parser may let through: a lone sign, two signs, a sign in
// the wrong place, blanks, digit separators, exponents, other bases, digits of other scripts, values beyond int64
var samJunkInts = []string{"x", "", "-", "+", "1.5", "12a", "--1", "+-1", "1-", "0x10", " 1", "1 ", "1_0", "1e3", "0b1", "\u0663", "\u0661\u0662",
	"9223372036854775808", "-9223372036854775809", "1,0", "\u22121", "NaN"}
var samJunkNext int

// every byte value a text field may hold (all but TAB, LF, CR)
var samEdgeBytes = func() []byte {
	var out []byte
	for v := 0; v < 256; v++ {
		if v != '\t' && v != '\n' && v != '\r' {
			out = append(out, byte(v))
		}
	}
	return out
}()

var samCorruptions = []string{"few-fields", "int-flag", "int-pos", "int-mapq", "int-pnext", "int-tlen", "tag-one-colon", "tag-no-colon",
	"tag-unknown-type", "tag-A-empty", "tag-A-two", "tag-i-text", "tag-H-odd", "tag-H-nonhex", "tag-f-text", "only-blanks"}

// samCorruptLine makes one alignment line malformed in the given way (nil: not applicable).
func samCorruptLine(r *rand.Rand, line []byte, kind string) []byte {
	f := bytes.Split(line, []byte("\t"))
	if len(f) < 11 {
		return nil
	}
	cp := func() [][]byte { return append([][]byte{}, f...) }
	join := func(x [][]byte) []byte { return bytes.Join(x, []byte("\t")) }
	setInt := func(i int) []byte {
		x := cp()
		x[i] = []byte(samJunkInts[samJunkNext%len(samJunkInts)]) // every token in turn
		samJunkNext++
		return join(x)
	}
	addTag := func(t string) []byte {
		x := cp()
		p := 11 + r.Intn(len(x)-10)
		x = append(x[:p:p], append([][]byte{[]byte(t)}, x[p:]...)...)
		return join(x)
	}
	switch kind {
	case "only-blanks": // not empty, but nothing in it: a malformed line like any other
		return [][]byte{[]byte("\t\t\t"), []byte(" "), []byte("\t\t\t\t\t\t\t\t\t\t"), []byte("  \t ")}[r.Intn(4)]
	case "few-fields":
		cut := join(f[:1+r.Intn(10)])
		if len(cut) == 0 {
			return nil // an empty line is skipped, not malformed
		}
		return cut
	case "int-flag":
		return setInt(1)
	case "int-pos":
		return setInt(3)
	case "int-mapq":
		return setInt(4)
	case "int-pnext":
		return setInt(7)
	case "int-tlen":
		return setInt(8)
	case "tag-one-colon":
		return addTag("XQ:Z")
	case "tag-no-colon":
		return addTag("XQ")
	case "tag-unknown-type":
		return addTag("XQ:" + string("Qzb1 "[r.Intn(5)]) + ":1")
	case "tag-A-empty":
		return addTag("XQ:A:")
	case "tag-A-two":
		return addTag("XQ:A:ab")
	case "tag-i-text":
		samJunkNext++
		return addTag("XQ:i:" + samJunkInts[samJunkNext%len(samJunkInts)])
	case "tag-H-odd":
		return addTag("XQ:H:abc")
	case "tag-H-nonhex":
		return addTag("XQ:H:zz")
	case "tag-f-text":
		return addTag("XQ:f:" + []string{"x", "", "1.5.2", "--1"}[r.Intn(4)])
	}
	return nil
}
