module verifharness

go 1.23

require (
	github.com/fluhus/biostuff v0.0.0
	github.com/fluhus/gostuff v1.0.1
	github.com/klauspost/compress v1.17.9
	github.com/spaolacci/murmur3 v1.1.0
)

require golang.org/x/exp v0.0.0-20240604190554-fc45aab8b7f8 // indirect

replace github.com/fluhus/biostuff => /repo
