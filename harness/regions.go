package main

// C16 - regions.Index.
//   regions-replay : leg R, model cases (list, queries, property-level answers / panic) on the real index
//   regions-drive  : leg T, seeded interval sets far outside the model's scope, one event per public call
//   regions-conc   : leg T, 8 goroutines querying one index (meant for the binary built with -race)

import (
	"fmt"
	"math"
	"os"
	"sort"
	"strconv"
	"sync"

	"github.com/fluhus/biostuff/regions"
)

func init() {
	register("regions-replay", regionsReplay)
	register("regions-drive", regionsDrive)
	register("regions-conc", regionsConc)
}

func regNonNil(a []int) []int {
	if a == nil {
		return []int{}
	}
	return a
}

func regSameInts(a, b []int) bool {
	if len(a) != len(b) {
		return false
	}
	for i := range a {
		if a[i] != b[i] {
			return false
		}
	}
	return true
}

// regNewIndex calls the real constructor and observes a panic.
func regNewIndex(starts, ends []int) (idx *regions.Index, panicked bool, msg string) {
	panicked, msg = catch(func() { idx = regions.NewIndex(starts, ends) })
	return
}

// ---------------------------------------------------------------- leg R

type regCase struct {
	Starts  []int   `json:"starts"`
	Ends    []int   `json:"ends"`
	Queries []int   `json:"queries"`
	Answers [][]int `json:"answers"` // property level: Covering(starts, ends, q), ascending
	Panic   bool    `json:"panic"`
}

// a strictly monotone map of model coordinates to real ones: c -> Base + Stride*c
type regMap struct {
	Base   int `json:"base"`
	Stride int `json:"stride"`
}

type regInput struct {
	Cases []regCase `json:"cases"`
	Maps  []regMap  `json:"maps"`
}

type regMismatch struct {
	Case int    `json:"case"`
	Map  int    `json:"map"`
	What string `json:"what"`
	Q    int    `json:"q"`
	Real int    `json:"real_q"`
	Got  any    `json:"got"`
	Want any    `json:"want"`
}

func regionsReplay(args []string) error {
	if err := need(args, 2, "regions-replay <cases.json> <out.json>"); err != nil {
		return err
	}
	var in regInput
	if err := readJSON(args[0], &in); err != nil {
		return err
	}
	var mm []regMismatch
	nbad := 0
	add := func(m regMismatch) {
		nbad++
		if len(mm) < 500 {
			mm = append(mm, m)
		}
	}
	executed := 0
	for ci, c := range in.Cases {
		for mi, m := range in.Maps {
			f := func(x int) int { return m.Base + m.Stride*x }
			starts := make([]int, len(c.Starts))
			ends := make([]int, len(c.Ends))
			for i, x := range c.Starts {
				starts[i] = f(x)
			}
			for i, x := range c.Ends {
				ends[i] = f(x)
			}
			idx, panicked, msg := regNewIndex(starts, ends)
			if ci%2 == 1 { // another index is built before this one is asked
				regNewIndex([]int{1, 5, 3, 0}, []int{9, 6, 4, 2})
			}
			executed++
			if panicked != c.Panic {
				add(regMismatch{ci, mi, "newindex-panic", 0, 0, map[string]any{"panicked": panicked, "msg": msg}, c.Panic})
				continue
			}
			if panicked {
				continue
			}
		queries:
			for qi, q := range c.Queries {
				// f(q) and, for strides > 1, the last real position that still projects to q
				for _, real := range []int{f(q), f(q) + m.Stride - 1} {
					got := idx.At(real)
					executed++
					if !regSameInts(got, c.Answers[qi]) {
						add(regMismatch{ci, mi, "at", q, real, regNonNil(got), c.Answers[qi]})
						break queries // one report per (case, map)
					}
					// the returned slice is private: overwrite it, the next At must not notice
					for i := range got {
						got[i] = -1 - got[i]
					}
					again := idx.At(real)
					executed++
					if !regSameInts(again, c.Answers[qi]) {
						add(regMismatch{ci, mi, "at-after-mutation", q, real, regNonNil(again), c.Answers[qi]})
						break queries
					}
					if m.Stride == 1 {
						break
					}
				}
			}
		}
	}
	return writeJSON(args[1], map[string]any{"executed": executed, "mismatches": mm, "nbad": nbad})
}

// ---------------------------------------------------------------- leg T: generator

const (
	regMaxInt = math.MaxInt
	regMinInt = math.MinInt
)

type regSession struct {
	kind         string
	starts, ends []int
}

// regGen makes the interval set of session sid. Kinds cycle so that every run has all of them.
func regGen(sid int) regSession {
	r := newRand(int64(sid) + 16000)
	kinds := []string{"dense", "wide", "extreme", "nested", "touching", "mismatch", "allempty", "mixed", "duplicates", "tiny", "powers"}
	kind := kinds[sid%len(kinds)]
	if thorough() && sid == 12 {
		kind = "massive"
	}
	n := r.Intn(201)
	if sid%3 == 0 {
		n = 150 + r.Intn(51)
	}
	if sid%7 == 1 {
		n = 200 // the largest size, always present
	}
	var starts, ends []int
	put := func(s, e int) { starts, ends = append(starts, s), append(ends, e) }
	extremes := []int{regMinInt, regMinInt + 1, regMinInt + 2, regMinInt + 3, -2, -1, 0, 1, 2, regMaxInt - 3, regMaxInt - 2, regMaxInt - 1, regMaxInt}
	any64 := func() int {
		switch r.Intn(4) {
		case 0:
			return extremes[r.Intn(len(extremes))]
		case 1:
			return int(r.Uint64()) // whole range, both signs
		case 2:
			return regMaxInt - r.Intn(50)
		default:
			return regMinInt + r.Intn(50)
		}
	}
	switch kind {
	case "dense": // few coordinates: duplicates, touching, empty and inverted intervals are frequent
		w := 2 + r.Intn(12)
		for i := 0; i < n; i++ {
			put(r.Intn(w)-w/2, r.Intn(w)-w/2)
		}
	case "wide":
		for i := 0; i < n; i++ {
			s := r.Intn(2001) - 1000
			put(s, s+r.Intn(400)-40)
		}
	case "extreme":
		for i := 0; i < n; i++ {
			put(any64(), any64())
		}
	case "nested": // [c-k, c+k) for growing k, some repeated, some collapsed
		c := r.Intn(2000) - 1000
		for i := 0; i < n; i++ {
			k := r.Intn(n + 1)
			if r.Intn(10) == 0 {
				k = 0
			}
			put(c-k, c+k)
		}
	case "touching": // consecutive pieces [x_k, x_k+1), in shuffled order, with empty and inverted ones in between
		x := r.Intn(100) - 50
		for i := 0; i < n; i++ {
			y := x + 1 + r.Intn(3)
			switch r.Intn(8) {
			case 0:
				put(x, x)
			case 1:
				put(y, x)
			default:
				put(x, y)
				x = y
			}
		}
		r.Shuffle(len(starts), func(i, j int) {
			starts[i], starts[j] = starts[j], starts[i]
			ends[i], ends[j] = ends[j], ends[i]
		})
	case "mismatch": // lists of different lengths: NewIndex must panic
		n2 := r.Intn(201)
		for n2 == n {
			n2 = r.Intn(201)
		}
		if r.Intn(4) == 0 { // off by one, the easiest to miss
			n2 = n + 1
		}
		for i := 0; i < n; i++ {
			starts = append(starts, r.Intn(100))
		}
		for i := 0; i < n2; i++ {
			ends = append(ends, 100+r.Intn(100))
		}
	case "allempty":
		for i := 0; i < n; i++ {
			s := r.Intn(41) - 20
			put(s, s-r.Intn(3))
		}
	case "duplicates": // a handful of intervals, each many times
		m := 1 + r.Intn(5)
		base := make([][2]int, m)
		for i := range base {
			s := any64()
			e := any64()
			if r.Intn(2) == 0 {
				s, e = r.Intn(20)-10, r.Intn(20)-10
			}
			base[i] = [2]int{s, e}
		}
		for i := 0; i < n; i++ {
			b := base[r.Intn(m)]
			put(b[0], b[1])
		}
	case "powers": // coordinates next to powers of two (what fits a machine word of 8, 16, 31, 32, 53 bits and what just does not); in two
		// sessions out of three all of them non-negative and below 2^32
		ps := []int{7, 8, 15, 16, 24, 31, 32, 33, 53, 62}
		if sid%3 != 0 {
			ps = []int{8, 16, 24, 31, 31, 31, 32}
		}
		pt := func() int {
			x := 1<<ps[r.Intn(len(ps))] + r.Intn(7) - 3
			if r.Intn(4) == 0 {
				x += r.Intn(1 << 20)
			}
			if sid%3 != 0 {
				x = min(x, 1<<32-1)
			} else if r.Intn(6) == 0 {
				x = -x
			}
			return x
		}
		for i := 0; i < n; i++ {
			a, b := pt(), pt()
			if a > b && r.Intn(5) > 0 {
				a, b = b, a
			}
			put(a, b)
		}
	case "massive": // more intervals over one position than 16 bits can count
		c := r.Intn(1000)
		for i := 0; i < 66000+r.Intn(3000); i++ {
			put(c-1-i%3, c+1+i%5)
		}
		for i := 0; i < 50; i++ {
			x := c + r.Intn(40) - 20
			put(x, x+r.Intn(9)-2)
		}
	case "tiny":
		n = r.Intn(4)
		for i := 0; i < n; i++ {
			put(r.Intn(5)-2, r.Intn(5)-2)
		}
	default: // mixed
		for i := 0; i < n; i++ {
			switch r.Intn(4) {
			case 0:
				put(any64(), any64())
			case 1:
				s := r.Intn(21) - 10
				put(s, s+r.Intn(7)-2)
			case 2:
				if len(starts) > 0 {
					j := r.Intn(len(starts))
					put(starts[j], ends[j])
				} else {
					put(0, 1)
				}
			default:
				if len(starts) > 0 {
					j := r.Intn(len(starts))
					put(ends[j], any64()) // touches an earlier interval
				} else {
					put(-1, 1)
				}
			}
		}
	}
	if starts == nil {
		starts = []int{}
	}
	if ends == nil {
		ends = []int{}
	}
	return regSession{kind, starts, ends}
}

// regQueries: every endpoint, its neighbours, below the minimum, above the maximum, the ends of the int range.
func regQueries(s regSession) []int {
	seen := map[int]bool{}
	var q []int
	add := func(x int) {
		if !seen[x] {
			seen[x] = true
			q = append(q, x)
		}
	}
	for _, l := range [][]int{s.starts, s.ends} {
		for _, x := range l {
			add(x)
			if x > regMinInt {
				add(x - 1)
			}
			if x < regMaxInt {
				add(x + 1)
			}
		}
	}
	if s.kind == "powers" { // the positions an endpoint would alias to if its upper bits were lost
		for _, x := range append(regCpInts(s.starts), s.ends...) {
			for _, d := range []int{1 << 31, 1 << 32, 1 << 16} {
				if x >= 0 && x < 1<<62 {
					add(x + d)
					add(x - d)
					add(x % d)
				}
			}
		}
	}
	add(regMinInt)
	add(regMaxInt)
	add(0)
	sort.Ints(q)
	return q
}

// ---------------------------------------------------------------- leg T: events

type regEvent struct {
	Sid    int    `json:"sid"`
	Step   int    `json:"step"`
	Op     string `json:"op"` // new | at | conc
	Starts []int  `json:"starts"`
	Ends   []int  `json:"ends"`
	Panic  bool   `json:"panic"`
	Q      int    `json:"q"`
	Ret    []int  `json:"ret"`
	Race   bool   `json:"race"`
	Tag    string `json:"tag"`
	// diagnostics only (strings: not 32-bit)
	RawQ string `json:"rawq"`
}

type regRawAt struct {
	q   int
	ret []int
	tag string
}

// regEmit projects the coordinates of one session to their ranks (a strictly monotone map, so every
// comparison the property makes is preserved) and writes the events.
func regEmit(tw *traceWriter, sid int, s regSession, panicked bool, ats []regRawAt, conc bool) {
	vals := map[int]bool{}
	for _, x := range s.starts {
		vals[x] = true
	}
	for _, x := range s.ends {
		vals[x] = true
	}
	for _, a := range ats {
		vals[a.q] = true
	}
	sorted := make([]int, 0, len(vals))
	for x := range vals {
		sorted = append(sorted, x)
	}
	sort.Ints(sorted)
	rank := make(map[int]int, len(sorted))
	for i, x := range sorted {
		rank[x] = i
	}
	proj := func(l []int) []int {
		out := make([]int, len(l))
		for i, x := range l {
			out[i] = rank[x]
		}
		return out
	}
	step := 0
	tw.emit(regEvent{Sid: sid, Step: step, Op: "new", Starts: proj(s.starts), Ends: proj(s.ends), Panic: panicked,
		Ret: []int{}, Tag: s.kind, RawQ: ""})
	for _, a := range ats {
		step++
		tw.emit(regEvent{Sid: sid, Step: step, Op: "at", Starts: []int{}, Ends: []int{}, Q: rank[a.q],
			Ret: regNonNil(a.ret), Tag: a.tag, RawQ: strconv.Itoa(a.q)})
	}
	if conc {
		step++
		tw.emit(regEvent{Sid: sid, Step: step, Op: "conc", Starts: []int{}, Ends: []int{}, Ret: []int{}, Tag: "8-goroutines"})
	}
}

func regCpInts(a []int) []int { return append([]int{}, a...) }

func regionsDrive(args []string) error {
	if err := need(args, 2, "regions-drive <out.ndjson> <sessions> [only-sid]"); err != nil {
		return err
	}
	sessions, _ := strconv.Atoi(args[1])
	only := -1
	if len(args) > 2 {
		only, _ = strconv.Atoi(args[2])
	}
	tw, err := newTrace(args[0])
	if err != nil {
		return err
	}
	for sid := 0; sid < sessions; sid++ {
		if only >= 0 && sid != only {
			continue
		}
		s := regGen(sid)
		r := newRand(int64(sid) + 16500)
		// the index gets its own copies of the lists; what is logged is what was passed
		// the lists are handed over as windows of larger buffers in every other session: what lies behind len() (plausible
		// coordinates) is not part of the lists
		ps, pe := regCpInts(s.starts), regCpInts(s.ends)
		if sid%2 == 0 {
			ps = append(append(make([]int, 0, len(ps)+300), ps...), make([]int, 300)...)[:len(ps)]
			pe = append(append(make([]int, 0, len(pe)+300), pe...), make([]int, 300)...)
			for i := len(s.ends); i < len(pe); i++ {
				pe[i] = 1000 + i
			}
			pe = pe[:len(s.ends)]
		}
		idx, panicked, _ := regNewIndex(ps, pe)
		if sid%2 == 1 { // other indexes are built (and dropped) between building this one and asking it
			other := regGen(sid + 1)
			regNewIndex(regCpInts(other.starts), regCpInts(other.ends))
			regNewIndex([]int{1, 5, 3}, []int{9, 6, 4})
		}
		var ats []regRawAt
		if !panicked && idx != nil {
			qs := regQueries(s)
			var kept [][]int
			for _, q := range qs {
				ret := idx.At(q)
				ats = append(ats, regRawAt{q, regCpInts(ret), "first"})
				switch r.Intn(3) {
				case 0: // overwrite the returned slice (whole capacity), then ask again
					full := ret[:cap(ret)]
					for i := range full {
						full[i] = -7
					}
					ats = append(ats, regRawAt{q, regCpInts(idx.At(q)), "after-overwrite"})
				case 1: // append through the returned slice / truncate it
					if len(ret) > 0 {
						ret = append(ret[:len(ret)-1], 1<<20)
					}
					ret = append(ret, 1<<21)
					ats = append(ats, regRawAt{q, regCpInts(idx.At(q)), "after-append"})
				default:
					kept = append(kept, ret)
				}
			}
			// second sweep in another order, after all the mutations, with the kept slices scribbled on
			for _, k := range kept {
				for i := range k {
					k[i] = -9
				}
			}
			for _, i := range r.Perm(len(qs)) {
				if i%4 == 0 {
					ats = append(ats, regRawAt{qs[i], regCpInts(idx.At(qs[i])), "second-sweep"})
				}
			}
		}
		regEmit(tw, sid, s, panicked, ats, false)
	}
	return tw.close()
}

// regionsConc: 8 goroutines call At on one index at the same time and scribble on what they get back.
// Built with -race, a write to shared state by At (or a returned slice that aliases the index) is
// reported by the race detector on stderr between the BEGIN/END markers of the session.
func regionsConc(args []string) error {
	if err := need(args, 2, "regions-conc <out.ndjson> <sessions> [only-sid]"); err != nil {
		return err
	}
	sessions, _ := strconv.Atoi(args[1])
	only := -1
	if len(args) > 2 {
		only, _ = strconv.Atoi(args[2])
	}
	tw, err := newTrace(args[0])
	if err != nil {
		return err
	}
	const G = 8
	for sid := 0; sid < sessions; sid++ {
		if only >= 0 && sid != only {
			continue
		}
		csid := 1000 + sid
		s := regGen(csid)
		if s.kind == "mismatch" {
			s = regGen(csid + 1)
		}
		idx, panicked, _ := regNewIndex(regCpInts(s.starts), regCpInts(s.ends))
		var ats []regRawAt
		if !panicked && idx != nil {
			qs := regQueries(s)
			r := newRand(int64(csid) + 16700)
			if len(qs) > 60 { // a sample: the positions are hit by all goroutines in different orders
				r.Shuffle(len(qs), func(i, j int) { qs[i], qs[j] = qs[j], qs[i] })
				qs = qs[:60]
			}
			fmt.Fprintf(os.Stderr, "VH-CONC-SESSION %d BEGIN\n", csid)
			res := make([][]regRawAt, G)
			var wg sync.WaitGroup
			start := make(chan struct{})
			for g := 0; g < G; g++ {
				wg.Add(1)
				go func(g int) {
					defer wg.Done()
					<-start
					for round := 0; round < 3; round++ {
						for k := range qs {
							q := qs[(k*(2*g+1)+g*7+round)%len(qs)]
							ret := idx.At(q)
							res[g] = append(res[g], regRawAt{q, regCpInts(ret), "goroutine-" + strconv.Itoa(g)})
							for i := range ret {
								ret[i] = -1 - g
							}
						}
					}
				}(g)
			}
			close(start)
			wg.Wait()
			fmt.Fprintf(os.Stderr, "VH-CONC-SESSION %d END\n", csid)
			for g := 0; g < G; g++ {
				ats = append(ats, res[g]...)
			}
			// and the answers afterwards, single-threaded
			for _, q := range qs {
				ats = append(ats, regRawAt{q, regCpInts(idx.At(q)), "after-concurrent"})
			}
		}
		regEmit(tw, csid, s, panicked, ats, true)
	}
	return tw.close()
}
