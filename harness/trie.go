package main

import (
	"encoding/json"
	"fmt"
	"sort"
	"strconv"

	"github.com/fluhus/biostuff/trie"
)

func init() {
	register("trie-replay", trieReplay)
	register("trie-drive", trieDrive)
}

// ---------------------------------------------------------------- observation (projection)

// trieMembers returns what ForEach reports, in call order (copies: the callback's slice is reused).
func trieMembers(t *trie.Trie) [][]int {
	out := [][]int{}
	t.ForEach(func(b []byte) bool {
		out = append(out, ints(b))
		return true
	})
	return out
}

// trieMembersNested: the same enumeration with other ForEach calls on the same trie going on: at the at-th member of the outer call
// an inner call runs (to its end, or stopped after one member); mode 2: an early-stopped call comes first. Returns the outer call's
// members and the inner call's (nil if no complete inner call ran).
func trieMembersNested(t *trie.Trie, mode, at int) (outer, inner [][]int) {
	outer = [][]int{}
	if mode == 2 {
		k := 0
		t.ForEach(func(b []byte) bool { k++; return k <= at })
	}
	i := 0
	t.ForEach(func(b []byte) bool {
		outer = append(outer, ints(b))
		if i == at {
			switch mode {
			case 1:
				inner = trieMembers(t)
			case 3:
				t.ForEach(func([]byte) bool { return false })
			}
		}
		i++
		return true
	})
	return
}

var trieCloneCalls int

func trieClone(t *trie.Trie) (*trie.Trie, error) {
	j, err := json.Marshal(t)
	if err != nil {
		return nil, err
	}
	// every other time the JSON comes from a direct MarshalJSON call and is held while another trie is marshalled
	if trieCloneCalls++; trieCloneCalls%2 == 0 {
		if j, err = t.MarshalJSON(); err != nil {
			return nil, err
		}
		other := trie.New()
		other.Add([]byte("some other trie, marshalled while the first result is held"))
		other.MarshalJSON()
		json.Marshal(other)
	}
	t2 := trie.New()
	if err := json.Unmarshal(j, t2); err != nil {
		return nil, err
	}
	return t2, nil
}

func keyOf(a []int) string {
	s := ""
	for _, x := range a {
		s += strconv.Itoa(x) + ","
	}
	return s
}

func setOf(a [][]int) map[string]bool {
	m := map[string]bool{}
	for _, x := range a {
		m[keyOf(x)] = true
	}
	return m
}

// ---------------------------------------------------------------- leg R: replay of the model's state graph

type trieOp struct {
	Op  string `json:"op"`
	Arg []int  `json:"arg"`
}

type trieNode struct {
	Path  []trieOp `json:"path"`  // a shortest history leading to this state (BFS tree of the model's graph)
	Nodes [][]int  `json:"nodes"` // implementation layer: present paths
	M     [][]int  `json:"m"`     // property layer: members
}

type trieEdge struct {
	Src int    `json:"src"`
	Dst int    `json:"dst"`
	Op  string `json:"op"`
	Arg []int  `json:"arg"`
	Ret *bool  `json:"ret"`
}

type trieGraph struct {
	Nodes  []trieNode `json:"nodes"`
	Edges  []trieEdge `json:"edges"`
	Probes [][]int    `json:"probes"` // every string up to MaxLen+1 over the concrete alphabet
}

type mismatch struct {
	Case    int    `json:"case"`
	Variant string `json:"variant"`
	What    string `json:"what"`
	Got     any    `json:"got"`
	Want    any    `json:"want"`
}

func trieApply(t *trie.Trie, op trieOp) (ret bool) {
	switch op.Op {
	case "add":
		t.Add(unints(op.Arg))
	case "del":
		ret = t.Delete(unints(op.Arg))
	default:
		panic("bad op " + op.Op)
	}
	return
}

// compares the observable state of t with the model state n (property level: members, Has).
func trieCompare(t *trie.Trie, n *trieNode, probes [][]int) (string, any, any) {
	got := trieMembers(t)
	gs, ws := setOf(got), setOf(n.M)
	if len(got) != len(gs) {
		return "foreach-duplicate", got, n.M
	}
	if len(gs) != len(ws) {
		return "foreach-members", got, n.M
	}
	for k := range ws {
		if !gs[k] {
			return "foreach-members", got, n.M
		}
	}
	present := setOf(n.Nodes)
	for _, p := range probes {
		want := len(p) == 0 || present[keyOf(p)]
		if t.Has(unints(p)) != want {
			return "has", map[string]any{"probe": p, "has": !want}, want
		}
	}
	return "", nil, nil
}

func trieReplay(args []string) error {
	if err := need(args, 2, "trie-replay <graph.json> <out.json>"); err != nil {
		return err
	}
	var g trieGraph
	if err := readJSON(args[0], &g); err != nil {
		return err
	}
	var mm []mismatch
	n := 0
	for ei, e := range g.Edges {
		for _, variant := range []string{"direct", "json-clone-before", "json-clone-after", "observed-along-the-path"} {
			n++
			ei, e, variant := ei, e, variant
			if p, msg := catch(func() {
				t := trie.New()
				for _, op := range g.Nodes[e.Src].Path {
					trieApply(t, op)
					if variant == "observed-along-the-path" { // observers may cache: every update must invalidate what they cached
						trieMembers(t)
					}
				}
				if variant == "json-clone-before" {
					t2, err := trieClone(t)
					if err != nil {
						mm = append(mm, mismatch{ei, variant, "json-error", err.Error(), nil})
						return
					}
					t = t2
				}
				ret := trieApply(t, trieOp{e.Op, e.Arg})
				if e.Op == "del" && e.Ret != nil && ret != *e.Ret {
					mm = append(mm, mismatch{ei, variant, "delete-return", ret, *e.Ret})
					return
				}
				if variant == "json-clone-after" {
					t2, err := trieClone(t)
					if err != nil {
						mm = append(mm, mismatch{ei, variant, "json-error", err.Error(), nil})
						return
					}
					t = t2
				}
				if what, got, want := trieCompare(t, &g.Nodes[e.Dst], g.Probes); what != "" {
					mm = append(mm, mismatch{ei, variant, what, got, want})
				}
			}); p {
				mm = append(mm, mismatch{ei, variant, "panic", msg, nil})
			}
		}
	}
	return writeJSON(args[1], map[string]any{"executed": n, "mismatches": mm})
}

// ---------------------------------------------------------------- leg T: recorded random histories

type hasObs struct {
	P []int `json:"p"`
	R bool  `json:"r"`
}

type trieEvent struct {
	Sid     int      `json:"sid"`
	Step    int      `json:"step"`
	Op      string   `json:"op"`
	Arg     []int    `json:"arg"`
	Ret     bool     `json:"ret"`
	Members [][]int  `json:"members"`
	Has     []hasObs `json:"has"`
	Nested  bool     `json:"nested"` // inner: the members reported by a ForEach that ran inside the callback of the one that reported members
	Inner   [][]int  `json:"inner"`
	Obs     bool     `json:"obs"`   // false: nothing was observed after this step (no ForEach / Has call was made)
	Panic   bool     `json:"panic"` // the operation or an observation panicked
}

func trieDrive(args []string) error {
	if err := need(args, 3, "trie-drive <out.ndjson> <sessions> <ops> [only-sid]"); err != nil {
		return err
	}
	sessions, _ := strconv.Atoi(args[1])
	maxOps, _ := strconv.Atoi(args[2])
	only := -1
	if len(args) > 3 {
		only, _ = strconv.Atoi(args[3])
	}
	tw, err := newTrace(args[0])
	if err != nil {
		return err
	}
	pool := []byte{0x00, 0xFF, 'a', 'b', ' ', '"', 0x80, '\n', 'Z', 0x7f, '0', ','}
	for sid := 0; sid < sessions; sid++ {
		if only >= 0 && sid != only {
			continue
		}
		r := newRand(int64(sid) + 15000)
		// alphabet of 2..8 bytes; small alphabets and short strings make prefix relations frequent
		an := 2 + r.Intn(7)
		perm := r.Perm(len(pool))
		alpha := make([]byte, an)
		for i := range alpha {
			alpha[i] = pool[perm[i]]
		}
		maxLen := 1 + r.Intn(8)
		if sid%4 == 3 { // long members: deep tries (anything sized for "typical" short keys shows here)
			maxLen = 12 + r.Intn(60)
		}
		nops := maxOps/4 + r.Intn(maxOps-maxOps/4+1)
		if sid%16 == 7 { // ... and beyond what a byte can count (few operations: every observation lists every member)
			maxLen = []int{300, 256, 700, 257, 255}[(sid/16)%5]
			nops = min(nops, 40)
		}
		randStr := func(allowEmpty bool) []byte {
			n := r.Intn(maxLen + 1)
			if n == 0 && !allowEmpty {
				n = 1
			}
			b := make([]byte, n)
			for i := range b {
				b[i] = alpha[r.Intn(an)]
			}
			return b
		}
		// one session fills nodes completely: a child for every byte value below the root and below one inner node, then takes
		// one child away and puts it back
		var fan []trieOp
		if sid == 5 {
			for _, pre := range [][]int{{}, {int(alpha[0])}} {
				for _, x := range r.Perm(256) {
					fan = append(fan, trieOp{Op: "add", Arg: append(append([]int{}, pre...), x)})
				}
			}
			fan = append(fan, trieOp{Op: "del", Arg: []int{7}}, trieOp{Op: "add", Arg: []int{7, 7}}, trieOp{Op: "add", Arg: []int{7}},
				trieOp{Op: "del", Arg: []int{int(alpha[0]), 255}}, trieOp{Op: "del", Arg: []int{255}}, trieOp{Op: "add", Arg: []int{255}})
			nops = len(fan)
		}
		t := trie.New()
		var recent [][]byte
		pick := func() []byte {
			// bias towards strings related to earlier ones: prefixes, extensions, exact repeats
			if len(recent) > 0 && r.Intn(3) > 0 {
				base := recent[r.Intn(len(recent))]
				switch r.Intn(3) {
				case 0:
					return append([]byte{}, base...)
				case 1:
					if len(base) > 1 {
						return append([]byte{}, base[:1+r.Intn(len(base)-1)]...)
					}
				case 2:
					if len(base) < maxLen {
						return append(append([]byte{}, base...), alpha[r.Intn(an)])
					}
				}
			}
			return randStr(false)
		}
		for step := 0; step < nops; step++ {
			ev := trieEvent{Sid: sid, Step: step}
			var arg []byte
			ev.Members, ev.Has, ev.Inner = [][]int{}, []hasObs{}, [][]int{}
			ev.Panic, _ = catch(func() {
				if fan != nil {
					ev.Op, arg = fan[step].Op, unints(fan[step].Arg)
					if ev.Op == "add" {
						t.Add(arg)
					} else {
						ev.Ret = t.Delete(arg)
					}
					ev.Arg = ints(arg)
					ev.Obs = step%16 == 0 || step%256 >= 250 || step%256 < 2 || step >= len(fan)-8
					if ev.Obs {
						ev.Members = trieMembers(t)
						for _, p := range [][]byte{nil, arg, {arg[0]}, {arg[0], 0}, {255}, {0}} {
							ev.Has = append(ev.Has, hasObs{ints(p), t.Has(p)})
						}
					}
					return
				}
				switch x := r.Intn(20); {
				case x < 9:
					ev.Op = "add"
					arg = pick()
					if r.Intn(40) == 0 {
						arg = nil // adding the empty sequence changes nothing
					}
					t.Add(arg)
				case x < 18:
					ev.Op = "del"
					arg = pick()
					ev.Ret = t.Delete(arg)
				default:
					ev.Op = "clone"
					t2, err := trieClone(t)
					if err != nil {
						panic(fmt.Sprintf("json round trip: %v", err))
					}
					t = t2
				}
				ev.Arg = ints(arg)
				if len(arg) > 0 {
					recent = append(recent, arg)
					if len(recent) > 12 {
						recent = recent[1:]
					}
				}
				// in every other session about half of the steps are not observed at all, so that several updates happen
				// between two ForEach / Has calls (anything cached by an observer must survive unobserved updates)
				ev.Obs = sid%2 == 0 || r.Intn(2) == 0 || step == nops-1
				if ev.Obs {
					if mode := r.Intn(5); sid%3 == 1 && mode > 0 && mode < 4 {
						var inner [][]int
						ev.Members, inner = trieMembersNested(t, mode, r.Intn(3))
						if inner != nil {
							ev.Nested, ev.Inner = true, inner
						}
					} else {
						ev.Members = trieMembers(t)
					}
					sort.Slice(ev.Members, func(i, j int) bool { return keyOf(ev.Members[i]) < keyOf(ev.Members[j]) })
					probes := [][]byte{nil, arg, randStr(true), pick()}
					if len(arg) > 0 {
						probes = append(probes, append(append([]byte{}, arg...), alpha[r.Intn(an)]), arg[:len(arg)-1])
					}
					for _, p := range probes {
						ev.Has = append(ev.Has, hasObs{ints(p), t.Has(p)})
					}
				}
			})
			if ev.Arg == nil {
				ev.Arg = ints(arg)
			}
			tw.emit(ev)
		}
	}
	return tw.close()
}
