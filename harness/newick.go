package main

import (
	"bytes"
	"fmt"
	"io"
	"math"
	"math/rand"
	"strconv"
	"strings"

	"github.com/fluhus/biostuff/formats/newick"
)

func init() {
	register("newick-drive", newickDrive)
	register("newick-replay", newickReplay)
}

// nwNode is the projection of a tree node: the tree is the pre-order list of these (DESIGN.md 4.2).
type nwNode struct {
	D     int    `json:"d"`
	Name  []int  `json:"name"`
	Dist  string `json:"dist"`  // atom: "0" (none, also -0), "nan", or the hex of the float64 bits
	DText []int  `json:"dtext"` // what fmt prints for the distance (diagnostic / drift only)
}

func distAtom(x float64) string {
	if x == 0 {
		return "0"
	}
	if math.IsNaN(x) {
		return "nan"
	}
	return strconv.FormatUint(math.Float64bits(x), 16)
}

// nwFlatten: own iterative pre-order walk (never the library's PreOrder).
func nwFlatten(root *newick.Node) []nwNode {
	out := []nwNode{}
	type fr struct {
		n *newick.Node
		d int
	}
	stack := []fr{{root, 0}}
	for len(stack) > 0 {
		f := stack[len(stack)-1]
		stack = stack[:len(stack)-1]
		dt := []int{}
		if f.n.Distance != 0 {
			dt = sints(fmt.Sprint(f.n.Distance))
		}
		out = append(out, nwNode{f.d, sints(f.n.Name), distAtom(f.n.Distance), dt})
		for i := len(f.n.Children) - 1; i >= 0; i-- {
			stack = append(stack, fr{f.n.Children[i], f.d + 1})
		}
	}
	return out
}

// nwBuild: tree from the flat encoding; dist(i) supplies the distance of node i.
func nwBuild(flat []nwNode, dist func(i int) float64) *newick.Node {
	var stack []*newick.Node
	var root *newick.Node
	for i, f := range flat {
		n := &newick.Node{Name: string(unints(f.Name)), Distance: dist(i)}
		if f.D == 0 {
			root = n
			stack = []*newick.Node{n}
			continue
		}
		stack = stack[:f.D]
		p := stack[len(stack)-1]
		p.Children = append(p.Children, n)
		stack = append(stack, n)
	}
	return root
}

func nwReadAll(data []byte) (trees [][]nwNode, gotErr bool, panicked bool) {
	trees = [][]nwNode{}
	panicked, _ = catch(func() {
		if failedReadsFirst { // (one malformed text before each recorded read, in turn: a pool hands back what was put last)
			ts := malformedTexts["newick"]
			t := ts[malformedNext%len(ts)]
			malformedNext++
			for range newick.Reader(strings.NewReader(t)) {
			}
		}
		for n, err := range newick.Reader(deliver(data)) {
			if err != nil {
				gotErr = true
				continue
			}
			trees = append(trees, nwFlatten(n))
			if len(trees) > 10000 {
				break
			}
		}
	})
	return
}

func nwSame(a, b []nwNode) bool {
	if len(a) != len(b) {
		return false
	}
	for i := range a {
		if a[i].D != b[i].D || a[i].Dist != b[i].Dist || !bytes.Equal(unints(a[i].Name), unints(b[i].Name)) {
			return false
		}
	}
	return true
}

// ---------------------------------------------------------------- leg R
type nwModelNode struct {
	D    int   `json:"d"`
	Name []int `json:"name"`
	Dist int   `json:"dist"` // model distances 0 (none), 1, 2 written as the digits "1", "2"
}
type nwCase struct {
	Trees [][]nwModelNode `json:"trees"`
	Text  []int           `json:"text"`
}

func newickReplay(args []string) error {
	if err := need(args, 2, "newick-replay <cases.json> <out.json>"); err != nil {
		return err
	}
	var cases []nwCase
	if err := readJSON(args[0], &cases); err != nil {
		return err
	}
	var mm []mismatch
	for i, c := range cases {
		want := [][]nwNode{}
		for _, t := range c.Trees {
			w := []nwNode{}
			for _, n := range t {
				w = append(w, nwNode{D: n.D, Name: n.Name, Dist: distAtom(float64(n.Dist))})
			}
			want = append(want, w)
		}
		got, gotErr, panicked := nwReadAll(unints(c.Text))
		ok := !gotErr && !panicked && len(got) == len(want)
		for k := 0; ok && k < len(got); k++ {
			ok = nwSame(got[k], want[k])
		}
		if !ok {
			mm = append(mm, mismatch{i, "reader", "spec-text-decodes-differently",
				map[string]any{"trees": got, "err": gotErr, "panic": panicked}, want})
			continue
		}
		// and back: the real writer's text for the same trees is read by the real reader
		var txt []byte
		for _, t := range want {
			root := nwBuild(t, func(j int) float64 {
				if t[j].Dist == "0" {
					return 0
				}
				b, _ := strconv.ParseUint(t[j].Dist, 16, 64)
				return math.Float64frombits(b)
			})
			m, _ := root.MarshalText()
			txt = append(txt, m...)
		}
		got2, e2, p2 := nwReadAll(txt)
		ok = !e2 && !p2 && len(got2) == len(want)
		for k := 0; ok && k < len(got2); k++ {
			ok = nwSame(got2[k], want[k])
		}
		if !ok {
			mm = append(mm, mismatch{i, "writer+reader", "own-text-decodes-differently",
				map[string]any{"text": ints(txt), "trees": got2, "err": e2, "panic": p2}, want})
		}
	}
	return writeJSON(args[1], map[string]any{"executed": len(cases), "mismatches": mm})
}

// ---------------------------------------------------------------- leg T
type nwEvent struct {
	Sid   int        `json:"sid"`
	Op    string     `json:"op"` // rt | multi
	Small bool       `json:"small"`
	Trees [][]nwNode `json:"trees"`
	Texts [][]int    `json:"texts"` // MarshalText of each tree
	WSame bool       `json:"wsame"` // Write produced the same bytes as MarshalText, no error
	Seps  [][]int    `json:"seps"`  // separator after each tree
	Back  [][]nwNode `json:"back"`  // what the real Reader returned for texts/seps concatenated
	Err   bool       `json:"err"`
	Panic bool       `json:"panic"`
}

var nwSeps = []string{"", " ", "\n", "\r\n", "\t", "  \n", "\n\n"}

var nwMagic = []string{"\xef\xbb\xbf", "\xfe\xff", "\xff\xfe", "#", "#NEXUS", "[", "[&R]", "%", "//", "\\", "\x1b", "\x00", "&", "\""}

func nwName(r *rand.Rand) string {
	letters := "abcXYZ09.-|"
	randOf := func(alpha string, n int) string {
		b := make([]byte, n)
		for i := range b {
			b[i] = alpha[r.Intn(len(alpha))]
		}
		return string(b)
	}
	switch r.Intn(15) {
	case 0:
		return ""
	case 1:
		return randOf(letters, 1+r.Intn(8))
	case 13: // byte sequences that mean something to text tools at the beginning of a file or a token: byte order marks, comment and
		// directive openers, escapes
		return nwMagic[r.Intn(len(nwMagic))] + randOf(letters, r.Intn(7))
	case 2: // each quoting trigger
		t := "(),:;'_\t\n\r"
		return randOf(letters, r.Intn(3)) + string(t[r.Intn(len(t))]) + randOf(letters, r.Intn(3))
	case 3: // whitespace-like bytes
		t := " \n\r\v\f\xa0\t"
		return randOf(letters, r.Intn(2)) + string(t[r.Intn(len(t))]) + randOf(letters, r.Intn(2))
	case 4:
		return randOf("'", 1+r.Intn(4))
	case 5:
		return randOf("'a _", 1+r.Intn(6))
	case 6:
		return randOf("(),:;'_ \t\n\rab", 1+r.Intn(8))
	case 7: // looks like a number
		return []string{"1", "0", "1e5", "-2.5", "NaN", "Inf", ".", "0x1p-2"}[r.Intn(8)]
	case 8:
		b := make([]byte, 1+r.Intn(6))
		for i := range b {
			b[i] = byte(r.Intn(256))
		}
		return string(b)
	case 9:
		return randOf(" ", 1+r.Intn(3))
	case 10:
		return randOf("[]{}\"\\/&", 1+r.Intn(4))
	case 11:
		return "a b"
	case 12:
		return randOf("_", 1+r.Intn(3))
	default:
		return randOf(letters+" ", 1+r.Intn(20))
	}
}

func nwDist(r *rand.Rand) float64 {
	switch r.Intn(16) {
	case 0, 1, 2, 3:
		return 0
	case 4:
		return 1
	case 5:
		return -1
	case 6:
		return 0.5
	case 7:
		return 1e300
	case 8:
		return 1e-300
	case 9:
		return 5e-324
	case 10:
		return math.NaN()
	case 11:
		return math.Inf(1 - 2*r.Intn(2))
	case 12:
		return math.Copysign(0, -1)
	case 13:
		if r.Intn(2) == 0 { // values that are exactly a float32 (data that came from single-precision files)
			return []float64{float64(float32(0.1)), float64(float32(1.0 / 3)), math.MaxFloat32, math.SmallestNonzeroFloat32,
				float64(float32(r.NormFloat64())), float64(float32(123456.789))}[r.Intn(6)]
		}
		return math.Float64frombits(r.Uint64())
	case 14:
		return math.MaxFloat64
	default:
		if r.Intn(2) == 0 { // ordinary measurements: full-precision decimals of moderate size (written without an exponent)
			return r.Float64() * []float64{1, 10, 10, 1000, 1e6}[r.Intn(5)]
		}
		return float64(r.Intn(1000)) / 8
	}
}

// nwComb: a spine of the given depth on which every node has further children: leaves after the spine child (shape 0), before it
// (1), or on both sides (2) - depth and branching together
func nwComb(r *rand.Rand, depth, shape int) *newick.Node {
	root := &newick.Node{Name: nwName(r), Distance: nwDist(r)}
	cur := root
	for d := 1; d < depth; d++ {
		next := &newick.Node{Name: nwName(r), Distance: nwDist(r)}
		leaf := func() *newick.Node { return &newick.Node{Name: nwName(r), Distance: nwDist(r)} }
		switch shape {
		case 0:
			cur.Children = []*newick.Node{next, leaf()}
		case 1:
			cur.Children = []*newick.Node{leaf(), next}
		default:
			cur.Children = []*newick.Node{leaf(), next, leaf()}
		}
		cur = next
	}
	return root
}

// random tree with n nodes; chain = a single path of depth n-1
func nwRandTree(r *rand.Rand, n int, chain bool) *newick.Node {
	nodes := make([]*newick.Node, n)
	for i := range nodes {
		nodes[i] = &newick.Node{Name: nwName(r), Distance: nwDist(r)}
		if i > 0 {
			p := i - 1
			if !chain {
				switch r.Intn(3) {
				case 0:
					p = r.Intn(i)
				case 1:
					p = max(0, i-1-r.Intn(min(i, 4)))
				}
			}
			nodes[p].Children = append(nodes[p].Children, nodes[i])
		}
	}
	return nodes[0]
}

func newickDrive(args []string) error {
	if err := need(args, 2, "newick-drive <out.ndjson> <sessions> [only-sid]"); err != nil {
		return err
	}
	sessions, _ := strconv.Atoi(args[1])
	only := -1
	if len(args) > 2 {
		only, _ = strconv.Atoi(args[2])
	}
	tw, err := newTrace(args[0])
	if err != nil {
		return err
	}
	big := []int{1000, 10000}
	for sid := 0; sid < sessions; sid++ {
		if only >= 0 && sid != only {
			continue
		}
		r := newRand(int64(sid) + 5000)
		readDelivery = []int{0, 0, 1, 0, 2, 3}[sid%6]
		failedReadsFirst = sid%3 == 2
		if sid < 8 { // (the large trees of the first sessions: all at once or in 4096-byte reads)
			readDelivery = []int{0, 3}[sid%2]
		}
		ntrees := 1
		if sid%3 == 0 {
			ntrees = 1 + r.Intn(10)
		}
		ev := nwEvent{Sid: sid, Op: "rt", Small: true, WSame: true}
		if ntrees > 1 {
			ev.Op = "multi"
		}
		var all []byte
		var texts [][]byte // as returned by MarshalText; looked at only after every tree of the stream was marshalled
		for k := 0; k < ntrees; k++ {
			n := 1 + r.Intn(12)
			chain := false
			switch {
			case sid < 2*len(big): // a few large trees and deep chains
				n, chain = big[sid/2], sid%2 == 1
				ev.Small = false
			case r.Intn(10) == 0:
				n = 1 + r.Intn(200)
			}
			root := nwRandTree(r, n, chain)
			if c := sid - 2*len(big); c >= 0 && c < 3 { // deep and branching at every level (beyond 1024 levels)
				root = nwComb(r, 1100, c)
				ev.Small = false
			}
			if sid%7 == 3 && k == 0 && len(root.Children) > 0 { // names longer than a read buffer: plain, needing quotes, with quotes inside
				n := []int{4096, 5000, 70000, 4095}[(sid/7)%4]
				long := strings.Repeat("n", n)
				root.Children[0].Name = []string{long, "a " + long, long + " z", long[:n/2] + "'" + long[n/2:], "(" + long}[(sid/7)%5]
				ev.Small = false
			}
			if sid%3 == 0 && sid%2 == 1 && k == 0 { // the stream begins with a name: a lone node first
				root = &newick.Node{Name: nwName(r), Distance: root.Distance}
				if sid%4 == 1 { // every opener in turn
					root.Name = nwMagic[(sid/12)%len(nwMagic)] + "genome"
				}
			}
			if r.Intn(8) == 0 && ev.Small {
				root = &newick.Node{} // the bare tree ";": no name, no distance, no children
			}
			before := nwFlatten(root)
			var txt []byte
			p, _ := catch(func() { txt, _ = root.MarshalText() })
			buf := &bytes.Buffer{}
			if sid%4 == 1 {
				failedWriteFirst(root.Write)
			}
			p2, _ := catch(func() {
				if err := root.Write(buf); err != nil {
					ev.WSame = false
				}
			})
			if p || p2 || !bytes.Equal(buf.Bytes(), txt) || !nwSame(before, nwFlatten(root)) {
				ev.WSame = false
			}
			if len(before) > 60 {
				ev.Small = false
			}
			sep := nwSeps[r.Intn(len(nwSeps))]
			ev.Trees = append(ev.Trees, before)
			texts = append(texts, txt)
			ev.Seps = append(ev.Seps, sints(sep))
		}
		catch(func() { x := nwRandTree(newRand(int64(sid)+99991), 3, false); x.MarshalText(); x.Write(io.Discard) }) // one more call after the last tree
		for k, txt := range texts {
			ev.Texts = append(ev.Texts, ints(txt))
			all = append(append(all, txt...), unints(ev.Seps[k])...)
		}
		ev.Back, ev.Err, ev.Panic = nwReadAll(all)
		tw.emit(ev)
	}
	return tw.close()
}
