package main

// Leg T of C20: smtext.ReadNCBI, SubstitutionMatrix.Symmetrical, SubstitutionMatrix.GoString (and the
// flow of align/genncbi).  The drivers record what they fed and what the code returned; every
// judgement is made by Trace_Smtext.tla / Trace_Matrix.tla.  Scores travel as atoms: the hex of
// math.Float64bits.  For ReadNCBI the driver also records, for every token it wrote, whether
// strconv.ParseFloat accepts it and the atom of its value (trusted conversion, DESIGN.md section 8);
// the line / token structure of the text is NOT interpreted here - the driver only describes the
// layout it generated and the specification renders it again and compares.

import (
	"fmt"
	"go/ast"
	"go/constant"
	"go/format"
	"go/parser"
	"go/token"
	"math"
	"math/rand"
	"sort"
	"strconv"
	"strings"

	"github.com/fluhus/biostuff/align"
	"github.com/fluhus/biostuff/formats/smtext"
)

func init() {
	register("smtext-drive", smtextDrive)
	register("matrix-drive", matrixDrive)
}

// ---------------------------------------------------------------- projection

func atom(f float64) string {
	if math.IsNaN(f) {
		return "nan"
	}
	return fmt.Sprintf("%016x", math.Float64bits(f))
}

// triples of a matrix, sorted by key (the order carries no information)
func triples(m align.SubstitutionMatrix) [][]any {
	keys := make([][2]byte, 0, len(m))
	for k := range m {
		keys = append(keys, k)
	}
	sort.Slice(keys, func(i, j int) bool {
		if keys[i][0] != keys[j][0] {
			return keys[i][0] < keys[j][0]
		}
		return keys[i][1] < keys[j][1]
	})
	out := make([][]any, 0, len(keys))
	for _, k := range keys {
		out = append(out, []any{int(k[0]), int(k[1]), atom(m[k])})
	}
	return out
}

func cloneMatrix(m align.SubstitutionMatrix) align.SubstitutionMatrix {
	out := align.SubstitutionMatrix{}
	for k, v := range m {
		out[k] = v
	}
	return out
}

// ---------------------------------------------------------------- ReadNCBI

type smLine struct {
	K    string  `json:"k"` // "c" comment, "e" empty, "t" tokens
	Body []int   `json:"body"`
	Pre  []int   `json:"pre"`
	Toks [][]int `json:"toks"`
	Seps [][]int `json:"seps"`
	Post []int   `json:"post"`
}

type smTable struct {
	Rows  [][]int   `json:"rows"`
	Cols  [][]int   `json:"cols"`
	Cells [][][]int `json:"cells"`
}

type smNum struct {
	T  []int  `json:"t"`
	OK bool   `json:"ok"`
	A  string `json:"a"`
}

type smEvent struct {
	Sid   int      `json:"sid"`
	Step  int      `json:"step"`
	Op    string   `json:"op"`
	Kind  string   `json:"kind"` // "layout": a layout of table; "corrupt": one token of a layout corrupted; "free"
	Note  string   `json:"note"`
	Table smTable  `json:"table"`
	Lines []smLine `json:"lines"`
	Eol   []int    `json:"eol"`
	Final bool     `json:"final"`
	Text  []int    `json:"text"`
	Num   []smNum  `json:"num"`
	Err   bool     `json:"err"`
	NilM  bool     `json:"nilm"`
	Res   [][]any  `json:"res"`
	Msg   string   `json:"msg"` // diagnostics only
}

func cLine(body string) smLine {
	return smLine{K: "c", Body: sints(body), Pre: []int{}, Toks: [][]int{}, Seps: [][]int{}, Post: []int{}}
}
func eLine() smLine {
	return smLine{K: "e", Body: []int{}, Pre: []int{}, Toks: [][]int{}, Seps: [][]int{}, Post: []int{}}
}

func renderLine(l smLine) []byte {
	switch l.K {
	case "c":
		return unints(l.Body)
	case "e":
		return nil
	}
	var b []byte
	b = append(b, unints(l.Pre)...)
	for j, t := range l.Toks {
		b = append(b, unints(t)...)
		if j < len(l.Toks)-1 {
			b = append(b, unints(l.Seps[j])...)
		}
	}
	return append(b, unints(l.Post)...)
}

func renderLines(lines []smLine, eol string, final bool) []byte {
	var b []byte
	for i, l := range lines {
		b = append(b, renderLine(l)...)
		if i < len(lines)-1 || final {
			b = append(b, eol...)
		}
	}
	return b
}

func scoreToken(r *rand.Rand) string {
	if r.Intn(12) == 0 { // integers of 17 to 30 digits: around what 53 and 63 / 64 bits can hold
		fixed := []string{"9223372036854775807", "9223372036854775808", "-9223372036854775808", "-9223372036854775809", "18446744073709551615",
			"18446744073709551616", "9999999999999999999", "99999999999999999999", "9007199254740993", "-9007199254740993",
			"123456789012345678901234567890", "10000000000000000000", "+9300000000000000000"}
		if r.Intn(3) > 0 {
			return fixed[r.Intn(len(fixed))]
		}
		d := make([]byte, 17+r.Intn(5))
		for i := range d {
			d[i] = byte('0' + r.Intn(10))
		}
		d[0] = byte('1' + r.Intn(9))
		return []string{"", "-", ""}[r.Intn(3)] + string(d)
	}
	switch r.Intn(10) {
	case 0, 1, 2, 3:
		return strconv.Itoa(r.Intn(31) - 15)
	case 4:
		return []string{"0", "-0", "0.0", "+3", "007", "-12"}[r.Intn(6)]
	case 5, 6:
		return []string{"1.5", "-0.25", ".5", "2.", "-3.125", "0.1", "12.75", "-.75", "3.14159265358979"}[r.Intn(9)]
	case 7, 8:
		return []string{"1e3", "-2.5E-2", "1e+06", "4E0", "-1e-7", "6.02e23", "1.5e-300", ".5e1"}[r.Intn(8)]
	default:
		return strconv.FormatFloat((r.Float64()-0.5)*200, 'g', -1, 64)
	}
}

func blanks(r *rand.Rand, min int, exotic bool) []int {
	n := min + r.Intn(3)
	if r.Intn(6) == 0 {
		n += r.Intn(6)
	}
	out := []int{}
	for i := 0; i < n; i++ {
		c := ' '
		switch x := r.Intn(20); {
		case x < 6:
			c = '\t'
		case x == 6 && exotic:
			c = '\f'
		case x == 7 && exotic:
			c = '\r'
		}
		out = append(out, int(c))
	}
	return out
}

func smtextDrive(args []string) error {
	if err := need(args, 2, "smtext-drive <out.ndjson> <sessions> [only-sid]"); err != nil {
		return err
	}
	sessions, _ := strconv.Atoi(args[1])
	only := -1
	if len(args) > 2 {
		only, _ = strconv.Atoi(args[2])
	}
	tw, err := newTrace(args[0])
	if err != nil {
		return err
	}
	labelPool := []byte("ACDEFGHIKLMNPQRSTVWYBZX*acgt0123456789!\"$%&'()+,-./:;<=>?@[\\]^_`{|}~#")
	// arbitrary single-byte alphabets: control bytes and bytes >= 0x80 too. Left out: the bytes that some notion of
	// "whitespace" covers (TAB LF VT FF CR space, 0x85, 0xA0: a tokenizer may legitimately treat them as blanks) and 255 (Gap).
	for b := 1; b < 255; b++ {
		if (b < 32 && (b < 9 || b > 13)) || b == 127 || (b >= 128 && b != 0x85 && b != 0xA0) {
			labelPool = append(labelPool, byte(b))
		}
	}
	for sid := 0; sid < sessions; sid++ {
		if only >= 0 && sid != only {
			continue
		}
		r := newRand(int64(sid) + 20000)
		step := 0
		// ---- the table
		var rows, cols []string
		var cells [][]string
		if sid%16 == 5 {
			// a shipped matrix written out as an NCBI table: 24 x 24, '*' for the gap column / row
			src := []align.SubstitutionMatrix{align.BLOSUM62, align.PAM250, align.BLOSUM45}[r.Intn(3)]
			seen := map[byte]bool{}
			var letters []byte
			for k := range src {
				if !seen[k[0]] {
					seen[k[0]] = true
					letters = append(letters, k[0])
				}
			}
			sort.Slice(letters, func(i, j int) bool { return letters[i] < letters[j] })
			name := func(b byte) string {
				if b == align.Gap {
					return "*"
				}
				return string([]byte{b})
			}
			for _, a := range letters {
				rows = append(rows, name(a))
				cols = append(cols, name(a))
			}
			for _, a := range letters {
				var row []string
				for _, b := range letters {
					v, ok := src[[2]byte{a, b}]
					if !ok {
						v = 0
					}
					row = append(row, strconv.FormatFloat(v, 'g', -1, 64))
				}
				cells = append(cells, row)
			}
		} else {
			nr, nc := r.Intn(7), 1+r.Intn(6)
			if r.Intn(3) == 0 {
				nr = nc // square
			}
			if r.Intn(12) == 0 {
				nr = 0
			}
			pick := func(n int, allowHash bool) []string {
				var out []string
				used := map[byte]bool{}
				for len(out) < n {
					c := labelPool[r.Intn(len(labelPool))]
					if r.Intn(3) == 0 {
						c = "ACGT*"[r.Intn(5)]
					}
					if used[c] || (c == '#' && !allowHash) {
						continue
					}
					used[c] = true
					out = append(out, string([]byte{c}))
				}
				return out
			}
			rows = pick(nr, true) // '#' is a legal symbol as long as it does not open a line: such rows are indented
			cols = pick(nc, nc >= 2)
			if r.Intn(3) == 0 && nr == nc {
				copy(rows, cols) // same alphabet on both sides
				for i := range rows {
					if rows[i] == "#" {
						rows[i] = "N"
						cols[i] = "N"
					}
				}
				// "N" may now repeat: make labels distinct again
				seen := map[string]bool{}
				for i := range rows {
					for seen[rows[i]] {
						rows[i] = string([]byte{labelPool[r.Intn(24)]})
						cols[i] = rows[i]
					}
					seen[rows[i]] = true
				}
			}
			for i := 0; i < nr; i++ {
				var row []string
				for j := 0; j < nc; j++ {
					row = append(row, scoreToken(r))
				}
				cells = append(cells, row)
			}
		}
		table := smTable{Rows: [][]int{}, Cols: [][]int{}, Cells: [][][]int{}}
		for _, x := range rows {
			table.Rows = append(table.Rows, sints(x))
		}
		for _, x := range cols {
			table.Cols = append(table.Cols, sints(x))
		}
		for _, row := range cells {
			cr := [][]int{}
			for _, x := range row {
				cr = append(cr, sints(x))
			}
			table.Cells = append(table.Cells, cr)
		}

		// ---- one layout of the table
		type layout struct {
			lines []smLine
			data  []int // indices of the token lines (header first)
			eol   string
			final bool
		}
		mkLayout := func(plain bool) layout {
			rp, cp := r.Perm(len(rows)), r.Perm(len(cols))
			if plain {
				for i := range rp {
					rp[i] = i
				}
				for i := range cp {
					cp[i] = i
				}
			}
			if cols[cp[0]] == "#" && r.Intn(2) == 0 { // '#' must not open a line: move it, or indent the header (below)
				cp[0], cp[len(cp)-1] = cp[len(cp)-1], cp[0]
			}
			exotic := !plain && r.Intn(4) == 0
			tline := func(toks []string, indent bool) smLine {
				l := smLine{K: "t", Body: []int{}, Pre: []int{}, Toks: [][]int{}, Seps: [][]int{}, Post: []int{}}
				if indent {
					l.Pre = blanks(r, 1, false)
				}
				for j, t := range toks {
					l.Toks = append(l.Toks, sints(t))
					if j < len(toks)-1 {
						if plain {
							l.Seps = append(l.Seps, []int{' '})
						} else {
							l.Seps = append(l.Seps, blanks(r, 1, exotic))
						}
					}
				}
				if !plain && r.Intn(4) == 0 {
					l.Post = blanks(r, 1, false)
				}
				return l
			}
			comment := func() smLine {
				c := []string{"#", "# comment", "#\tMatrix made by hand", "## A C", "#A 1 2 3", "# * x", "#  Lowest score = -4, Highest score = 11"}[r.Intn(7)]
				return cLine(c)
			}
			var lay layout
			decorate := func() {
				if plain {
					return
				}
				for r.Intn(3) == 0 {
					if r.Intn(2) == 0 {
						lay.lines = append(lay.lines, comment())
					} else {
						lay.lines = append(lay.lines, eLine())
					}
				}
			}
			decorate()
			var hdr []string
			for _, j := range cp {
				hdr = append(hdr, cols[j])
			}
			lay.data = append(lay.data, len(lay.lines))
			lay.lines = append(lay.lines, tline(hdr, (!plain && r.Intn(2) == 0) || hdr[0] == "#"))
			indentRows := !plain && r.Intn(4) == 0
			for _, i := range rp {
				decorate()
				toks := []string{rows[i]}
				for _, j := range cp {
					toks = append(toks, cells[i][j])
				}
				lay.data = append(lay.data, len(lay.lines))
				lay.lines = append(lay.lines, tline(toks, indentRows || rows[i] == "#"))
			}
			decorate()
			lay.eol = "\n"
			lay.final = true
			if !plain {
				if r.Intn(5) == 0 {
					lay.eol = "\r\n"
				}
				lay.final = r.Intn(5) > 0
			}
			return lay
		}

		run := func(kind, note string, lay layout) {
			text := renderLines(lay.lines, lay.eol, lay.final)
			ev := smEvent{Sid: sid, Step: step, Op: "readncbi", Kind: kind, Note: note, Table: table, Lines: lay.lines,
				Eol: sints(lay.eol), Final: lay.final, Text: ints(text), Num: []smNum{}, Res: [][]any{}}
			if ev.Lines == nil {
				ev.Lines = []smLine{}
			}
			step++
			seen := map[string]bool{}
			for _, l := range lay.lines {
				for _, t := range l.Toks {
					s := string(unints(t))
					if !seen[s] {
						seen[s] = true
						f, err := strconv.ParseFloat(s, 64)
						ev.Num = append(ev.Num, smNum{T: t, OK: err == nil, A: atom(f)})
					}
				}
			}
			var m align.SubstitutionMatrix
			var rerr error
			if p, msg := catch(func() { m, rerr = smtext.ReadNCBI(strings.NewReader(string(text))) }); p {
				ev.Err, ev.NilM, ev.Msg = true, false, "panic: "+msg // a panic is neither a matrix nor an error value
				ev.Res = [][]any{{0, 0, "panic"}}
			} else {
				ev.Err = rerr != nil
				ev.NilM = m == nil
				ev.Res = triples(m)
				if rerr != nil {
					ev.Msg = rerr.Error()
				}
			}
			tw.emit(ev)
		}

		nlay := 4
		if len(rows) > 10 {
			nlay = 2
		}
		run("layout", "plain", mkLayout(true))
		for i := 0; i < nlay; i++ {
			run("layout", "random layout", mkLayout(false))
		}

		// ---- single-token corruptions of a layout
		ncor := 6
		for c := 0; c < ncor; c++ {
			lay := mkLayout(r.Intn(2) == 0)
			lines := append([]smLine{}, lay.lines...)
			edit := func(di int, f func(l *smLine)) {
				li := lay.data[di]
				l := lines[li]
				l.Toks = append([][]int{}, l.Toks...)
				l.Seps = append([][]int{}, l.Seps...)
				f(&l)
				lines[li] = l
			}
			nonnum := []string{"x", "1.2.3", "-", "1e", "ab", "+-1", "1x", "--2", "1,5", "e5", "0..1", "12a", "*"}
			multi := []string{"AB", "**", "Gap", "A*", "AA", "#A", "a1", "10"}
			note := ""
			switch kind := r.Intn(5); {
			case kind == 0 && len(rows) > 0: // a row loses a value
				di := 1 + r.Intn(len(rows))
				edit(di, func(l *smLine) {
					ti := 1 + r.Intn(len(l.Toks)-1)
					l.Toks = append(l.Toks[:ti], l.Toks[ti+1:]...)
					if len(l.Seps) > 0 {
						si := ti - 1
						l.Seps = append(l.Seps[:si], l.Seps[si+1:]...)
					}
				})
				note = "row with one value less"
			case kind == 1 && len(rows) > 0: // a row gains a value
				di := 1 + r.Intn(len(rows))
				edit(di, func(l *smLine) {
					l.Toks = append(l.Toks, sints(scoreToken(r)))
					l.Seps = append(l.Seps, []int{' '})
				})
				note = "row with one value more"
			case kind == 2 && len(rows) > 0: // a non-numeric score
				di := 1 + r.Intn(len(rows))
				tok := nonnum[r.Intn(len(nonnum))]
				edit(di, func(l *smLine) { l.Toks[1+r.Intn(len(l.Toks)-1)] = sints(tok) })
				note = "non-numeric score " + strconv.Quote(tok)
			case kind == 3 && len(rows) > 0: // a multi-character row label
				di := 1 + r.Intn(len(rows))
				tok := multi[r.Intn(len(multi))]
				if tok[0] == '#' {
					tok = "A#"
				}
				edit(di, func(l *smLine) { l.Toks[0] = sints(tok) })
				note = "multi-character row label " + strconv.Quote(tok)
			default: // a multi-character column label; with rows also: the header gains / loses a label
				tok := multi[r.Intn(len(multi))]
				sub := r.Intn(3)
				if len(rows) == 0 {
					sub = 0
				}
				edit(0, func(l *smLine) {
					switch {
					case sub == 1:
						l.Toks = append(l.Toks, sints("J"))
						l.Seps = append(l.Seps, []int{'\t'})
						note = "header with one label more"
					case sub == 2 && len(l.Toks) >= 2:
						l.Toks = l.Toks[:len(l.Toks)-1]
						l.Seps = l.Seps[:len(l.Seps)-1]
						note = "header with one label less"
					default:
						ti := r.Intn(len(l.Toks))
						if ti == 0 && len(l.Pre) == 0 && tok[0] == '#' {
							tok = "A#"
						}
						l.Toks[ti] = sints(tok)
						note = "multi-character column label " + strconv.Quote(tok)
					}
				})
			}
			lay.lines = lines
			run("corrupt", note, lay)
		}

		// ---- texts without any table in them
		if sid%8 == 0 {
			run("free", "empty text", layout{lines: nil, eol: "\n", final: false})
			run("free", "comments and empty lines only", layout{lines: []smLine{cLine("# nothing"), eLine(), cLine("#")}, eol: "\n", final: true})
		}
	}
	return tw.close()
}

// ---------------------------------------------------------------- Symmetrical, GoString

type mxEvent struct {
	Sid     int     `json:"sid"`
	Step    int     `json:"step"`
	Op      string  `json:"op"` // "symmetrical", "gostring"
	Note    string  `json:"note"`
	M       [][]any `json:"m"`     // the receiver before the call
	After   [][]any `json:"after"` // the receiver after the call
	Panic   bool    `json:"panic"`
	Res     [][]any `json:"res"`     // Symmetrical: the returned matrix
	ParseOK bool    `json:"parseok"` // GoString: the text is a Go composite literal of SubstitutionMatrix
	Out     [][]any `json:"out"`     // GoString: the (x, y, score) it denotes, in text order
	Msg     string  `json:"msg"`     // diagnostics only
	// beyond the listed properties: op "get" (Get(x, y): val = atom of the result), op "stepname" (Step(x).String() = name)
	X    int    `json:"x"`
	Y    int    `json:"y"`
	Val  string `json:"val"`
	Name string `json:"name"`
}

// getEvent: SubstitutionMatrix.Get on a pair that is / is not in the matrix
func getEvent(sid int, m align.SubstitutionMatrix, x, y byte) mxEvent {
	ev := mxEvent{Sid: sid, Op: "get", M: triples(m), Res: [][]any{}, Out: [][]any{}, X: int(x), Y: int(y)}
	var v float64
	ev.Panic, ev.Msg = catch(func() { v = m.Get(x, y) })
	if !ev.Panic {
		ev.Val = atom(v)
	}
	ev.After = triples(m)
	return ev
}

// stepNameEvent: Step.String for any byte value
func stepNameEvent(sid int, x byte) mxEvent {
	ev := mxEvent{Sid: sid, Op: "stepname", M: [][]any{}, After: [][]any{}, Res: [][]any{}, Out: [][]any{}, X: int(x)}
	ev.Panic, ev.Msg = catch(func() { ev.Name = align.Step(x).String() })
	return ev
}

// evalByte evaluates a key element of the generated source: a character / integer constant or the
// identifier Gap.
func evalByte(e ast.Expr) (int, error) {
	switch x := e.(type) {
	case *ast.Ident:
		if x.Name == "Gap" {
			return align.Gap, nil
		}
		return 0, fmt.Errorf("unknown identifier %s", x.Name)
	case *ast.SelectorExpr:
		if x.Sel.Name == "Gap" {
			return align.Gap, nil
		}
		return 0, fmt.Errorf("unknown selector %s", x.Sel.Name)
	case *ast.BasicLit:
		if x.Kind != token.CHAR && x.Kind != token.INT {
			return 0, fmt.Errorf("key element %s is not a byte constant", x.Value)
		}
		v := constant.MakeFromLiteral(x.Value, x.Kind, 0)
		n, ok := constant.Int64Val(v)
		if v.Kind() == constant.Unknown || !ok || n < 0 || n > 255 {
			return 0, fmt.Errorf("key element %s overflows byte", x.Value)
		}
		return int(n), nil
	}
	return 0, fmt.Errorf("unsupported key element %T", e)
}

// evalFloat evaluates a score expression of the generated source as the Go compiler would for a
// float64 element: an untyped numeric constant rounded to the nearest float64.
func evalFloat(e ast.Expr) (float64, error) {
	var ev func(e ast.Expr) (constant.Value, error)
	ev = func(e ast.Expr) (constant.Value, error) {
		switch x := e.(type) {
		case *ast.BasicLit:
			if x.Kind != token.INT && x.Kind != token.FLOAT && x.Kind != token.CHAR {
				return nil, fmt.Errorf("score %s is not a numeric constant", x.Value)
			}
			v := constant.MakeFromLiteral(x.Value, x.Kind, 0)
			if v.Kind() == constant.Unknown {
				return nil, fmt.Errorf("bad literal %s", x.Value)
			}
			return v, nil
		case *ast.ParenExpr:
			return ev(x.X)
		case *ast.UnaryExpr:
			v, err := ev(x.X)
			if err != nil {
				return nil, err
			}
			if x.Op != token.SUB && x.Op != token.ADD {
				return nil, fmt.Errorf("unsupported operator %s", x.Op)
			}
			return constant.UnaryOp(x.Op, v, 0), nil
		}
		return nil, fmt.Errorf("unsupported score expression %T", e)
	}
	v, err := ev(e)
	if err != nil {
		return 0, err
	}
	f, _ := constant.Float64Val(constant.ToFloat(v))
	if math.IsInf(f, 0) {
		return 0, fmt.Errorf("constant overflows float64")
	}
	return f, nil
}

func evalMatrixLit(e ast.Expr) ([][]any, error) {
	cl, ok := e.(*ast.CompositeLit)
	if !ok {
		return nil, fmt.Errorf("not a composite literal: %T", e)
	}
	switch t := cl.Type.(type) {
	case *ast.Ident:
		if t.Name != "SubstitutionMatrix" {
			return nil, fmt.Errorf("literal of type %s", t.Name)
		}
	case *ast.SelectorExpr:
		if t.Sel.Name != "SubstitutionMatrix" {
			return nil, fmt.Errorf("literal of type %s", t.Sel.Name)
		}
	default:
		return nil, fmt.Errorf("literal of unexpected type %T", cl.Type)
	}
	out := [][]any{}
	for _, el := range cl.Elts {
		kv, ok := el.(*ast.KeyValueExpr)
		if !ok {
			return nil, fmt.Errorf("element without key")
		}
		key, ok := kv.Key.(*ast.CompositeLit)
		if !ok || len(key.Elts) != 2 {
			return nil, fmt.Errorf("key is not a pair")
		}
		x, err := evalByte(key.Elts[0])
		if err != nil {
			return nil, err
		}
		y, err := evalByte(key.Elts[1])
		if err != nil {
			return nil, err
		}
		f, err := evalFloat(kv.Value)
		if err != nil {
			return nil, err
		}
		out = append(out, []any{x, y, atom(f)})
	}
	return out, nil
}

// goStringEvent: m -> %#v -> go/parser -> triples
func goStringEvent(sid, step int, note string, m align.SubstitutionMatrix) mxEvent {
	ev := mxEvent{Sid: sid, Step: step, Op: "gostring", Note: note, M: triples(m), Res: [][]any{}, Out: [][]any{}}
	var text string
	if p, msg := catch(func() { text = fmt.Sprintf("%#v", m) }); p {
		ev.Panic, ev.Msg = true, msg
		ev.After = triples(m)
		return ev
	}
	ev.After = triples(m)
	expr, err := parser.ParseExpr(text)
	if err != nil {
		ev.Msg = err.Error()
		return ev
	}
	out, err := evalMatrixLit(expr)
	if err != nil {
		ev.Msg = err.Error()
		return ev
	}
	ev.ParseOK, ev.Out = true, out
	return ev
}

// genncbiEvent follows align/genncbi: ReadNCBI -> m[{Gap,Gap}] = 0 -> "%s = %#v" inside a function of
// package align -> go/format -> (here) parsed back.
func genncbiEvent(sid, step int, table string) mxEvent {
	ev := mxEvent{Sid: sid, Step: step, Op: "gostring", Note: "genncbi flow", M: [][]any{}, After: [][]any{}, Res: [][]any{}, Out: [][]any{}}
	m, err := smtext.ReadNCBI(strings.NewReader(table))
	if err != nil {
		ev.Msg = "ReadNCBI: " + err.Error()
		return ev
	}
	m[[2]byte{align.Gap, align.Gap}] = 0
	ev.M = triples(m)
	src := []byte(fmt.Sprintf("package align\n\nfunc init() {\n%s = %#v}", "Generated", m))
	ev.After = triples(m)
	src, err = format.Source(src)
	if err != nil {
		ev.Msg = "go/format: " + err.Error()
		return ev
	}
	fset := token.NewFileSet()
	f, err := parser.ParseFile(fset, "gen.go", src, 0)
	if err != nil {
		ev.Msg = "go/parser: " + err.Error()
		return ev
	}
	var lit ast.Expr
	ast.Inspect(f, func(n ast.Node) bool {
		if as, ok := n.(*ast.AssignStmt); ok && len(as.Rhs) == 1 && lit == nil {
			lit = as.Rhs[0]
		}
		return true
	})
	if lit == nil {
		ev.Msg = "no assignment in the generated source"
		return ev
	}
	out, err := evalMatrixLit(lit)
	if err != nil {
		ev.Msg = err.Error()
		return ev
	}
	ev.ParseOK, ev.Out = true, out
	return ev
}

func symmetricalEvent(sid, step int, note string, m align.SubstitutionMatrix) mxEvent {
	ev := mxEvent{Sid: sid, Step: step, Op: "symmetrical", Note: note, M: triples(m), Res: [][]any{}, Out: [][]any{}}
	var res align.SubstitutionMatrix
	p, msg := catch(func() { res = m.Symmetrical() })
	ev.Panic, ev.Msg = p, msg
	ev.After = triples(m)
	if !p {
		ev.Res = triples(res)
		// "a new matrix": writing to the result must not reach the receiver
		for k := range res {
			res[k] = 12345.5
		}
		res[[2]byte{1, 2}] = 1
		if a2 := triples(m); fmt.Sprint(a2) != fmt.Sprint(ev.After) {
			ev.After = a2
			ev.Msg = "receiver changed when the result was written to"
		}
	}
	return ev
}

func matrixDrive(args []string) error {
	if err := need(args, 2, "matrix-drive <out.ndjson> <sessions> [only-sid]"); err != nil {
		return err
	}
	sessions, _ := strconv.Atoi(args[1])
	only := -1
	if len(args) > 2 {
		only, _ = strconv.Atoi(args[2])
	}
	tw, err := newTrace(args[0])
	if err != nil {
		return err
	}
	shipped := []align.SubstitutionMatrix{align.BLOSUM62, align.BLOSUM45, align.BLOSUM80, align.PAM120, align.PAM160, align.PAM250}
	shippedNames := []string{"BLOSUM62", "BLOSUM45", "BLOSUM80", "PAM120", "PAM160", "PAM250"}
	letterPool := []byte{'A', 'C', 'a', 0, align.Gap, 200, '*', '\'', '\\', '"', 0x7f, 0x80, '\n', 'Z', ' ', 254, 1}
	for sid := 0; sid < sessions; sid++ {
		if only >= 0 && sid != only {
			continue
		}
		r := newRand(int64(sid) + 20500)
		step := 0
		emit := func(ev mxEvent) {
			ev.Step = step
			step++
			tw.emit(ev)
		}
		randomMatrix := func(scores []float64) align.SubstitutionMatrix {
			na := 1 + r.Intn(5)
			perm := r.Perm(len(letterPool))
			m := align.SubstitutionMatrix{}
			density := 30 + r.Intn(70)
			for i := 0; i < na; i++ {
				for j := 0; j < na; j++ {
					if r.Intn(100) < density {
						m[[2]byte{letterPool[perm[i]], letterPool[perm[j]]}] = scores[r.Intn(len(scores))]
					}
				}
			}
			return m
		}
		// beyond the listed properties: Get (documented to panic on a missing pair) and Step.String
		{
			m := randomMatrix([]float64{1, -2.5, 0, 1e6})
			keys := triples(m)
			for i := 0; i < 6; i++ {
				x, y := letterPool[r.Intn(len(letterPool))], letterPool[r.Intn(len(letterPool))]
				if i%2 == 0 && len(keys) > 0 {
					k := keys[r.Intn(len(keys))]
					x, y = byte(k[0].(int)), byte(k[1].(int))
				}
				emit(getEvent(sid, m, x, y))
			}
			if sid == 0 {
				for x := 0; x < 256; x++ {
					emit(stepNameEvent(sid, byte(x)))
				}
			}
		}
		switch sid % 4 {
		case 0, 1: // Symmetrical on partial matrices, with and without mirrored conflicts
			few := []float64{1, 2}
			if r.Intn(2) == 0 {
				few = []float64{1, 2, -1.5, 0, 1e6, 0.1}
			}
			for i := 0; i < 8; i++ {
				m := randomMatrix(few)
				if r.Intn(3) == 0 { // repair all conflicts but possibly one
					for k, v := range m {
						if _, ok := m[[2]byte{k[1], k[0]}]; ok {
							m[[2]byte{k[1], k[0]}] = v
						}
					}
					if r.Intn(2) == 0 && len(m) > 0 {
						for k := range m {
							if k[0] != k[1] {
								// the single remaining conflict: a whole unit, or the smallest difference float64 can hold
								d := []float64{1, 1, math.Nextafter(m[k], math.Inf(1)) - m[k], 1e-12}[r.Intn(4)]
								if m[k]+d == m[k] {
									d = 1
								}
								m[[2]byte{k[1], k[0]}] = m[k] + d
								break
							}
						}
					}
				}
				emit(symmetricalEvent(sid, 0, "random partial matrix", m))
			}
			if sid%8 == 0 {
				i := r.Intn(len(shipped))
				m := cloneMatrix(shipped[i])
				emit(symmetricalEvent(sid, 0, shippedNames[i], m))
				// upper triangle only: Symmetrical must rebuild the full matrix
				tri := align.SubstitutionMatrix{}
				for k, v := range m {
					if k[0] <= k[1] {
						tri[k] = v
					}
				}
				emit(symmetricalEvent(sid, 0, shippedNames[i]+" upper triangle", tri))
				// one mirrored entry changed: must panic
				for k := range m {
					if k[0] != k[1] {
						m[k] += 0.5
						break
					}
				}
				emit(symmetricalEvent(sid, 0, shippedNames[i]+" with one entry changed", m))
			}
		case 2: // GoString
			wide := []float64{0, 1, -1, 2, -4, 11, 0.1, -2.5, 1.5, 1e-7, 1e21, 1e20, 123456789.125, 1.0 / 3, math.MaxFloat64,
				math.SmallestNonzeroFloat64, -1e-300, 100000, 1e6, 2.5e-5, float64(1<<53) + 2, 0.30000000000000004}
			for i := 0; i < 8; i++ {
				emit(goStringEvent(sid, 0, "random matrix", randomMatrix(wide)))
			}
			emit(goStringEvent(sid, 0, "empty matrix", align.SubstitutionMatrix{}))
			if sid%8 == 2 {
				i := r.Intn(len(shipped))
				emit(goStringEvent(sid, 0, shippedNames[i], shipped[i]))
			}
			// all 256 x few keys: the order over the whole byte range
			m := align.SubstitutionMatrix{}
			for i := 0; i < 40; i++ {
				m[[2]byte{byte(r.Intn(256)), byte(r.Intn(256))}] = wide[r.Intn(len(wide))]
			}
			emit(goStringEvent(sid, 0, "keys over the whole byte range", m))
			// complete rows and columns: one symbol against every byte value (a wildcard), and the other way round
			m = randomMatrix(wide)
			x, y := byte(r.Intn(256)), byte(r.Intn(256))
			for b := 0; b < 256; b++ {
				m[[2]byte{x, byte(b)}] = wide[r.Intn(len(wide))]
				if sid%8 == 2 {
					m[[2]byte{byte(b), y}] = wide[r.Intn(len(wide))]
				}
			}
			emit(goStringEvent(sid, 0, "a complete row", m))
			if sid == 6 { // complete over all bytes
				emit(goStringEvent(sid, 0, "Levenshtein", align.Levenshtein))
			}
		case 3: // the flow of align/genncbi on a small table
			letters := []string{"A", "R", "N", "D", "*", "x", "'", "\\"}
			n := 1 + r.Intn(len(letters))
			perm := r.Perm(len(letters))
			var sb strings.Builder
			sb.WriteString("# generated\n ")
			for j := 0; j < n; j++ {
				sb.WriteString("  " + letters[perm[j]])
			}
			sb.WriteString("\n")
			for i := 0; i < n; i++ {
				sb.WriteString(letters[perm[i]])
				for j := 0; j < n; j++ {
					sb.WriteString(" " + scoreToken(r))
				}
				sb.WriteString("\n")
			}
			table := strings.ReplaceAll(sb.String(), "-0 ", "0 ") // -0 is written back as 0 by Go source: outside "exact"
			table = strings.ReplaceAll(table, "-0\n", "0\n")
			emit(genncbiEvent(sid, 0, table))
		}
	}
	return tw.close()
}
