package main

import (
	"bytes"
	"io"
	"iter"
	"math/rand"
	"strconv"
	"strings"

	"github.com/fluhus/biostuff/formats/fastq"
)

func init() {
	register("fastq-drive", fastqDrive)
	register("fastq-replay", fastqReplay)
}

type fqItem struct {
	K     string `json:"k"` // rec | err
	Name  []int  `json:"name"`
	Seq   []int  `json:"seq"`
	Quals []int  `json:"quals"`
}

func fqProject(f *fastq.Fastq) fqItem {
	return fqItem{"rec", ints(f.Name), ints(f.Sequence), ints(f.Quals)}
}

var fqErr = fqItem{"err", []int{}, []int{}, []int{}}

// fqRead: the item sequence of the real Reader (records and errors, in order; capped).
// fqPairedWith: when set, fqRead advances a second reader over this text in lockstep
var fqPairedWith []byte

func fqRead(data []byte) (items []fqItem, panicked bool) {
	items = []fqItem{}
	var kept []*fastq.Fastq // nil = error item; records are projected after the iteration (they must stay what they were)
	panicked, _ = catch(func() {
		if failedReadsFirst { // (one malformed text before each recorded read, in turn: a pool hands back what was put last)
			ts := malformedTexts["fastq"]
			t := ts[malformedNext%len(ts)]
			malformedNext++
			for range fastq.Reader(strings.NewReader(t)) {
			}
		}
		seq := fastq.Reader(deliver(data))
		if fqPairedWith != nil { // consumed in lockstep with a reader over another text (paired-end files are read like this)
			next, stop := iter.Pull2(fastq.Reader(bytes.NewReader(fqPairedWith)))
			defer stop()
			inner := seq
			seq = func(yield func(*fastq.Fastq, error) bool) {
				for f, err := range inner {
					next()
					if !yield(f, err) {
						return
					}
				}
			}
		}
		for f, err := range seq {
			if err != nil {
				kept = append(kept, nil)
			} else {
				kept = append(kept, f)
			}
			if len(kept) > 200000 {
				break
			}
		}
	})
	// the consumer appends to the fields of the records it holds (names get suffixes, reads get trimmed and extended): what it
	// appends to one field must not show in another field or in another record
	if fqGrow {
		p, _ := catch(func() {
			for _, f := range kept {
				if f != nil {
					n1, n2, n3 := len(f.Name), len(f.Sequence), len(f.Quals)
					grown(f.Name)
					grown(f.Sequence)
					grown(f.Quals)
					f.Name, f.Sequence, f.Quals = f.Name[:n1], f.Sequence[:n2], f.Quals[:n3]
				}
			}
		})
		panicked = panicked || p
	}
	for _, f := range kept {
		if f == nil {
			items = append(items, fqErr)
		} else {
			items = append(items, fqProject(f))
		}
	}
	return
}

// fqGrow: set per session
var fqGrow bool

func fqItemsEqual(a, b []fqItem) bool {
	if len(a) != len(b) {
		return false
	}
	for i := range a {
		if a[i].K != b[i].K || !bytes.Equal(unints(a[i].Name), unints(b[i].Name)) ||
			!bytes.Equal(unints(a[i].Seq), unints(b[i].Seq)) || !bytes.Equal(unints(a[i].Quals), unints(b[i].Quals)) {
			return false
		}
	}
	return true
}

// ---------------------------------------------------------------- leg R
type fqCase struct {
	Text  []int    `json:"text"`
	Items []fqItem `json:"items"` // the specification's Denote(text)
	J     int      `json:"j"`
	Kind  string   `json:"kind"`
}

func fastqReplay(args []string) error {
	if err := need(args, 2, "fastq-replay <cases.json> <out.json>"); err != nil {
		return err
	}
	var cases []fqCase
	if err := readJSON(args[0], &cases); err != nil {
		return err
	}
	var mm []mismatch
	for i, c := range cases {
		for j := range c.Items { // the model prints error items without the record fields
			if c.Items[j].K == "err" {
				c.Items[j] = fqErr
			}
		}
		items, panicked := fqRead(unints(c.Text))
		if panicked || !fqItemsEqual(items, c.Items) {
			mm = append(mm, mismatch{i, "reader", "items-differ", map[string]any{"items": items, "panic": panicked}, c.Items})
		}
	}
	return writeJSON(args[1], map[string]any{"executed": len(cases), "mismatches": mm})
}

// ---------------------------------------------------------------- leg T
type fqEvent struct {
	Sid    int      `json:"sid"`
	Op     string   `json:"op"`
	Kind   string   `json:"kind"`
	Name   []int    `json:"name"`
	Seq    []int    `json:"seq"`
	Quals  []int    `json:"quals"`
	BW     []int    `json:"bw"`
	BM     []int    `json:"bm"`
	WErr   bool     `json:"werr"`
	MPanic bool     `json:"mpanic"`
	Bytes  []int    `json:"bytes"`
	Recs   []fqItem `json:"recs"`
	J      int      `json:"j"`
	Items  []fqItem `json:"items"`
	Panic  bool     `json:"panic"`
}

var fqLongLens = []int{4095, 4096, 4097, 65535, 65536, 65537, 70001}

func fqBytes(r *rand.Rand, n int) []byte { return faRandBytes(r, n, "\r\n") }

func fqLines(recs []*fastq.Fastq) [][]byte {
	var ls [][]byte
	for _, f := range recs {
		ls = append(ls, append([]byte{'@'}, f.Name...), f.Sequence, []byte{'+'}, f.Quals)
	}
	return ls
}

func fqJoin(ls [][]byte, crlf bool) []byte {
	var out []byte
	for _, l := range ls {
		out = append(out, l...)
		if crlf {
			out = append(out, '\r')
		}
		out = append(out, '\n')
	}
	return out
}

var fqKinds = []string{"no-at", "junk-before-at", "no-plus", "plus-gone", "quals-long", "quals-short", "cut1", "cut2", "cut3", "cut-mid"}

// fqCorrupt makes record j (1-based) structurally malformed; ok=false if this kind is not a corruption of this record.
func fqCorrupt(r *rand.Rand, recs []*fastq.Fastq, j int, kind string, crlf bool) (data []byte, ok bool) {
	ls := fqLines(recs)
	b := 4 * (j - 1)
	f := recs[j-1]
	cp := func(x []byte) []byte { return append([]byte{}, x...) }
	switch kind {
	case "no-at":
		if len(f.Name) > 0 && f.Name[0] == '@' {
			return nil, false
		}
		ls[b] = cp(f.Name)
	case "junk-before-at": // the '@' is there, but not as the first byte of the line (invisible or blank bytes before it)
		junk := []string{"\xef\xbb\xbf", " ", "\t", "\xc2\xa0", "\x00", "\xfe\xff", "\v"}[r.Intn(7)]
		ls[b] = append([]byte(junk), ls[b]...)
	case "no-plus":
		ls[b+2] = []byte{}
		if r.Intn(2) == 0 {
			ls[b+2] = []byte("-")
		}
	case "plus-gone":
		rest := append(append([][]byte{}, ls[b:b+2]...), ls[b+3:]...)
		if len(rest) >= 4 && len(rest[2]) > 0 && rest[2][0] == '+' && len(rest[3]) == len(rest[1]) {
			return nil, false // re-synchronises into a well-formed group
		}
		ls = append(ls[:b+2:b+2], ls[b+3:]...)
	case "quals-long":
		ls[b+3] = append(cp(f.Quals), fqBytes(r, 1+r.Intn(3))...)
	case "quals-short":
		if len(f.Quals) == 0 {
			return nil, false
		}
		ls[b+3] = cp(f.Quals[:len(f.Quals)-1-r.Intn(min(3, len(f.Quals)))])
	case "cut1":
		ls = ls[:b+1]
	case "cut2":
		ls = ls[:b+2]
	case "cut3":
		ls = ls[:b+3]
	case "cut-mid": // cut inside line 2 of record j (no terminator after the fragment)
		if len(f.Sequence) < 2 {
			return nil, false
		}
		data = fqJoin(ls[:b+1], crlf)
		return append(data, f.Sequence[:1+r.Intn(len(f.Sequence)-1)]...), true
	}
	return fqJoin(ls, crlf), true
}

// fqAlignedFile: many ordinary reads, written by hand, one record's sequence line ending exactly at offset `aligned` of the file
func fqAlignedFile(r *rand.Rand, aligned int) []byte {
	var out []byte
	add := func(name, seq int) {
		out = append(append(append(out, '@'), fqBytes(r, name)...), '\n')
		out = append(append(out, fqBytes(r, seq)...), "\n+\n"...)
		out = append(append(out, fqBytes(r, seq)...), '\n')
	}
	for len(out) < aligned-900 {
		add(5+r.Intn(20), 100+r.Intn(100))
	}
	add(aligned-len(out)-3-150, 150)
	for len(out) < 2*aligned+5000 { // (and as much again behind it: the refill that follows is a full one)
		add(5+r.Intn(20), 100+r.Intn(100))
	}
	return out
}

func fastqDrive(args []string) error {
	if err := need(args, 2, "fastq-drive <out.ndjson> <sessions> [only-sid]"); err != nil {
		return err
	}
	sessions, _ := strconv.Atoi(args[1])
	only := -1
	if len(args) > 2 {
		only, _ = strconv.Atoi(args[2])
	}
	tw, err := newTrace(args[0])
	if err != nil {
		return err
	}
	for sid := 0; sid < sessions; sid++ {
		if only >= 0 && sid != only {
			continue
		}
		r := newRand(int64(sid) + 2000)
		nrec := r.Intn(7)
		long := -1
		if sid < len(fqLongLens) {
			long = fqLongLens[sid]
			nrec = 1 + r.Intn(3)
		} else if thorough() && sid == len(fqLongLens) {
			long, nrec = 1<<20, 2
		} else if thorough() && sid == len(fqLongLens)+1 {
			long, nrec = 8<<20, 1
		}
		// two sessions: many ordinary reads, laid out so that one record's sequence line ends exactly at (one byte before) a large
		// power-of-two offset of the file: 2^16 in every run, 2^20 in the thorough tier (buffers that are refilled mid-record)
		aligned := 0
		if sid == len(fqLongLens)+2 || sid == len(fqLongLens)+3 {
			aligned = 1 << 16
			if thorough() {
				aligned = 1 << 20
			}
			aligned -= sid - (len(fqLongLens) + 2)
			nrec = 0
		}
		var recs []*fastq.Fastq
		if aligned > 0 {
			cur := 0
			add := func(name, seq int) {
				f := &fastq.Fastq{Name: fqBytes(r, name), Sequence: fqBytes(r, seq), Quals: fqBytes(r, seq)}
				recs = append(recs, f)
				cur += 1 + name + 1 + seq + 1 + 2 + seq + 1
			}
			for cur < aligned-900 {
				add(5+r.Intn(20), 100+r.Intn(100))
			}
			// '@' name LF seq LF: the LF of the sequence line is byte number `aligned` of the file
			seq := 150
			add(aligned-cur-3-seq, seq)
			for cur < 2*aligned+5000 { // (and as much again behind it: the refill that follows is a full one)
				add(5+r.Intn(20), 100+r.Intn(100))
			}
		}
		for i := 0; i < nrec; i++ {
			n := []int{0, 1, 2, 3, 50, 100, 150, 151, 250}[r.Intn(9)]
			if r.Intn(3) == 0 {
				n = r.Intn(300)
			}
			if long >= 0 && i == nrec-1 {
				n = long
			}
			f := &fastq.Fastq{Sequence: fqBytes(r, n), Quals: fqBytes(r, n)}
			switch r.Intn(6) {
			case 0:
				f.Name = nil
			case 1:
				f.Name = append([]byte{"@+"[r.Intn(2)]}, fqBytes(r, r.Intn(5))...)
			default:
				f.Name = fqBytes(r, 1+r.Intn(40))
			}
			if r.Intn(5) == 0 && n > 0 { // sequence / qualities that look like structure
				f.Sequence[0], f.Quals[0] = "@+"[r.Intn(2)], "@+"[r.Intn(2)]
			}
			recs = append(recs, f)
		}
		want := []fqItem{}
		for _, f := range recs {
			want = append(want, fqProject(f))
		}
		// all fields of all records back to back in one array, handed out as plain sub-slices (capacity runs into the
		// next field): a writer must not touch anything beyond len() of what it was given
		{
			var arena []byte
			for _, f := range recs {
				arena = append(append(append(arena, f.Name...), f.Sequence...), f.Quals...)
			}
			arena = append([]byte{}, arena...)
			o := 0
			for _, f := range recs {
				if f.Name != nil {
					f.Name = arena[o : o+len(f.Name)]
				}
				o += len(f.Name)
				f.Sequence = arena[o : o+len(f.Sequence)]
				o += len(f.Sequence)
				f.Quals = arena[o : o+len(f.Quals)]
				o += len(f.Quals)
			}
		}
		var own []byte
		type held struct {
			ev fqEvent
			bm []byte
		}
		var hs []held // MarshalText results are looked at only after all records were marshalled and written
		for i, f := range recs {
			ev := fqEvent{Sid: sid, Op: "write", Kind: "write", Name: want[i].Name, Seq: want[i].Seq, Quals: want[i].Quals,
				Bytes: []int{}, Recs: []fqItem{}, Items: []fqItem{}}
			buf := &bytes.Buffer{}
			before := fqProject(f)
			if sid%4 == 1 {
				failedWriteFirst(f.Write)
			}
			ev.Panic, _ = catch(func() { ev.WErr = f.Write(buf) != nil })
			var bm []byte
			ev.MPanic, _ = catch(func() {
				var err error
				if bm, err = f.MarshalText(); err != nil {
					ev.WErr = true
				}
			})
			if !fqItemsEqual([]fqItem{before}, []fqItem{fqProject(f)}) {
				ev.Panic = true
			}
			ev.BW = ints(buf.Bytes())
			own = append(own, buf.Bytes()...)
			hs = append(hs, held{ev, bm})
		}
		if len(recs) > 0 { // one more call after the last record: whatever the last results point into gets its chance to be re-used
			catch(func() { recs[0].MarshalText(); recs[0].Write(io.Discard) })
		}
		for i, h := range hs {
			h.ev.BM = ints(h.bm)
			if !fqItemsEqual([]fqItem{fqProject(recs[i])}, []fqItem{want[i]}) {
				h.ev.Panic = true // some write changed this record
			}
			tw.emit(h.ev)
		}
		for i := range recs { // pristine copies for everything that follows
			recs[i] = &fastq.Fastq{Name: unints(want[i].Name), Sequence: unints(want[i].Seq), Quals: unints(want[i].Quals)}
		}
		emitRead := func(kind string, data []byte, j int) {
			ev := fqEvent{Sid: sid, Op: "read", Kind: kind, Name: []int{}, Seq: []int{}, Quals: []int{}, BW: []int{}, BM: []int{},
				Bytes: ints(data), Recs: want, J: j}
			ev.Items, ev.Panic = fqRead(data)
			tw.emit(ev)
		}
		readDelivery, fqGrow = []int{0, 0, 1, 0, 2, 3}[sid%6], sid%3 == 1
		failedReadsFirst = sid%3 == 2
		fqPairedWith = nil
		if sid%5 == 3 {
			fqPairedWith = []byte("@mate/2\nTTTTGGGGCCCCAAAA\n+\nIIIIHHHHGGGGFFFF\n@m2/2\nAC\n+\n!!\n@m3/2\n\n+\n\n")
		}
		if aligned > 0 { // (the whole file is read at once: a large buffer is refilled in the middle of a record)
			readDelivery = 0
		}
		if long > 100000 && readDelivery != 0 { // (bufio.Scanner re-scans its whole buffer after every Read: byte-wise delivery of a
			// multi-megabyte line is quadratic - in the standard library, not in the code under test)
			readDelivery = 3
		}
		emitRead("own-writer", own, 0)
		if aligned > 0 {
			// (hundreds of records: no per-record corruptions here; one cut in the aligned record's neighbourhood)
			if data, ok := fqCorrupt(r, recs, len(recs)-3, "cut3", false); ok {
				emitRead("cut3", data, len(recs)-3)
			}
		} else if long < 0 {
			emitRead("crlf", fqJoin(fqLines(recs), true), 0)
			for j := 1; j <= len(recs); j++ {
				for _, kind := range fqKinds {
					if data, ok := fqCorrupt(r, recs, j, kind, r.Intn(4) == 0); ok {
						emitRead(kind, data, j)
					}
				}
			}
		} else if long <= 70001 {
			// corruptions of the long record too (the reader must reject, not overflow)
			for _, kind := range []string{"quals-short", "cut3", "no-plus"} {
				if data, ok := fqCorrupt(r, recs, len(recs), kind, false); ok {
					emitRead(kind, data, len(recs))
				}
			}
		}
	}
	return tw.close()
}
