package main

import (
	"bytes"
	"io"
	"iter"
	"math/rand"
	"strconv"
	"strings"

	"github.com/fluhus/biostuff/formats/fasta"
)

func init() {
	register("fasta-drive", fastaDrive)
	register("fasta-replay", fastaReplay)
}

type faRec struct {
	Name []int `json:"name"`
	Seq  []int `json:"seq"`
}

func faProject(f *fasta.Fasta) faRec { return faRec{ints(f.Name), ints(f.Sequence)} }

// faRead runs the real Reader over data and returns the projected items.
// faPairedWith: when set, faRead advances a second reader over this text in lockstep
var faPairedWith []byte

func faRead(data []byte) (items []faRec, gotErr bool, panicked bool) {
	items = []faRec{}
	var kept []*fasta.Fasta // records are projected after the iteration: a delivered record must stay what it was
	panicked, _ = catch(func() {
		if failedReadsFirst { // (one malformed text before each recorded read, in turn: a pool hands back what was put last)
			ts := malformedTexts["fasta"]
			t := ts[malformedNext%len(ts)]
			malformedNext++
			for range fasta.Reader(strings.NewReader(t)) {
			}
		}
		seq := fasta.Reader(deliver(data))
		if faPairedWith != nil { // consumed in lockstep with a reader over another text
			next, stop := iter.Pull2(fasta.Reader(bytes.NewReader(faPairedWith)))
			defer stop()
			inner := seq
			seq = func(yield func(*fasta.Fasta, error) bool) {
				for f, err := range inner {
					next()
					if !yield(f, err) {
						return
					}
				}
			}
		}
		for f, err := range seq {
			if err != nil {
				gotErr = true
				continue
			}
			kept = append(kept, f)
		}
	})
	if faGrow { // the consumer appends to the fields of the records it holds
		p, _ := catch(func() {
			for _, f := range kept {
				n1, n2 := len(f.Name), len(f.Sequence)
				grown(f.Name)
				grown(f.Sequence)
				f.Name, f.Sequence = f.Name[:n1], f.Sequence[:n2]
			}
		})
		panicked = panicked || p
	}
	for _, f := range kept {
		items = append(items, faProject(f))
	}
	return
}

// faGrow: set per session
var faGrow bool

// ---------------------------------------------------------------- leg R

type faCase struct {
	Recs []faRec `json:"recs"`
	Text []int   `json:"text"`
}

func faEqual(a, b []faRec) bool {
	if len(a) != len(b) {
		return false
	}
	for i := range a {
		if !bytes.Equal(unints(a[i].Name), unints(b[i].Name)) || !bytes.Equal(unints(a[i].Seq), unints(b[i].Seq)) {
			return false
		}
	}
	return true
}

func fastaReplay(args []string) error {
	if err := need(args, 2, "fasta-replay <cases.json> <out.json>"); err != nil {
		return err
	}
	var cases []faCase
	if err := readJSON(args[0], &cases); err != nil {
		return err
	}
	var mm []mismatch
	for i, c := range cases {
		items, gotErr, panicked := faRead(unints(c.Text))
		if gotErr || panicked || !faEqual(items, c.Recs) {
			mm = append(mm, mismatch{i, "reader", "layout-decodes-differently",
				map[string]any{"items": items, "err": gotErr, "panic": panicked}, c.Recs})
		}
	}
	return writeJSON(args[1], map[string]any{"executed": len(cases), "mismatches": mm})
}

// ---------------------------------------------------------------- leg T

type faEvent struct {
	Sid    int     `json:"sid"`
	Op     string  `json:"op"` // write | read
	Kind   string  `json:"kind"`
	Name   []int   `json:"name"`
	Seq    []int   `json:"seq"`
	BW     []int   `json:"bw"` // bytes produced by Write
	BM     []int   `json:"bm"` // bytes produced by MarshalText
	WErr   bool    `json:"werr"`
	MPanic bool    `json:"mpanic"`
	Bytes  []int   `json:"bytes"`
	Want   []faRec `json:"want"`
	Items  []faRec `json:"items"`
	Err    bool    `json:"err"`
	Panic  bool    `json:"panic"`
}

var faLens = []int{0, 1, 2, 79, 80, 81, 159, 160, 161, 240}
var faLongLens = []int{4095, 4096, 4097, 65535, 65536, 65537, 70001}

func faRandBytes(r *rand.Rand, n int, forbid string) []byte {
	b := make([]byte, n)
	special := []byte{0x00, 0xFF, ' ', '\t', '"', '@', '+', '#', ';', '>', 0x80, 0xC3, 0xA9, 'A', 'C', 'G', 'T', 'N', '-', '*'}
	for i := range b {
		for {
			var c byte
			switch r.Intn(3) {
			case 0:
				c = byte(r.Intn(256))
			case 1:
				c = special[r.Intn(len(special))]
			default:
				c = "ACGTacgtNn"[r.Intn(10)]
			}
			if bytes.IndexByte([]byte(forbid), c) < 0 {
				b[i] = c
				break
			}
		}
	}
	return b
}

// faLayout renders records in a random layout of the same content: line widths, 1-2 terminators
// out of {LF, CRLF} after each line, final terminator kept or dropped.
func faLayout(r *rand.Rand, recs []*fasta.Fasta) []byte {
	var lines [][]byte
	for _, f := range recs {
		lines = append(lines, append([]byte{'>'}, f.Name...))
		s := f.Sequence
		mode := r.Intn(4)
		fixed := 1 + r.Intn(200)
		for len(s) > 0 {
			var w int
			switch mode {
			case 0:
				w = fixed
			case 1:
				w = 1 + r.Intn(5)
			case 2:
				w = len(s) // single line
			default:
				w = 1 + r.Intn(300)
			}
			if len(s) > 20000 && w < 500 { // keep MiB-sized cases to a sane number of lines
				w = 500 + r.Intn(5000)
			}
			w = min(w, len(s))
			lines = append(lines, s[:w])
			s = s[w:]
		}
	}
	crlfAll := r.Intn(3) == 0
	term := func() []byte {
		one := func() []byte {
			if crlfAll || r.Intn(4) == 0 {
				return []byte("\r\n")
			}
			return []byte("\n")
		}
		t := one()
		if r.Intn(5) == 0 {
			t = append(t, one()...)
		}
		return t
	}
	var out []byte
	for i, l := range lines {
		out = append(out, l...)
		if i < len(lines)-1 || r.Intn(3) > 0 {
			out = append(out, term()...)
		}
	}
	return out
}

// faFixedWidth: every sequence line exactly w bytes wide (the last one shorter), LF or CRLF.
func faFixedWidth(recs []*fasta.Fasta, w int, crlf bool) []byte {
	nl := "\n"
	if crlf {
		nl = "\r\n"
	}
	var out []byte
	for _, f := range recs {
		out = append(append(append(out, '>'), f.Name...), nl...)
		for i := 0; i < len(f.Sequence); i += w {
			out = append(append(out, f.Sequence[i:min(i+w, len(f.Sequence))]...), nl...)
		}
	}
	return out
}

func faCanonical(recs []*fasta.Fasta) []byte { // what the specification's WriteAll(recs, 80) is expected to be
	var out []byte
	for _, f := range recs {
		out = append(out, '>')
		out = append(out, f.Name...)
		out = append(out, '\n')
		for i := 0; i < len(f.Sequence); i += 80 {
			out = append(out, f.Sequence[i:min(i+80, len(f.Sequence))]...)
			out = append(out, '\n')
		}
	}
	return out
}

func fastaDrive(args []string) error {
	if err := need(args, 2, "fasta-drive <out.ndjson> <sessions> [only-sid]"); err != nil {
		return err
	}
	sessions, _ := strconv.Atoi(args[1])
	only := -1
	if len(args) > 2 {
		only, _ = strconv.Atoi(args[2])
	}
	tw, err := newTrace(args[0])
	if err != nil {
		return err
	}
	for sid := 0; sid < sessions; sid++ {
		if only >= 0 && sid != only {
			continue
		}
		r := newRand(int64(sid) + 1000)
		// record list
		nrec := r.Intn(6)
		if sid%7 == 0 {
			nrec = r.Intn(21)
		}
		long := -1 // sessions 0..len(faLongLens)-1 carry one long sequence each (thorough: MiB sized as well)
		if sid < len(faLongLens) {
			long = faLongLens[sid]
			nrec = 1 + r.Intn(2)
		} else if thorough() && sid == len(faLongLens) {
			long = 4 << 20
			nrec = 1
		}
		var recs []*fasta.Fasta
		for i := 0; i < nrec; i++ {
			var n int
			switch r.Intn(4) {
			case 0:
				n = faLens[r.Intn(len(faLens))]
			case 1:
				n = r.Intn(400)
			case 2:
				n = 80 * r.Intn(6)
			default:
				n = r.Intn(20)
			}
			if i == 0 && long >= 0 {
				n = long
			}
			f := &fasta.Fasta{}
			f.Sequence = faRandBytes(r, n, "\r\n>")
			switch r.Intn(6) {
			case 0:
				f.Name = nil
			case 1:
				f.Name = append([]byte{'>'}, faRandBytes(r, r.Intn(5), "\r\n")...)
			default:
				f.Name = faRandBytes(r, 1+r.Intn(30), "\r\n")
			}
			if n > 0 && r.Intn(8) == 0 { // plain DNA
				for j := range f.Sequence {
					f.Sequence[j] = "ACGT"[r.Intn(4)]
				}
			}
			if sid%9 == 4 && sid < 200 && i == 0 { // a name line of exactly / about a power-of-two length ('>' + name = 4096, 8192)
				f.Name = faRandBytes(r, []int{4094, 4095, 4096, 8191}[(sid/9)%4], "\r\n")
			}
			if sid%9 == 8 && sid < 200 && i == 0 { // a name of several buffers with the format's own marker at and around every multiple of 4096
				f.Name = faRandBytes(r, 9000+r.Intn(200), "\r\n>")
				for _, at := range []int{4094, 4095, 4096, 4097, 8190, 8191, 8192, 8193} {
					if (at+sid/9)%2 == 0 {
						f.Name[at] = '>'
					}
				}
			}
			recs = append(recs, f)
		}
		// all fields of all records are laid out back to back in ONE array and handed out as plain sub-slices (their capacity
		// runs into the next field): a writer must not touch anything beyond len() of what it was given
		{
			total := 0
			for _, f := range recs {
				total += len(f.Name) + len(f.Sequence)
			}
			arena := make([]byte, 0, total)
			for _, f := range recs {
				a := len(arena)
				arena = append(arena, f.Name...)
				b := len(arena)
				arena = append(arena, f.Sequence...)
				if f.Name != nil {
					f.Name = arena[a:b]
				}
				f.Sequence = arena[b:len(arena)]
			}
		}
		want := []faRec{}
		for _, f := range recs {
			want = append(want, faProject(f))
		}
		// write events. The bytes returned by MarshalText are kept as they are until every record of the session has been
		// marshalled and written: a returned text must stay what it was (no shared or pooled buffer).
		var own []byte
		type held struct {
			ev faEvent
			bm []byte
		}
		var hs []held
		for i, f := range recs {
			// the event describes the record as it was BEFORE any write of this session (want[i])
			ev := faEvent{Sid: sid, Op: "write", Kind: "write", Name: want[i].Name, Seq: want[i].Seq,
				Bytes: []int{}, Want: []faRec{}, Items: []faRec{}}
			buf := &bytes.Buffer{}
			nameBefore, seqBefore := bytes.Clone(f.Name), bytes.Clone(f.Sequence)
			if sid%4 == 1 {
				failedWriteFirst(f.Write)
			}
			ev.Panic, _ = catch(func() { ev.WErr = f.Write(buf) != nil })
			var bm []byte
			ev.MPanic, _ = catch(func() {
				var err error
				bm, err = f.MarshalText()
				if err != nil {
					ev.WErr = true
				}
			})
			if !bytes.Equal(nameBefore, f.Name) || !bytes.Equal(seqBefore, f.Sequence) {
				ev.Panic = true // writer modified the record
			}
			ev.BW = ints(buf.Bytes())
			own = append(own, buf.Bytes()...)
			hs = append(hs, held{ev, bm})
		}
		if len(recs) > 0 { // one more call after the last record: whatever the last results point into gets its chance to be re-used
			catch(func() { recs[0].MarshalText(); recs[0].Write(io.Discard) })
		}
		for i, h := range hs {
			h.ev.BM = ints(h.bm)
			if !faEqual([]faRec{faProject(recs[i])}, []faRec{want[i]}) {
				h.ev.Panic = true // some write changed this record (e.g. through the spare capacity of a neighbour)
			}
			tw.emit(h.ev)
		}
		// the read inputs are built from pristine copies of the records (a writer that damaged its input must not make the
		// driver produce uncertified inputs afterwards)
		for i := range recs {
			recs[i] = &fasta.Fasta{Name: unints(want[i].Name), Sequence: unints(want[i].Seq)}
		}
		// read events
		emitRead := func(kind string, data []byte) {
			ev := faEvent{Sid: sid, Op: "read", Kind: kind, Name: []int{}, Seq: []int{}, BW: []int{}, BM: []int{},
				Bytes: ints(data), Want: want}
			ev.Items, ev.Err, ev.Panic = faRead(data)
			tw.emit(ev)
		}
		readDelivery, faGrow = []int{0, 0, 1, 0, 2, 3}[sid%6], sid%3 == 1
		failedReadsFirst = sid%3 == 2
		faPairedWith = nil
		if sid%5 == 3 {
			faPairedWith = []byte(">other\nACGT\nAC\n>o2\n\n>o3\nTTTT\n")
		}
		emitRead("own-writer", own)
		if long < 0 || long <= 5000 {
			emitRead("spec-writer", faCanonical(recs))
		}
		nl := 3
		if long >= 0 {
			nl = 1
		}
		for i := 0; i < nl; i++ {
			emitRead("layout", faLayout(r, recs))
		}
		if long >= 4096 || sid%9 == 4 { // physical lines of exactly 4096 / 8192 / 65536 bytes, LF and CRLF
			for _, w := range []int{4096, 8192, 65536} {
				if w <= long+1 || w == 4096 {
					emitRead("layout", faFixedWidth(recs, w, false))
					emitRead("layout", faFixedWidth(recs, w-1, true))
					if long <= 70001 { // (not for the multi-megabyte records of the thorough tier: every event carries the text)
						emitRead("layout", faFixedWidth(recs, w, true)) // (the CR is byte w+1 of the line, the LF byte w+2)
						emitRead("layout", faFixedWidth(recs, w+1, true))
						emitRead("layout", faFixedWidth(recs, w+1, false))
					}
				}
			}
		}
	}
	return tw.close()
}
