package main

// Leg T drivers for C12 (reverse complement, canonical k-mers) and C13 (2-bit packing):
// every event is one call of a real sequtil function, recorded at its return with its arguments,
// its results (or panic: true) and the inputs as they are after the call.  Trace_Seq.tla judges.
//
//	vh seq-drive <family> <out.ndjson> <maxlen> [part nparts]   family: rc | canon | twobit
//	vh seq-exec  <requests.json> <out.ndjson>                   re-executes recorded calls (replay)

import (
	"bytes"
	"fmt"
	"iter"
	"math/rand"
	"strconv"

	"github.com/fluhus/biostuff/sequtil"
)

func init() {
	register("seq-drive", seqDrive)
	register("seq-exec", seqExec)
}

// seqReq is one call. The result fields of a recorded event are ignored when it is re-executed.
type seqReq struct {
	Op  string `json:"op"`
	Dst []int  `json:"dst"`
	Cap int    `json:"cap"` // spare capacity of dst beyond its length (filled with garbage)
	Src []int  `json:"src"`
	Seq []int  `json:"seq"`
	K   int    `json:"k"`
	B   int    `json:"b"`
	I   int    `json:"i"`
	// Same: dst (with its spare capacity) and src are cut from ONE allocation, dst first, src right behind it, disjoint
	// Same = 2: dst's CAPACITY runs to the end of the allocation (over src, which sits at the end), but the appended result
	// stays clear of src: still two different slices as far as the caller is concerned
	Same int `json:"same"`
}

// sameAlloc rebuilds dst and src as disjoint slices of one array.
func sameAlloc(dst, src []byte, layout int) ([]byte, []byte) {
	if layout == 2 {
		// [ dst | room for the result (4 bytes per input byte covers every function here) | src ]
		room := len(dst) + 4*len(src) + 8
		buf := make([]byte, room+len(src))
		copy(buf, dst)
		copy(buf[room:], src)
		return buf[:len(dst)], buf[room:]
	}
	buf := make([]byte, cap(dst)+len(src))
	copy(buf, dst[:cap(dst)])
	copy(buf[cap(dst):], src)
	return buf[:len(dst):cap(dst)], buf[cap(dst):]
}

type evRevComp struct {
	Op       string `json:"op"`
	Dst      []int  `json:"dst"`
	Cap      int    `json:"cap"`
	Src      []int  `json:"src"`
	Panic    bool   `json:"panic"`
	Out      []int  `json:"out"`
	SrcAfter []int  `json:"src_after"`
	DstAfter []int  `json:"dst_after"`
	Twice    []int  `json:"twice"` // the function applied to the part it appended
}

type evRevCompStr struct {
	Op    string `json:"op"`
	Src   []int  `json:"src"`
	Panic bool   `json:"panic"`
	Out   []int  `json:"out"`
}

type evCanon struct {
	Op       string  `json:"op"`
	Seq      []int   `json:"seq"`
	K        int     `json:"k"`
	Panic    bool    `json:"panic"`
	Items    [][]int `json:"items"`
	SeqAfter []int   `json:"seq_after"`
}

type evCanonPair struct {
	Op      string  `json:"op"`
	Seq     []int   `json:"seq"`
	K       int     `json:"k"`
	Panic   bool    `json:"panic"`
	Items   [][]int `json:"items"`
	RcItems [][]int `json:"rcitems"` // items of the reverse complement (computed by the real functions)
}

type evTo2Bit struct {
	Op       string `json:"op"`
	Dst      []int  `json:"dst"`
	Cap      int    `json:"cap"`
	Src      []int  `json:"src"`
	Panic    bool   `json:"panic"`
	Out      []int  `json:"out"`
	DstAfter []int  `json:"dst_after"`
	Back     []int  `json:"back"` // DNAFrom2Bit of the appended bytes
}

type evFrom2Bit struct {
	Op       string `json:"op"`
	Dst      []int  `json:"dst"`
	Cap      int    `json:"cap"`
	Src      []int  `json:"src"`
	Panic    bool   `json:"panic"`
	Out      []int  `json:"out"`
	DstAfter []int  `json:"dst_after"`
	SrcAfter []int  `json:"src_after"`
	Repack   []int  `json:"repack"` // DNATo2Bit of the appended text
	RePanic  bool   `json:"repanic"`
}

type evNtoi struct {
	Op string `json:"op"`
	B  int    `json:"b"`
	R  int    `json:"r"`
}

type evIton struct {
	Op string `json:"op"`
	I  int    `json:"i"`
	R  int    `json:"r"`
}

// mkDst builds a dst slice with the given content and spare capacity; the spare part holds garbage
// so that code which exposes it instead of appending is seen.
func mkDst(content []int, spare int) []byte {
	if len(content) == 0 && spare == 0 {
		return nil
	}
	b := make([]byte, len(content)+spare)
	copy(b, unints(content))
	for i := len(content); i < len(b); i++ {
		b[i] = 0xAA ^ byte(i*37)
	}
	return b[:len(content):len(b)]
}

// scribble: the caller overwrites what it was given (the whole capacity): a result is the caller's to change, and no later call
// may be affected by that
func scribble(b []byte) {
	b = b[:cap(b)]
	for i := range b {
		b[i] = 0xEE
	}
}

func nn(a []int) []int {
	if a == nil {
		return []int{}
	}
	return a
}

func collectCanon(seq []byte, k int) (items [][]int, panicked bool) {
	var it iter.Seq[[]byte]
	if p, _ := catch(func() { it = sequtil.CanonicalSubsequences(seq, k) }); p {
		return [][]int{}, true
	}
	return collectCanonIt(it)
}

func collectCanonIt(it iter.Seq[[]byte]) (items [][]int, panicked bool) {
	items = [][]int{}
	panicked, _ = catch(func() {
		// the iterator VALUE is used three times: a full pass, a pass broken off after one item, and the pass that is
		// recorded - an iter.Seq must give the same items every time it is ranged over
		for range it {
		}
		for range it {
			break
		}
		var kept [][]byte // the yielded slices are kept as they are and looked at only after the pass (slices.Collect does the same)
		for kmer := range it {
			kept = append(kept, kmer)
		}
		for _, kmer := range kept {
			items = append(items, ints(kmer))
		}
	})
	if panicked {
		items = [][]int{}
	}
	return
}

func seqCall(r seqReq) any {
	switch r.Op {
	case "revcomp":
		dst := mkDst(r.Dst, r.Cap)
		src := unints(r.Src)
		if r.Same > 0 {
			dst, src = sameAlloc(dst, src, r.Same)
		}
		orig := dst
		var out []byte
		p, _ := catch(func() { out = sequtil.ReverseComplement(dst, src) })
		ev := evRevComp{Op: r.Op, Dst: nn(r.Dst), Cap: r.Cap, Src: nn(r.Src), Panic: p,
			Out: []int{}, SrcAfter: ints(src), DstAfter: ints(orig), Twice: []int{}}
		if !p {
			ev.Out = ints(out)
			if len(out) >= len(r.Dst) {
				var tw []byte
				p2, _ := catch(func() { tw = sequtil.ReverseComplement(nil, out[len(r.Dst):]) })
				if !p2 {
					ev.Twice = ints(tw)
				} else {
					ev.Twice = []int{-1}
				}
			}
			scribble(out)
		}
		return ev
	case "revcompstr":
		var out string
		p, _ := catch(func() { out = sequtil.ReverseComplementString(string(unints(r.Src))) })
		ev := evRevCompStr{Op: r.Op, Src: nn(r.Src), Panic: p, Out: []int{}}
		if !p {
			ev.Out = sints(out)
		}
		return ev
	case "canon":
		seq := unints(r.Seq)
		// the same buffer held other content of the same length a moment ago (a read buffer that is filled again): a complete pass
		// over that content first, then the buffer gets the content of this request
		// ... and the iterator value itself is obtained while the buffer still holds the other content (an iter.Seq is a recipe: it is
		// the sequence at the time of the pass that counts)
		var early iter.Seq[[]byte]
		if len(seq) > 0 {
			for i, c := range seq {
				seq[i] = "CGTA"[(int(c)+i)%4]
			}
			catch(func() {
				early = sequtil.CanonicalSubsequences(seq, r.K)
				for range sequtil.CanonicalSubsequences(seq, r.K) {
				}
				if len(seq)%4 == 1 { // ... and has already been ranged over once over that content
					for range early {
					}
				}
			})
			copy(seq, unints(r.Seq))
		}
		var items [][]int
		var p bool
		if early != nil && len(seq)%2 == 1 {
			items, p = collectCanonIt(early)
		} else {
			items, p = collectCanon(seq, r.K)
		}
		return evCanon{Op: r.Op, Seq: nn(r.Seq), K: r.K, Panic: p, Items: items, SeqAfter: ints(seq)}
	case "canonpair":
		seq := unints(r.Seq)
		items, p := collectCanon(seq, r.K)
		rcitems := [][]int{}
		if !p {
			var rc []byte
			p, _ = catch(func() { rc = sequtil.ReverseComplement(nil, seq) })
			if !p {
				rcitems, p = collectCanon(rc, r.K)
			}
		}
		if p {
			items, rcitems = [][]int{}, [][]int{}
		}
		return evCanonPair{Op: r.Op, Seq: nn(r.Seq), K: r.K, Panic: p, Items: items, RcItems: rcitems}
	case "to2bit":
		dst := mkDst(r.Dst, r.Cap)
		src := unints(r.Src)
		if r.Same > 0 {
			dst, src = sameAlloc(dst, src, r.Same)
		}
		orig := dst
		var out []byte
		p, _ := catch(func() { out = sequtil.DNATo2Bit(dst, src) })
		ev := evTo2Bit{Op: r.Op, Dst: nn(r.Dst), Cap: r.Cap, Src: nn(r.Src), Panic: p,
			Out: []int{}, DstAfter: ints(orig), Back: []int{}}
		if !p {
			ev.Out = ints(out)
			if len(out) >= len(r.Dst) {
				var back []byte
				p2, _ := catch(func() { back = sequtil.DNAFrom2Bit(nil, out[len(r.Dst):]) })
				if !p2 {
					ev.Back = ints(back)
				} else {
					ev.Back = []int{-1}
				}
			}
		}
		return ev
	case "from2bit":
		dst := mkDst(r.Dst, r.Cap)
		orig := dst
		src := unints(r.Src)
		var out []byte
		p, _ := catch(func() { out = sequtil.DNAFrom2Bit(dst, src) })
		ev := evFrom2Bit{Op: r.Op, Dst: nn(r.Dst), Cap: r.Cap, Src: nn(r.Src), Panic: p,
			Out: []int{}, DstAfter: ints(orig), SrcAfter: ints(src), Repack: []int{}}
		if !p {
			ev.Out = ints(out)
			if len(out) >= len(r.Dst) {
				var re []byte
				ev.RePanic, _ = catch(func() { re = sequtil.DNATo2Bit(nil, out[len(r.Dst):]) })
				if !ev.RePanic {
					ev.Repack = ints(re)
				}
			}
		}
		scribble(out)
		return ev
	case "ntoi":
		return evNtoi{Op: r.Op, B: r.B, R: sequtil.Ntoi(byte(r.B))}
	case "iton":
		return evIton{Op: r.Op, I: r.I, R: int(sequtil.Iton(r.I))}
	}
	panic("seq: bad op " + r.Op)
}

// ---------------------------------------------------------------- generators

// forAllStrings calls f for every string over alpha of length 0..maxLen (shorter first).
func forAllStrings(alpha []byte, maxLen int, f func(s []int)) {
	for n := 0; n <= maxLen; n++ {
		idx := make([]int, n)
		s := make([]int, n)
		for {
			for i := range s {
				s[i] = int(alpha[idx[i]])
			}
			f(append([]int{}, s...))
			i := n - 1
			for i >= 0 {
				idx[i]++
				if idx[i] < len(alpha) {
					break
				}
				idx[i] = 0
				i--
			}
			if i < 0 {
				break
			}
		}
	}
}

func randOver(r *rand.Rand, alpha []byte, n int) []int {
	s := make([]int, n)
	for i := range s {
		s[i] = int(alpha[r.Intn(len(alpha))])
	}
	return s
}

// dst variants: (content, spare capacity)
type dstVar struct {
	content []int
	spare   int
}

var dstVars = []dstVar{
	{nil, 0},
	{[]int{'x', 'y'}, 0},                  // no spare capacity: append must reallocate
	{[]int{'A', 0, 255}, 64},              // spare capacity: append writes in place, prefix must survive
	{[]int{}, 3},                          // empty with a little spare capacity (grows in the middle of the call)
	{[]int{'g', 'G', 'c', 'C', 'N'}, 1},   // letters as prefix, one spare byte
	{[]int{0xF0, 0x0F, 0xFF, 0, 0x55}, 2}, // non-zero bytes right before the packed part
}

const (
	lettersRC  = "aAcCgGtTnN"
	lettersDNA = "aAcCgGtT"
)

func seqDrive(args []string) error {
	if err := need(args, 3, "seq-drive <rc|canon|twobit> <out.ndjson> <maxlen> [part nparts]"); err != nil {
		return err
	}
	family := args[0]
	maxLen, _ := strconv.Atoi(args[2])
	part, nparts := 0, 1
	if len(args) >= 5 {
		part, _ = strconv.Atoi(args[3])
		nparts, _ = strconv.Atoi(args[4])
	}
	tw, err := newTrace(args[1])
	if err != nil {
		return err
	}
	n := 0
	do := func(r seqReq) {
		if n%nparts == part {
			tw.emit(seqCall(r))
		}
		n++
	}
	withDst := func(op string, src []int, v int) seqReq {
		d := dstVars[v%len(dstVars)]
		return seqReq{Op: op, Dst: d.content, Cap: d.spare, Src: src}
	}
	long := 20000
	nrand := 60
	if thorough() {
		long = 300000
		nrand = 400
	}
	switch family {
	case "rc":
		r := newRand(12001)
		v := 0
		// exhaustive: every string over the ten letters; the dst variant rotates
		forAllStrings([]byte(lettersRC), maxLen, func(s []int) {
			do(withDst("revcomp", s, v))
			if len(s) < maxLen || v%4 == 0 {
				do(seqReq{Op: "revcompstr", Src: s})
			}
			v++
		})
		// the accept/panic boundary: all 256 byte values alone and at three positions of a legal string
		for b := 0; b < 256; b++ {
			for _, s := range [][]int{{b}, {b, 'A', 'c', 'n'}, {'G', 't', b, 'N', 'a'}, {'T', 'g', 'C', b}} {
				do(withDst("revcomp", s, v))
				do(seqReq{Op: "revcompstr", Src: s})
				v++
			}
		}
		// random long, legal and with one illegal byte somewhere
		for i := 0; i < nrand; i++ {
			ln := 1 + r.Intn(long)
			if i%3 == 0 {
				ln = 1 + r.Intn(300)
			}
			alpha := []byte(lettersRC)
			if i%5 == 1 {
				alpha = []byte("ACGT")
			}
			s := randOver(r, alpha, ln)
			if i%4 == 3 {
				s[r.Intn(ln)] = r.Intn(256)
			}
			do(withDst("revcomp", s, r.Intn(len(dstVars))))
			do(seqReq{Op: "revcompstr", Src: s})
		}
		// runs of one letter in mixed case, shorter and longer than a machine word or two (masked repeats, runs of unknown bases)
		for _, c := range []string{"nN", "aA", "tT", "cC", "gG"} {
			for _, ln := range []int{7, 8, 9, 15, 16, 17, 31, 32, 33, 64, 100} {
				run := make([]int, ln)
				for i := range run {
					run[i] = int(c[r.Intn(2)])
				}
				s := append(append(randOver(r, []byte(lettersRC), r.Intn(5)), run...), randOver(r, []byte(lettersRC), r.Intn(5))...)
				do(withDst("revcomp", s, r.Intn(len(dstVars))))
				do(seqReq{Op: "revcompstr", Src: s})
				do(seqReq{Op: "canon", Seq: s, K: 1 + r.Intn(ln)})
			}
		}
		// hairpins: a stem, a short loop, the reverse complement of the stem (the two strands of such a k-mer agree in their first
		// and last |stem| letters): k = the whole hairpin and a few around it
		for stem := 1; stem <= 20; stem++ {
			for _, loop := range []int{0, 1, 3, 4} {
				st := randOver(r, []byte("ACGT"), stem)
				hp := append(append([]int{}, st...), randOver(r, []byte("ACGT"), loop)...)
				for i := stem - 1; i >= 0; i-- {
					hp = append(hp, int("TGCA"[bytes.IndexByte([]byte("ACGT"), byte(st[i]))]))
				}
				s := append(append(randOver(r, []byte("ACGT"), 2), hp...), randOver(r, []byte("ACGT"), 2)...)
				for _, k := range []int{len(hp), len(hp) + 1, len(hp) - 1} {
					if k >= 1 {
						do(seqReq{Op: "canon", Seq: s, K: k})
					}
				}
			}
		}
		// dst and src cut from one allocation (disjoint): every string up to length 3, three dst shapes
		for _, s := range allStrings([]int{'a', 'C', 'g', 'T', 'n'}, 3) {
			for _, d := range []dstVar{{nil, 0}, {nil, 8}, {[]int{'x', 'y'}, 5}} {
				do(seqReq{Op: "revcomp", Dst: d.content, Cap: d.spare, Src: s, Same: 1})
				do(seqReq{Op: "revcomp", Dst: d.content, Cap: d.spare, Src: s, Same: 2})
			}
		}
		// strings are byte strings: every well-formed 2-byte UTF-8 sequence (and a sample of 3-byte ones) between legal
		// bases - a character is not a base, whatever its code point's low byte is
		for b1 := 0xC2; b1 <= 0xDF; b1++ {
			for b2 := 0x80; b2 <= 0xBF; b2++ {
				do(seqReq{Op: "revcompstr", Src: []int{'A', b1, b2, 'c'}})
			}
		}
		for i := 0; i < 1500; i++ {
			do(seqReq{Op: "revcompstr", Src: []int{'g', 0xE1 + r.Intn(12), 0x80 + r.Intn(64), 0x80 + r.Intn(64), 'T'}})
		}
	case "canon":
		r := newRand(12002)
		c := 0
		// every string up to maxLen with every k in 1..len+2; strings of length maxLen+1 with one k each,
		// rotating over 1..len+2
		forAllStrings([]byte(lettersRC), maxLen+1, func(s []int) {
			if len(s) <= maxLen {
				for k := 1; k <= len(s)+2; k++ {
					do(seqReq{Op: "canon", Seq: s, K: k})
				}
				return
			}
			do(seqReq{Op: "canon", Seq: s, K: 1 + c%(len(s)+2)})
			c++
		})
		// every string up to 3: the pair form (a sequence and its reverse complement, opposite order)
		forAllStrings([]byte(lettersRC), 3, func(s []int) {
			for k := 1; k <= len(s)+1; k++ {
				do(seqReq{Op: "canonpair", Seq: s, K: k})
			}
		})
		// random long; reverse-palindromic constructions make ties and near-ties frequent
		ks := []int{1, 2, 3, 4, 5, 8, 11, 16, 21, 31, 32, 33, 64}
		clong := long / 10
		for i := 0; i < nrand; i++ {
			ln := 1 + r.Intn(clong)
			if i%3 == 0 {
				ln = 1 + r.Intn(80)
			}
			alpha := []byte(lettersRC)
			switch i % 5 {
			case 1:
				alpha = []byte("ACGT")
			case 2:
				alpha = []byte("AT")
			case 3:
				alpha = []byte("aAtT")
			}
			s := randOver(r, alpha, ln)
			if i%4 == 2 {
				// x followed by its own reverse complement (computed here, independently of the library)
				h := s[:ln/2]
				s = append(append([]int{}, h...), naiveRC(h)...)
				if len(s) == 0 {
					s = []int{'A', 'T'}
				}
				ln = len(s)
			}
			var k int
			switch r.Intn(4) {
			case 0:
				k = ks[r.Intn(len(ks))]
			case 1:
				k = ln - 1 + r.Intn(4) // len-1 .. len+2
			default:
				k = 1 + r.Intn(40)
			}
			if k < 1 {
				k = 1
			}
			if int64(ln)*int64(k) > 400000 { // keep one event below ~400k numbers
				k = 1 + 400000/ln
			}
			op := "canon"
			if i%2 == 1 {
				op = "canonpair"
			}
			do(seqReq{Op: op, Seq: s, K: k})
		}
	case "twobit":
		r := newRand(13001)
		v := 0
		forAllStrings([]byte(lettersDNA), maxLen, func(s []int) {
			do(withDst("to2bit", s, v))
			v++
		})
		// panic boundary: all 256 byte values alone and at each position (i%4 = 0..3, second byte) of a legal string
		for b := 0; b < 256; b++ {
			do(withDst("to2bit", []int{b}, v))
			base := []int{'A', 'c', 'G', 't', 'T', 'g'}
			for pos := range base {
				s := append([]int{}, base...)
				s[pos] = b
				do(withDst("to2bit", s, v))
				v++
			}
		}
		for b := 0; b < 256; b++ {
			do(seqReq{Op: "ntoi", B: b})
		}
		for i := -2; i <= 6; i++ {
			do(seqReq{Op: "iton", I: i})
		}
		// every packed string of one and two bytes (65 792), empty too
		do(withDst("from2bit", []int{}, 0))
		do(withDst("from2bit", []int{}, 2))
		for a := 0; a < 256; a++ {
			do(withDst("from2bit", []int{a}, v))
			v++
		}
		for a := 0; a < 256; a++ {
			for b := 0; b < 256; b++ {
				do(withDst("from2bit", []int{a, b}, v))
				v++
			}
		}
		// dst and src cut from one allocation (disjoint)
		for _, s := range allStrings([]int{'a', 'C', 'g', 'T'}, 4) {
			do(seqReq{Op: "to2bit", Dst: nil, Cap: 4, Src: s, Same: 1})
			do(seqReq{Op: "to2bit", Dst: []int{7, 9}, Cap: 1, Src: s, Same: 2})
		}
		// many invalid bytes: counts at which a narrow counter wraps (256, 65536)
		for _, cnt := range []int{255, 256, 257, 65535, 65536, 65537} {
			s := make([]int, cnt+8)
			for j := range s {
				s[j] = 'N'
			}
			copy(s, []int{'A', 'C', 'G', 'T'})
			copy(s[len(s)-4:], []int{'a', 'c', 'g', 't'})
			do(withDst("to2bit", s, cnt%len(dstVars)))
		}
		// random long: every length mod 4, both cases; packed strings of random bytes
		for i := 0; i < nrand; i++ {
			ln := 1 + r.Intn(long)
			if i%3 == 0 {
				ln = 1 + r.Intn(200)
			}
			s := randOver(r, []byte(lettersDNA), ln)
			if i%5 == 4 {
				bad := []int{'N', 'n', 'U', 0, 255, '@', '`', 'B', 'u', ' '}
				s[r.Intn(ln)] = bad[r.Intn(len(bad))]
			}
			do(withDst("to2bit", s, r.Intn(len(dstVars))))
			p := make([]int, 1+r.Intn(long/4))
			for j := range p {
				p[j] = r.Intn(256)
			}
			do(withDst("from2bit", p, r.Intn(len(dstVars))))
		}
	case "huge":
		// thorough tier: inputs beyond 2^20 elements (block sizes, counters, pre-sizing paths of "optimised" code)
		r := newRand(12009)
		n := 1<<20 + 37
		big := randOver(r, []byte("ACGTacgtNn"), n)
		do(seqReq{Op: "revcomp", Dst: []int{'x', 'y', 'z'}, Cap: 0, Src: big})
		do(seqReq{Op: "canon", Seq: big, K: 2})
		dna := randOver(r, []byte(lettersDNA), n)
		do(seqReq{Op: "to2bit", Dst: []int{1, 2, 3}, Cap: 2, Src: dna})
		bad := append([]int{}, dna...)
		bad[0] = 'N'
		do(seqReq{Op: "to2bit", Dst: nil, Cap: 0, Src: bad})
		packed := make([]int, 1<<18+3)
		for j := range packed {
			packed[j] = r.Intn(256)
		}
		do(seqReq{Op: "from2bit", Dst: []int{'q'}, Cap: 0, Src: packed})
	default:
		return fmt.Errorf("unknown family %q", family)
	}
	return tw.close()
}

// naiveRC is used only to CONSTRUCT inputs with ties (never to judge).
func naiveRC(s []int) []int {
	m := map[int]int{'a': 't', 'A': 'T', 'c': 'g', 'C': 'G', 'g': 'c', 'G': 'C', 't': 'a', 'T': 'A', 'n': 'n', 'N': 'N'}
	out := make([]int, len(s))
	for i, b := range s {
		out[len(s)-1-i] = m[b]
	}
	return out
}

func seqExec(args []string) error {
	if err := need(args, 2, "seq-exec <requests.json> <out.ndjson>"); err != nil {
		return err
	}
	var reqs []seqReq
	if err := readJSON(args[0], &reqs); err != nil {
		return err
	}
	tw, err := newTrace(args[1])
	if err != nil {
		return err
	}
	for _, r := range reqs {
		tw.emit(seqCall(r))
	}
	return tw.close()
}

// allStrings: every string over alpha up to maxLen (including the empty one).
func allStrings(alpha []int, maxLen int) [][]int {
	out := [][]int{{}}
	frontier := [][]int{{}}
	for n := 1; n <= maxLen; n++ {
		var next [][]int
		for _, p := range frontier {
			for _, x := range alpha {
				next = append(next, append(append([]int{}, p...), x))
			}
		}
		out = append(out, next...)
		frontier = next
	}
	return out
}
