package main

import (
	"bufio"
	"bytes"
	"encoding/json"
	"fmt"
	"hash/adler32"
	"hash/crc32"
	"hash/fnv"
	"io"
	"math/rand"
	"os"
	"strconv"
	"testing/iotest"
)

// ints projects a byte string to a JSON array of ints (section 4.2 of DESIGN.md).
func ints(b []byte) []int {
	out := make([]int, len(b))
	for i, x := range b {
		out[i] = int(x)
	}
	return out
}

func sints(s string) []int { return ints([]byte(s)) }

func unints(a []int) []byte {
	out := make([]byte, len(a))
	for i, x := range a {
		out[i] = byte(x)
	}
	return out
}

func seed() int64 {
	s, err := strconv.ParseInt(os.Getenv("VERIF_SEED"), 10, 64)
	if err != nil {
		return 1
	}
	return s
}

func thorough() bool { return os.Getenv("VERIF_TIER") == "thorough" }

func newRand(salt int64) *rand.Rand { return rand.New(rand.NewSource(seed()*1000003 + salt)) }

// ndjson writer
type traceWriter struct {
	f *os.File
	w *bufio.Writer
	n int
}

func newTrace(path string) (*traceWriter, error) {
	f, err := os.Create(path)
	if err != nil {
		return nil, err
	}
	return &traceWriter{f: f, w: bufio.NewWriterSize(f, 1<<20)}, nil
}

func (t *traceWriter) emit(v any) {
	b, err := json.Marshal(v)
	if err != nil {
		panic(err)
	}
	t.w.Write(b)
	t.w.WriteByte('\n')
	t.n++
}

func (t *traceWriter) close() error {
	if err := t.w.Flush(); err != nil {
		return err
	}
	return t.f.Close()
}

func readJSON(path string, v any) error {
	f, err := os.Open(path)
	if err != nil {
		return err
	}
	defer f.Close()
	return json.NewDecoder(bufio.NewReaderSize(f, 1<<20)).Decode(v)
}

func writeJSON(path string, v any) error {
	f, err := os.Create(path)
	if err != nil {
		return err
	}
	w := bufio.NewWriterSize(f, 1<<20)
	if err := json.NewEncoder(w).Encode(v); err != nil {
		return err
	}
	if err := w.Flush(); err != nil {
		return err
	}
	return f.Close()
}

// catch runs f and reports whether it panicked.
func catch(f func()) (panicked bool, msg string) {
	defer func() {
		if r := recover(); r != nil {
			panicked = true
			msg = fmt.Sprint(r)
		}
	}()
	f()
	return false, ""
}

func need(args []string, n int, usage string) error {
	if len(args) < n {
		return fmt.Errorf("usage: vh %s", usage)
	}
	return nil
}

// collidingNames: pairs of different names of one length that collide under common 32-bit string hashes (FNV-1a, FNV-1, CRC-32, Adler-32,
// the 31-multiplier hash, and the same hashes reduced to 16 bits): whatever is keyed by a hash of a name - an interning table, a cache, a
// Bloom filter - must still tell them apart. Found by birthday search over seeded pseudo-random names, once per process.
var collidingOnce [][2]string

func collidingNames() [][2]string {
	if collidingOnce != nil {
		return collidingOnce
	}
	hashes := []func(string) uint32{
		func(s string) uint32 { h := fnv.New32a(); h.Write([]byte(s)); return h.Sum32() },
		func(s string) uint32 { h := fnv.New32(); h.Write([]byte(s)); return h.Sum32() },
		func(s string) uint32 { return crc32.ChecksumIEEE([]byte(s)) },
		func(s string) uint32 { return adler32.Checksum([]byte(s)) },
		func(s string) uint32 {
			var h uint32
			for i := 0; i < len(s); i++ {
				h = 31*h + uint32(s[i])
			}
			return h
		},
	}
	r := rand.New(rand.NewSource(424242))
	const letters = "ABCDEFGHIJKLMNOPQRSTUVWXYZabcdefghijklmnopqrstuvwxyz0123456789_."
	names := make([]string, 600000)
	for i := range names {
		b := []byte("chrUn_")
		for j := 0; j < 8; j++ {
			b = append(b, letters[r.Intn(len(letters))])
		}
		names[i] = string(b)
	}
	for _, h := range hashes {
		seen := make(map[uint32]string, len(names))
		found := 0
		for _, n := range names {
			k := h(n)
			if o, ok := seen[k]; ok && o != n {
				collidingOnce = append(collidingOnce, [2]string{o, n})
				if found++; found >= 6 {
					break
				}
				continue
			}
			seen[k] = n
		}
	}
	return collidingOnce
}

// failedWriteFirst: the record is first written to a writer that fails part-way (and once to a writer that takes nothing), the results
// thrown away: a failed Write must leave nothing behind that a later Write or MarshalText could pick up.
func failedWriteFirst(write func(w io.Writer) error) {
	catch(func() {
		full := &bytes.Buffer{}
		if write(full) != nil {
			return
		}
		write(&limitWriter{left: full.Len() / 2})
		write(&limitWriter{left: 0})
		write(&limitWriter{left: max(full.Len()-1, 0)})
	})
}

// readDelivery: how the read events of the codec drivers hand the text to the reader under test (0: all at once; 1: one byte per Read;
// 2: three bytes per Read; 3: 4096 bytes per Read, the last one together with io.EOF). Set per session by the drivers.
var readDelivery int

func deliver(data []byte) io.Reader {
	switch readDelivery {
	case 1:
		return iotest.OneByteReader(bytes.NewReader(data))
	case 2:
		return &chunkReader{data: data, next: func() int { return 3 }}
	case 3:
		return &chunkReader{data: data, next: func() int { return 4096 }, withEOF: true}
	}
	return bytes.NewReader(data)
}

// grown: what a caller gets who appends to a slice it was given (the append goes into the slice's spare capacity if it has any)
func grown(b []byte) []byte { return append(b, '!', '?') }

// failedReadsFirst: when set (per session), every recorded read of the codec drivers is preceded by complete iterations over a few
// malformed texts of the same format: a failed parse must leave nothing behind that a later reader could pick up.
var failedReadsFirst bool
var malformedNext int

var malformedTexts = map[string][]string{
	"fasta":  {"junk before the first record\n>x\nAC\n", ">a\nAC\n>"},
	"fastq":  {"@a\nACGT\n+\nII\n@b\nAC\n+\nII\n", "@a\nAC", "a\nAC\n+\nII\n"},
	"sam":    {"x\ty\n", "q\tz\tr\t1\t0\t*\t*\t0\t0\tA\t*\tXX:i:x\n"},
	"bed":    {"c\tx\t2\n", "c\t1\t2\nc\t1\n", "c\t1"},
	"newick": {"(a:1,b:x);", "((a,b)", "a)b;", "(a,b)'c", "(a:1:2);"},
}
